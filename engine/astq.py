"""Queries over the serialized syntax tree (semantic, never positional)."""
from .facts import walk, children

TRANSPARENT = {"ImplicitCastExpr", "ParenExpr", "ExprWithCleanups", "MaterializeTemporaryExpr",
               "CXXBindTemporaryExpr", "ConstantExpr", "SubstNonTypeTemplateParmExpr"}
ASSIGN_OPS = {"=", "+=", "-=", "*=", "/=", "%=", "&=", "|=", "^=", "<<=", ">>="}
ASSERT_MACROS = {"COLA_ASSERT", "assert", "ASSERT", "COLA_UNUSED"}


def strip(n):
    """Look through parentheses, implicit casts and temporaries."""
    while n is not None and n.get("k") in TRANSPARENT:
        c = n.get("ch")
        if not c:
            break
        n = c[0]
    return n


def strip_casts(n):
    """Like strip, but also through explicit value-preserving casts."""
    while n is not None:
        k = n.get("k")
        if k in TRANSPARENT or k in ("CStyleCastExpr", "CXXStaticCastExpr", "CXXFunctionalCastExpr", "CXXConstCastExpr"):
            c = n.get("ch")
            if not c:
                break
            n = c[0]
        else:
            break
    return n


def is_this(n):
    n = strip(n)
    return n is not None and n.get("k") == "CXXThisExpr"


def member_of_this(n):
    """If n is `this->F` / implicit `F`, return the field's qualified name."""
    n = strip(n)
    if n is not None and n.get("k") == "MemberExpr" and n.get("rk") == "Field":
        base = n.get("ch", [None])[0]
        if is_this(base):
            return n["ref"]
    return None


def field_ref(n):
    """If n (stripped) is a MemberExpr naming a field, return (field qname, base node)."""
    n = strip(n)
    if n is not None and n.get("k") == "MemberExpr" and n.get("rk") == "Field":
        return n["ref"], n.get("ch", [None])[0]
    return None, None


def in_macro(fn, n, macros=ASSERT_MACROS):
    if n.get("mac") in macros:
        return True
    for a in fn.ancestors(n):
        if a.get("mac") in macros:
            return True
    return False


def calls(fn):
    """All call-like nodes with a resolved callee."""
    for n in fn.nodes():
        if "callee" in n:
            yield n


def call_args(n):
    """Argument nodes of a call-like node (object argument excluded for member calls)."""
    k = n.get("k")
    ch = n.get("ch", [])
    if k == "CXXConstructExpr" or k == "CXXTemporaryObjectExpr":
        return ch
    if k == "CXXMemberCallExpr":
        return ch[1:]
    if k == "CXXOperatorCallExpr":
        return ch[1:]
    return ch[1:]


def call_object(n):
    """Object expression of a member call (None for free calls)."""
    k = n.get("k")
    ch = n.get("ch", [])
    if k == "CXXMemberCallExpr" and ch:
        callee = strip(ch[0])
        if callee is not None and callee.get("k") == "MemberExpr":
            c = callee.get("ch")
            return c[0] if c else None
    if k == "CXXOperatorCallExpr" and len(ch) >= 2:
        return ch[1]
    return None


def writes(fn):
    """Stores: yields (lhs node, node, op) for assignments, compound assignments, ++/--,
    and overloaded `=` (class-typed targets)."""
    for n in fn.nodes():
        k = n.get("k")
        if k in ("BinaryOperator", "CompoundAssignOperator") and n.get("op") in ASSIGN_OPS:
            yield n["ch"][0], n, n["op"]
        elif k == "UnaryOperator" and n.get("op") in ("++", "--"):
            yield n["ch"][0], n, n["op"]
        elif k == "CXXOperatorCallExpr" and n.get("op") in ASSIGN_OPS | {"++", "--"}:
            if len(n.get("ch", [])) >= 2:
                yield n["ch"][1], n, n["op"]


def written_field(lhs):
    """Field (qname) stored through an lvalue expression, looking through array subscripts:
    `x.f = ..` -> f ; `x.f[i] = ..` -> f (element store)."""
    n = strip(lhs)
    elem = False
    while n is not None:
        k = n.get("k")
        if k == "ArraySubscriptExpr":
            n = strip(n["ch"][0])
            elem = True
            continue
        if k == "CXXOperatorCallExpr" and n.get("op") == "[]":
            n = strip(n["ch"][1])
            elem = True
            continue
        break
    if n is not None and n.get("k") == "MemberExpr" and n.get("rk") == "Field":
        return n["ref"], elem, n
    if n is not None and n.get("k") == "DeclRefExpr" and n.get("rk") == "Var":
        return n["ref"], elem, n
    return None, elem, n


def find(fn, pred):
    return [n for n in fn.nodes() if pred(n)]


def subtree_has(n, pred):
    for x in walk(n):
        if pred(x):
            return True
    return False


def literal_value(n):
    n = strip_casts(n)
    if n is None:
        return None
    k = n.get("k")
    if k in ("IntegerLiteral", "FloatingLiteral", "CXXBoolLiteralExpr", "CharacterLiteral"):
        return n.get("v")
    if k == "UnaryOperator" and n.get("op") == "-":
        v = literal_value(n["ch"][0])
        if v is not None:
            return "-" + v
    if k == "CXXNullPtrLiteralExpr" or k == "GNUNullExpr":
        return "null"
    return None


def src(n, depth=0):
    """Compact textual rendering of an expression (for reports and canonical forms)."""
    if n is None:
        return "?"
    k = n.get("k")
    if k in TRANSPARENT:
        c = n.get("ch")
        return src(c[0], depth) if c else "?"
    if k in ("IntegerLiteral", "FloatingLiteral", "CXXBoolLiteralExpr"):
        return str(n.get("v"))
    if k == "StringLiteral":
        return '"%s"' % n.get("v", "")
    if k == "CharacterLiteral":
        try:
            return "'%s'" % chr(int(n.get("v")))
        except Exception:
            return "'?'"
    if k == "DeclRefExpr":
        return str(n.get("ref"))
    if k == "CXXThisExpr":
        return "this"
    if k == "MemberExpr":
        c = n.get("ch")
        b = src(c[0], depth) if c else "?"
        nm = str(n.get("ref", "?")).split("(")[0].split("::")[-1]
        if b == "this":
            return nm
        return "%s%s%s" % (b, "->" if n.get("arrow") else ".", nm)
    if k in ("BinaryOperator", "CompoundAssignOperator"):
        return "(%s %s %s)" % (src(n["ch"][0]), n.get("op"), src(n["ch"][1]))
    if k == "UnaryOperator":
        if n.get("postfix"):
            return "%s%s" % (src(n["ch"][0]), n.get("op"))
        return "%s%s" % (n.get("op"), src(n["ch"][0]))
    if k == "ConditionalOperator":
        return "(%s ? %s : %s)" % tuple(src(c) for c in n["ch"][:3])
    if k == "ArraySubscriptExpr":
        return "%s[%s]" % (src(n["ch"][0]), src(n["ch"][1]))
    if k == "CXXOperatorCallExpr":
        ch = n.get("ch", [])
        op = n.get("op")
        if op == "[]" and len(ch) >= 3:
            return "%s[%s]" % (src(ch[1]), src(ch[2]))
        if op == "()" :
            return "%s(%s)" % (src(ch[1]), ", ".join(src(c) for c in ch[2:]))
        if len(ch) == 3:
            return "(%s %s %s)" % (src(ch[1]), op, src(ch[2]))
        if len(ch) == 2:
            return "%s%s" % (op, src(ch[1]))
    if k == "CXXMemberCallExpr":
        ch = n.get("ch", [])
        return "%s(%s)" % (src(ch[0]) if ch else "?", ", ".join(src(c) for c in ch[1:]))
    if k == "CallExpr":
        ch = n.get("ch", [])
        return "%s(%s)" % (str(n.get("cname", src(ch[0]) if ch else "?")), ", ".join(src(c) for c in ch[1:]))
    if k in ("CXXConstructExpr", "CXXTemporaryObjectExpr"):
        ch = n.get("ch", [])
        if len(ch) == 1 and (n.get("copy") or n.get("elidable")):
            return src(ch[0])
        return "%s(%s)" % (n.get("cname", "?"), ", ".join(src(c) for c in ch))
    if k in ("CStyleCastExpr", "CXXStaticCastExpr", "CXXFunctionalCastExpr", "CXXConstCastExpr", "CXXReinterpretCastExpr", "CXXDynamicCastExpr"):
        c = n.get("ch")
        return "(%s)%s" % (n.get("t"), src(c[0]) if c else "?")
    if k == "CXXNewExpr":
        return "new %s" % n.get("at")
    if k == "CXXDeleteExpr":
        return "delete %s" % src(n["ch"][0])
    if k == "CXXDefaultArgExpr":
        return src(n.get("expr")) if n.get("expr") else "<default>"
    if k == "CXXNullPtrLiteralExpr":
        return "nullptr"
    if k == "GNUNullExpr":
        return "NULL"
    if k == "CXXThrowExpr":
        c = n.get("ch")
        return "throw %s" % (src(c[0]) if c else "")
    if k == "InitListExpr":
        return "{%s}" % ", ".join(src(c) for c in n.get("ch", []))
    if k == "LambdaExpr":
        return "<lambda>"
    c = children(n)
    return "%s(%s)" % (k, ", ".join(src(x) for x in c[:4]))


def single_assignment_locals(fn):
    """did -> initialiser node, for locals that are initialised at their declaration and never stored to again
    (nor have their address taken / bound to a non-const reference parameter -- approximated by: never the
    operand of unary & and never an lvalue argument of a call whose parameter type is a non-const reference)."""
    inits = {}
    for n in fn.nodes():
        if n.get("k") == "VarDecl" and not n.get("parm") and n.get("init") is not None:
            inits[n["did"]] = n["init"]
    dirty = set()
    for lhs, node, op in writes(fn):
        l = strip(lhs)
        if l is not None and l.get("k") == "DeclRefExpr" and l.get("did") in inits:
            dirty.add(l["did"])
    for n in fn.nodes():
        if n.get("k") == "UnaryOperator" and n.get("op") == "&":
            l = strip(n["ch"][0])
            if l is not None and l.get("k") == "DeclRefExpr" and l.get("did") in inits:
                dirty.add(l["did"])
    for n in fn.nodes():
        # receivers of non-const member calls are mutated objects, not values
        if n.get("k") == "CXXMemberCallExpr" and not str(n.get("callee", "")).endswith(" const"):
            o = call_object(n)
            o = strip(o) if o is not None else None
            if o is not None and o.get("k") == "DeclRefExpr" and o.get("did") in inits and not str(o.get("t", "")).rstrip().endswith("*"):
                dirty.add(o["did"])
    return {d: e for d, e in inits.items() if d not in dirty}


def norm(n, locals_map=None, depth=0):
    """Normal form of an expression as a string: locals inlined through their unique initialiser,
    parentheses / implicit casts / value-preserving casts dropped."""
    if n is None:
        return "?"
    n = strip_casts(n)
    k = n.get("k")
    if k == "DeclRefExpr" and locals_map and n.get("did") in locals_map and depth < 8:
        ini = strip_casts(locals_map[n["did"]])
        if not (ini is not None and ini.get("k") in ("CXXConstructExpr", "CXXTemporaryObjectExpr") and not ini.get("ch")):
            return norm(locals_map[n["did"]], locals_map, depth + 1)
    if k in ("IntegerLiteral",):
        return str(n.get("v"))
    if k == "FloatingLiteral":
        try:
            from fractions import Fraction
            f = Fraction(n.get("v"))
            return str(f.numerator) if f.denominator == 1 else str(n.get("v"))
        except Exception:
            return str(n.get("v"))
    if k in ("CXXBoolLiteralExpr",):
        return str(n.get("v"))
    if k == "DeclRefExpr":
        return str(n.get("ref"))
    if k == "CXXThisExpr":
        return "this"
    if k == "MemberExpr":
        c = n.get("ch")
        b = norm(c[0], locals_map, depth) if c else "?"
        nm = str(n.get("ref", "?")).split("(")[0].split("::")[-1]
        return nm if b == "this" else "%s.%s" % (b, nm)
    if k in ("BinaryOperator", "CompoundAssignOperator"):
        return "(%s %s %s)" % (norm(n["ch"][0], locals_map, depth), n.get("op"), norm(n["ch"][1], locals_map, depth))
    if k == "UnaryOperator":
        if n.get("op") == "*":
            return norm(n["ch"][0], locals_map, depth) + ".*"
        return "%s%s" % (n.get("op"), norm(n["ch"][0], locals_map, depth))
    if k == "ConditionalOperator":
        return "(%s ? %s : %s)" % tuple(norm(c, locals_map, depth) for c in n["ch"][:3])
    if k == "ArraySubscriptExpr":
        return "%s[%s]" % (norm(n["ch"][0], locals_map, depth), norm(n["ch"][1], locals_map, depth))
    if k == "CXXOperatorCallExpr":
        ch = n.get("ch", [])
        op = n.get("op")
        if op == "[]" and len(ch) >= 3:
            return "%s[%s]" % (norm(ch[1], locals_map, depth), norm(ch[2], locals_map, depth))
        if op == "*" and len(ch) == 2:
            return norm(ch[1], locals_map, depth) + ".*"
        if op == "->" and len(ch) == 2:
            return norm(ch[1], locals_map, depth) + ".*"
        if len(ch) == 3:
            return "(%s %s %s)" % (norm(ch[1], locals_map, depth), op, norm(ch[2], locals_map, depth))
        if len(ch) == 2:
            return "%s%s" % (op, norm(ch[1], locals_map, depth))
    if k == "CXXMemberCallExpr":
        ch = n.get("ch", [])
        return "%s(%s)" % (norm(ch[0], locals_map, depth) if ch else "?", ", ".join(norm(c, locals_map, depth) for c in ch[1:]))
    if k == "CallExpr":
        ch = n.get("ch", [])
        callee = str(n["cname"]) if "cname" in n else (norm(ch[0], locals_map, depth) if ch else "?")
        return "%s(%s)" % (callee, ", ".join(norm(c, locals_map, depth) for c in ch[1:]))
    if k in ("CXXConstructExpr", "CXXTemporaryObjectExpr"):
        ch = n.get("ch", [])
        if len(ch) == 1 and (n.get("copy") or n.get("elidable")):
            return norm(ch[0], locals_map, depth)
        return "%s(%s)" % (n.get("cname", "?"), ", ".join(norm(c, locals_map, depth) for c in ch))
    if k == "CXXDefaultArgExpr":
        return norm(n.get("expr"), locals_map, depth) if n.get("expr") else "<default>"
    if k == "CXXNewExpr":
        ch = n.get("ch", [])
        return "new " + (norm(ch[-1], locals_map, depth) if ch else str(n.get("at")))
    return src(n)
