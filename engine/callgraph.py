"""Whole-program call graph over resolved callees (virtual calls fan out to all overriders)."""
from .astq import calls, in_macro


class CallGraph:
    def __init__(self, prog, ignore_asserts=True):
        self.prog = prog
        self.edges = {}       # caller key -> set(callee keys)
        self.sites = {}       # callee key -> [(caller Function, call node)]
        self.overriders = {}  # base method key -> set(overriding method keys), transitive
        direct = {}
        for r in prog.records.values():
            for m in r.get("methods", []):
                for o in m.get("overrides", []):
                    direct.setdefault(o, set()).add(m["key"])
        for f in prog.all_functions():
            for o in f.d.get("overrides", []):
                direct.setdefault(o, set()).add(f.key)

        def closure(k, seen):
            for d in direct.get(k, ()):
                if d not in seen:
                    seen.add(d)
                    closure(d, seen)
            return seen
        for k in list(direct):
            self.overriders[k] = closure(k, set())
        for f in prog.all_functions():
            es = self.edges.setdefault(f.key, set())
            for n in calls(f):
                if ignore_asserts and n.get("mac") in ("COLA_ASSERT", "assert") and in_macro(f, n):
                    pass
                c = n["callee"]
                es.add(c)
                self.sites.setdefault(c, []).append((f, n))
                if n.get("virt"):
                    for o in self.overriders.get(c, ()):
                        es.add(o)
                        self.sites.setdefault(o, []).append((f, n))
            # lambdas: their bodies are part of f's tree, so their calls are already attributed to f

    def reachable(self, roots, stop=()):
        """Keys of functions reachable from the root keys."""
        seen = set()
        work = list(roots)
        stop = set(stop)
        while work:
            k = work.pop()
            if k in seen or k in stop:
                continue
            seen.add(k)
            for c in self.edges.get(k, ()):
                if c not in seen:
                    work.append(c)
        return seen

    def path(self, root, target_pred, stop=()):
        """A call path root -> ... -> first function satisfying target_pred (BFS), or None."""
        from collections import deque
        prev = {root: None}
        dq = deque([root])
        stop = set(stop)
        while dq:
            k = dq.popleft()
            if k != root and target_pred(k):
                out = []
                while k is not None:
                    out.append(k)
                    k = prev[k]
                return out[::-1]
            for c in sorted(self.edges.get(k, ())):
                if c not in prev and c not in stop:
                    prev[c] = k
                    dq.append(c)
        return None

    def callers(self, key):
        return self.sites.get(key, [])
