"""Path queries over clang's CFG (as serialized by adaptafacts).

Granularity is the CFG *element* (every sub-expression is an element, the CFG is
built with setAllAlwaysAdd).  The single primitive is `search`: is there a path
from a set of start positions to a target (an element or the normal exit) that
avoids a set of blocked elements?  Dominance / post-dominance style rules are
phrased with it, and a witness path is returned for the report.

Exits: a block flagged NoReturn (assert failure arms, abort) or ending in a
`throw` leaves the function abnormally; such edges never count as reaching the
normal exit.
"""
from .facts import AnalysisBroken


class CFG:
    def __init__(self, fn):
        self.fn = fn
        g = fn.cfg
        if not g:
            raise AnalysisBroken("no CFG for %s" % fn.key)
        self.entry = g["entry"]
        self.exit = g["exit"]
        self.blocks = {b["id"]: b for b in g["blocks"]}
        self.pos = {}
        for b in g["blocks"]:
            for i, e in enumerate(b["el"]):
                if isinstance(e, int) and e != -1:
                    self.pos.setdefault(e, (b["id"], i))
        self._abnormal = {}
        fn.index()

    def succs(self, bid, include_unreachable=False):
        out = []
        for s in self.blocks[bid]["succ"]:
            if s is None:
                continue
            if s < 0:
                if include_unreachable:
                    out.append(-s - 1)
                continue
            out.append(s)
        return out

    def abnormal(self, bid):
        """Block leaves the function abnormally (noreturn call or throw as last element)."""
        if bid in self._abnormal:
            return self._abnormal[bid]
        b = self.blocks[bid]
        r = bool(b.get("noret"))
        if not r:
            for e in reversed(b["el"]):
                if isinstance(e, int):
                    n = self.fn.node(e)
                    if n is not None and n.get("k") == "CXXThrowExpr":
                        r = True
                    break
        self._abnormal[bid] = r
        return r

    def position(self, node):
        nid = node["id"] if isinstance(node, dict) else node
        p = self.pos.get(nid)
        if p is None:
            raise AnalysisBroken("node %s of %s is not a CFG element" % (nid, self.fn.key))
        return p

    def search(self, starts, blocked=(), targets=None, to_exit=False, normal_only=True):
        """Find a path from any start position.

        starts  : list of (block, index) positions ("before element index"), or "entry"
        blocked : node ids that may not be passed
        targets : node ids to reach; or to_exit=True for the (normal) exit
        Returns a list of block ids (witness) or None.
        """
        blocked = set(blocked)
        targets = set(targets or ())
        if starts == "entry":
            starts = [(self.entry, 0)]
        seen_full = set()
        work = []
        for (b, i) in starts:
            work.append((b, i, (b,)))
        while work:
            b, i, path = work.pop()
            blk = self.blocks[b]
            els = blk["el"]
            stopped = False
            for j in range(i, len(els)):
                e = els[j]
                if isinstance(e, int):
                    if e in targets:
                        return list(path)
                    if e in blocked:
                        stopped = True
                        break
            if stopped:
                continue
            if blk.get("term") is not None and blk.get("term") in blocked:
                continue        # blocked terminator statement (continue / break / goto are terminators, not elements)
            if b == self.exit:
                if to_exit:
                    return list(path)
                continue
            if self.abnormal(b) and normal_only:
                continue
            for s in self.succs(b):
                if s == self.exit:
                    if to_exit:
                        return list(path) + [s]
                    continue
                if s in seen_full:
                    continue
                seen_full.add(s)
                work.append((s, 0, path + (s,)))
        return None

    def after(self, node):
        b, i = self.position(node)
        return (b, i + 1)

    # ---- rule-level helpers ------------------------------------------
    def must_precede(self, a_ids, b_id):
        """Every entry->b path passes an element of a_ids.  Returns witness path or None (None = holds)."""
        return self.search("entry", blocked=a_ids, targets=[b_id])

    def must_follow(self, a_id, b_ids, stop_ids=()):
        """Every path from just after a to the normal exit passes an element of b_ids.
        Returns a counter-example path (list of blocks) or None."""
        return self.search([self.after(a_id)], blocked=set(b_ids) | set(stop_ids), to_exit=True)

    def exit_reachable_avoiding(self, ids):
        return self.search("entry", blocked=ids, to_exit=True)

    def reachable(self, node):
        """Element reachable from entry at all."""
        nid = node["id"] if isinstance(node, dict) else node
        return self.search("entry", targets=[nid]) is not None

    def loop_header(self, loop):
        """(header block id, body successor block id) of a for/while statement node."""
        for bid, blk in self.blocks.items():
            if blk.get("term") == loop["id"] and len(self.succs(bid, True)) == 2:
                s0 = blk["succ"][0]
                return bid, (s0 if s0 is not None and s0 >= 0 else None)
        return None, None

    def iteration_can_skip(self, loop, ids):
        """Witness path through one iteration of `loop` (body entry -> next evaluation of the condition, or leaving
        the function) that passes none of the elements `ids`; None if every iteration passes one of them.
        (Leaving the loop with `break` is reported too.)"""
        from .astq import strip
        hdr, body = self.loop_header(loop)
        if hdr is None or body is None:
            raise AnalysisBroken("cannot locate the header of the loop at line %s in %s" % (loop.get("l"), self.fn.key))
        cond = strip(loop["cond"]) if loop.get("cond") is not None else None
        targets = [cond["id"]] if cond is not None and cond.get("id") in self.pos else []
        # the first element of the header block also marks "next iteration"
        for e in self.blocks[hdr]["el"]:
            if isinstance(e, int) and e != -1:
                targets.append(e)
                break
        w = self.search([(body, 0)], blocked=ids, targets=targets)
        if w is None:
            w = self.search([(body, 0)], blocked=list(ids) + targets, to_exit=True)
        return w

    def describe(self, path):
        """Render a block path as source lines."""
        out = []
        for b in path:
            blk = self.blocks[b]
            ln = None
            for e in blk["el"]:
                if isinstance(e, int):
                    n = self.fn.node(e)
                    if n is not None and "l" in n:
                        ln = n["l"]
                        break
            if b == self.exit:
                out.append("exit")
            elif ln is not None:
                if not out or out[-1] != "L%d" % ln:
                    out.append("L%d" % ln)
        return "->".join(out)
