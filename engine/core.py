"""Rule runner: instances, deviations, known findings, evidence, exit codes."""
import hashlib
import json
import os
import re
import sys
import time

from . import facts
from .facts import AnalysisBroken, VERIF, REPO

KNOWN = os.path.join(VERIF, "known_findings.txt")


def load_known():
    """finding: property=Cnn rule=<id> instance=<construct> — <what fails>"""
    out = []
    if not os.path.exists(KNOWN):
        return out
    for line in open(KNOWN):
        line = line.strip()
        if not line.startswith("finding:"):
            continue
        m = re.match(r"finding:\s+property=(\S+)\s+rule=(\S+)\s+instance=(.+?)\s+(?:—|--)\s+(.*)$", line)
        if m:
            out.append({"property": m.group(1), "rule": m.group(2), "instance": m.group(3).strip(),
                        "what": m.group(4)})
    return out


class Rule:
    def __init__(self, check, rid, text, floor=0):
        self.check = check
        self.id = rid
        self.text = text
        self.floor = floor
        self.instances = []     # (name, ok, where, detail)
        self.evaluations = 0    # finer-grained count (rows, paths, call sites)
        self.nontrivial = set()

    def ok(self, name, where="", detail="", nontrivial=True):
        self.instances.append((name, True, where, detail))
        if nontrivial:
            self.nontrivial.add(name)

    def bad(self, name, where, detail):
        self.instances.append((name, False, where, detail))
        self.nontrivial.add(name)

    def count(self, n=1):
        self.evaluations += n


class Check:
    def __init__(self, prop, tier):
        self.prop = prop
        self.tier = tier
        self.rules = []
        self.t0 = time.time()
        self.assumptions = [
            "clang 14 front end resolves names, overloads and types as the g++ build does (flags: %s)" % " ".join(facts.FLAGS[:4]),
            "CFGs are clang's, without exception edges: exceptional exits are outside every pairing/dominance rule",
            "frozen instance tables under /verif/tables were confirmed by reading the pinned sources",
            "tests/ directories are not subjects of any rule",
        ]
        self.samples = []
        self.extra = {}
        self.program = None
        self.broken_rules = []

    def load(self, units=None):
        self.program = facts.load_program(units)
        return self.program

    def rule(self, rid, text, floor=0):
        r = Rule(self, rid, text, floor)
        self.rules.append(r)
        return r

    def sample(self, s):
        if len(self.samples) < 12:
            self.samples.append(s)

    def guard(self, fn, *args, **kw):
        """Run one rule function; an analysis failure inside it (anchor vanished, construct outside the interpreter subset) is recorded
        and the remaining rules still run.  The check then exits 1 if some other rule found a violation, otherwise 2 (analysis broken)."""
        from .microai.interp import Unsupported, PathLimit, Thrown, AssertFail
        try:
            return fn(*args, **kw)
        except (AnalysisBroken, Unsupported, PathLimit, Thrown, AssertFail) as e:
            self.broken_rules.append("%s: %s" % (getattr(fn, "__name__", "rule"), e))
            return None
        except (ArithmeticError, RecursionError, LookupError, TypeError, AttributeError, ValueError) as e:
            # the rule's own code met something it was not written for (typically a changed subject): analysis broken, not a verdict
            import traceback
            tb = traceback.extract_tb(e.__traceback__)[-1]
            self.broken_rules.append("%s: %s: %s (%s:%s)" % (getattr(fn, "__name__", "rule"), type(e).__name__, e, tb.filename.split("/")[-1], tb.lineno))
            return None

    # ------------------------------------------------------------------
    def finish(self):
        known = [k for k in load_known() if k["property"] == self.prop]
        used_known = []
        violations = []
        broken = list(self.broken_rules)
        total = 0
        okc = 0
        evals = 0
        nontriv = 0
        print("== %s (%s tier) ==" % (self.prop, self.tier))
        for r in self.rules:
            n = len(r.instances)
            nok = sum(1 for i in r.instances if i[1])
            total += n
            okc += nok
            evals += max(r.evaluations, n)
            nontriv += len(r.nontrivial)
            print("rule %-28s instances=%d ok=%d evaluations=%d floor=%d" % (r.id, n, nok, max(r.evaluations, n), r.floor))
            print("     %s" % r.text)
            if n < r.floor:
                broken.append("rule %s examined %d instances, below the hand-confirmed floor %d" % (r.id, n, r.floor))
            for name, ok, where, detail in r.instances:
                if ok:
                    continue
                kf = None
                for k in known:
                    if k["rule"] == r.id and k["instance"] == name:
                        kf = k
                        break
                if kf:
                    used_known.append(kf)
                    print("KNOWN-FINDING: property=%s %s [rule %s instance %s at %s]" % (self.prop, kf["what"], r.id, name, where))
                else:
                    violations.append({"rule": r.id, "rule_text": r.text, "instance": name, "where": where, "detail": detail})
                    print("%s: rule %s instance %s: %s" % (where, r.id, name, detail))
        if broken:
            for b in broken:
                print("ANALYSIS-BROKEN: %s" % b)
            if not violations:
                self._evidence(total, okc, evals, nontriv, len(violations), broken)
                return 2
        rc = 0
        if violations:
            os.makedirs(os.path.join(VERIF, "reports"), exist_ok=True)      # (git-ignored scratch output)
            h = hashlib.sha256(json.dumps(violations, sort_keys=True).encode()).hexdigest()[:10]
            rp = os.path.join(VERIF, "reports", "%s-%s.json" % (self.prop, h))
            with open(rp, "w") as fh:
                json.dump({"property": self.prop, "tier": self.tier, "violations": violations}, fh, indent=1)
            print("VIOLATION property=%s replay=%s" % (self.prop, rp))
            rc = 1
        self._evidence(total, okc, evals, nontriv, len(violations), broken, used_known)
        print("%s: %d rule instances, %d confirmed, %d violations, %d known findings, %.1fs" % (
            self.prop, total, okc, len(violations), len(used_known), time.time() - self.t0))
        return rc

    def _evidence(self, total, okc, evals, nontriv, nviol, broken, used_known=()):
        p = self.program
        cov = {
            "explanation": "Static rules over the type-resolved clang AST / CFG / call graph of /repo's current working tree. "
                           + " | ".join("%s: %s" % (r.id, r.text) for r in self.rules),
            "obligations": total,
            "discharged": okc,
            "evaluations": max(evals, 1),
            "distinct_nontrivial": nontriv,
            "rule": "one obligation per rule instance (function, call site, field, constructor, table row set); "
                    "an instance is non-trivial when its verdict required a non-empty extracted fact",
            "samples": self.samples or [{"rule": r.id, "instance": r.instances[0][0], "where": r.instances[0][2]}
                                        for r in self.rules if r.instances][:8],
            "rules": [{"id": r.id, "instances": len(r.instances), "ok": sum(1 for i in r.instances if i[1]),
                       "evaluations": max(r.evaluations, len(r.instances)), "floor": r.floor} for r in self.rules],
            "units_analysed": len(p.units) if p else 0,
            "functions_analysed": len(p.by_key) if p else 0,
            "known_findings_matched": [k["instance"] for k in used_known],
            "analysis_broken": broken,
            "exhaustive": False,
        }
        cov.update(self.extra)
        ev = {
            "property_id": self.prop,
            "tier": self.tier,
            "seed": int(os.environ.get("VERIF_SEED", "0") or 0),
            "level": "other",
            "coverage": cov,
            "assumptions": self.assumptions,
            "wall_s": round(time.time() - self.t0, 2),
            "violations": nviol,
        }
        evdir = os.environ.get("VERIF_EVIDENCE_DIR") or os.path.join(VERIF, "evidence")     # (the self-test redirects mutant runs)
        os.makedirs(evdir, exist_ok=True)
        with open(os.path.join(evdir, "%s.json" % self.prop), "w") as fh:
            json.dump(ev, fh, indent=1)


def rel(path):
    return os.path.relpath(path, REPO)
