"""Compilation model, extraction driver and program loader.

Everything is re-derived from /repo's current working tree on every run.  A
content-hash cache (SHA-256 over every *.cpp/*.h under cola/lib* plus the
extractor binary) only avoids re-parsing an *unchanged* tree between the checks
of one harness pass; any changed byte invalidates it.
"""
import hashlib
import json
import os
import re
import subprocess
import sys
import time
from concurrent.futures import ThreadPoolExecutor

VERIF = os.path.dirname(os.path.dirname(os.path.abspath(__file__)))
REPO = os.environ.get("VERIF_REPO", "/repo")
COLA = os.path.join(REPO, "cola")
LIBS = ["libvpsc", "libavoid", "libcola", "libtopology", "libdialect"]
EXTRACTOR = os.path.join(VERIF, "tools", "adaptafacts", "adaptafacts")
CACHE = os.path.join(VERIF, ".cache")
RESOURCE_DIR = "/usr/lib/llvm-14/lib/clang/14.0.6"
FLAGS = ["-std=gnu++11", "-I" + COLA, "-DHAVE_CONFIG_H", "-UNDEBUG", "-w",
         "-resource-dir", RESOURCE_DIR]


class AnalysisBroken(Exception):
    """Anchor vanished, tool failed, instance floor undershot: exit 2."""


def makefile_sources(lib):
    """*.cpp members of <lib>_la_SOURCES in <lib>/Makefile.am."""
    path = os.path.join(COLA, lib, "Makefile.am")
    try:
        text = open(path).read()
    except OSError as e:
        raise AnalysisBroken("cannot read %s: %s" % (path, e))
    text = text.replace("\\\n", " ")
    m = re.search(r"^%s_la_SOURCES\s*=\s*(.*)$" % lib, text, re.M)
    if not m:
        raise AnalysisBroken("no %s_la_SOURCES in %s" % (lib, path))
    out = []
    for tok in m.group(1).split():
        if tok.endswith(".cpp"):
            out.append(os.path.join(COLA, lib, tok))
    return out


def all_units():
    units = []
    for lib in LIBS:
        units += makefile_sources(lib)
    return units


def disk_units():
    out = []
    for lib in LIBS:
        d = os.path.join(COLA, lib)
        for f in sorted(os.listdir(d)):
            if f.endswith(".cpp"):
                out.append(os.path.join(d, f))
    return out


def _sha_file(path):
    with open(path, "rb") as fh:
        return hashlib.sha256(fh.read()).digest()


def headers_hash():
    """Hash of every header (and Makefile.am) under cola/lib*, the extractor binary and the flags."""
    h = hashlib.sha256()
    for lib in LIBS:
        d = os.path.join(COLA, lib)
        for root, dirs, files in os.walk(d):
            dirs[:] = sorted(x for x in dirs if x not in (".libs", ".deps", "doc", "tests"))
            for f in sorted(files):
                if f.endswith((".h", ".am")):
                    pth = os.path.join(root, f)
                    h.update(pth.encode())
                    h.update(_sha_file(pth))
    try:
        st = os.stat(EXTRACTOR)
        h.update(("%d:%d" % (st.st_size, int(st.st_mtime))).encode())
    except OSError:
        raise AnalysisBroken("extractor not built: run MANIFEST.setup_cmd (%s missing)" % EXTRACTOR)
    h.update(" ".join(FLAGS).encode())
    return h.hexdigest()


def _extract_one(args):
    unit, out = args
    if os.path.exists(out):
        try:
            os.utime(out, None)
        except OSError:
            pass
        return unit, 0, ""
    cmd = [EXTRACTOR, "--root=" + COLA, "--out=" + out, unit, "--"] + FLAGS
    p = subprocess.run(cmd, stdout=subprocess.PIPE, stderr=subprocess.PIPE, text=True)
    if p.returncode != 0 or not os.path.exists(out):
        return unit, p.returncode or 2, p.stderr[-2000:]
    return unit, 0, ""


def _prune_cache(limit_bytes=2048 * 1024 * 1024):
    try:
        ents = []
        for f in os.listdir(CACHE):
            pth = os.path.join(CACHE, f)
            if os.path.isfile(pth):
                st = os.stat(pth)
                ents.append((st.st_mtime, st.st_size, pth))
            elif os.path.isdir(pth):
                subprocess.run(["rm", "-rf", pth])
        total = sum(e[1] for e in ents)
        for mt, sz, pth in sorted(ents):
            if total <= limit_bytes:
                break
            try:
                os.remove(pth)
            except OSError:
                pass
            total -= sz
    except OSError:
        pass


def extract(units=None, extra_units=()):
    """Run the extractor over the units (default: all library units); returns {unit: json path}.
    Cache key per unit: SHA-256(unit bytes, all headers, extractor, flags) -- a changed source byte
    re-extracts that unit, a changed header re-extracts everything."""
    if units is None:
        units = all_units()
    units = list(units) + list(extra_units)
    hh = headers_hash()
    os.makedirs(CACHE, exist_ok=True)
    jobs = []
    paths = {}
    for u in units:
        try:
            uh = hashlib.sha256(hh.encode() + u.encode() + _sha_file(u)).hexdigest()[:32]
        except OSError as e:
            raise AnalysisBroken("cannot read unit %s: %s" % (u, e))
        out = os.path.join(CACHE, "u-%s.json" % uh)
        paths[u] = out
        jobs.append((u, out))
    with ThreadPoolExecutor(max_workers=16) as ex:
        for unit, rc, err in ex.map(_extract_one, jobs):
            if rc != 0:
                raise AnalysisBroken("extractor failed on %s (rc=%s):\n%s" % (unit, rc, err))
    return paths


_STR_KEYS = ("t", "ref", "callee", "cname", "mac", "key", "q", "file", "cls", "at", "dt",
             "ct", "tw", "mq", "base", "opkey", "ret")
_CHILD_ROLES = ("init", "var", "cond", "then", "else", "inc", "body", "lhs", "rhs", "sub",
                "range", "try", "expr")


def children(n):
    """Ordered child nodes of a syntax-tree node (all roles)."""
    out = []
    for r in _CHILD_ROLES:
        c = n.get(r)
        if isinstance(c, dict):
            out.append(c)
    for r in ("ch", "decls", "handlers", "params"):
        c = n.get(r)
        if c:
            out.extend(x for x in c if isinstance(x, dict))
    return out


def walk(n):
    """Pre-order walk of a syntax tree."""
    stack = [n]
    while stack:
        x = stack.pop()
        if x is None:
            continue
        yield x
        cs = children(x)
        cs.reverse()
        stack.extend(cs)


def _resolve(n, S):
    stack = [n]
    while stack:
        x = stack.pop()
        if isinstance(x, dict):
            for k in _STR_KEYS:
                v = x.get(k)
                if isinstance(v, int) and not isinstance(v, bool):
                    x[k] = S[v]
            b = x.get("bases")
            if isinstance(b, list) and b and all(isinstance(i_, int) and not isinstance(i_, bool) for i_ in b):
                x["bases"] = [S[i_] for i_ in b]          # base-class names of a record
            for k, v in x.items():
                if isinstance(v, (dict, list)):
                    stack.append(v)
        elif isinstance(x, list):
            stack.extend(v for v in x if isinstance(v, (dict, list)))


class Function:
    __slots__ = ("d", "unit", "_byid", "_parent")

    def __init__(self, d, unit):
        self.d = d
        self.unit = unit
        self._byid = None
        self._parent = None

    key = property(lambda s: s.d["key"])
    q = property(lambda s: s.d["q"])
    name = property(lambda s: s.d["name"])
    file = property(lambda s: s.d["file"])
    line = property(lambda s: s.d["l"])
    cls = property(lambda s: s.d.get("cls"))
    kind = property(lambda s: s.d.get("kind"))
    body = property(lambda s: s.d.get("body"))
    cfg = property(lambda s: s.d.get("cfg"))
    params = property(lambda s: s.d.get("params", []))
    tmpl = property(lambda s: s.d.get("tmpl"))

    def where(self):
        return "%s:%d" % (os.path.relpath(self.file, REPO), self.line)

    def nodes(self):
        """All nodes: ctor initialiser expressions, default args, then the body."""
        for p in self.params:
            if p.get("defarg"):
                yield from walk(p["defarg"])
        for i in self.d.get("inits", []):
            if i.get("expr"):
                yield from walk(i["expr"])
        if self.body:
            yield from walk(self.body)

    def index(self):
        if self._byid is None:
            byid = {}
            parent = {}
            roots = []
            for i in self.d.get("inits", []):
                if i.get("expr"):
                    roots.append(i["expr"])
            if self.body:
                roots.append(self.body)
            for r in roots:
                stack = [(r, None)]
                while stack:
                    x, p = stack.pop()
                    if "id" in x:
                        byid[x["id"]] = x
                        parent[x["id"]] = p
                        me = x
                    elif x.get("k") == "VarDecl":
                        byid[-x["did"] - 1000000] = x
                        parent[-x["did"] - 1000000] = p
                        me = x
                    else:
                        me = p
                    for c in children(x):
                        stack.append((c, me))
            self._byid = byid
            self._parent = parent
        return self._byid

    def node(self, nid):
        return self.index().get(nid)

    def parent(self, n):
        self.index()
        nid = n["id"] if "id" in n else -n["did"] - 1000000
        return self._parent.get(nid)

    def ancestors(self, n):
        p = self.parent(n)
        while p is not None:
            yield p
            p = self.parent(p)

    def loc(self, n):
        return "%s:%s" % (os.path.relpath(self.file, REPO), n.get("l", self.line))


def _norm_param_consts(k):
    i, j = k.find("("), k.rfind(")")
    if i < 0 or j < i:
        return k
    args, out, depth, cur = k[i + 1:j], [], 0, ""
    for ch in args:
        if ch in "<(":
            depth += 1
        elif ch in ">)":
            depth -= 1
        if ch == "," and depth == 0:
            out.append(cur)
            cur = ""
        else:
            cur += ch
    if cur:
        out.append(cur)
    res = []
    for a in out:
        a = a.strip()
        if a.startswith("const ") and not a.endswith("&") and not a.endswith("*"):
            a = a[6:]
        a = re.sub(r"\s*\*const$", " *", a)
        res.append(a)
    return k[:i] + "(" + ",".join(res) + k[j:]


class Program:
    """The merged, type-resolved program: functions, records, enums, globals."""

    def __init__(self, paths):
        t0 = time.time()
        self.units = sorted(paths)
        self.functions = {}       # key -> Function (first definition wins; header dups dropped)
        self.by_q = {}            # qualified name (with template args) -> [Function]
        self.records = {}
        self.enums = {}
        self.vars = {}
        self.nodes_total = 0
        for u in self.units:
            with open(paths[u]) as fh:
                d = json.load(fh)
            S = d["strings"]
            keep = []
            for f in d["functions"]:
                k = (S[f["key"]], S[f["file"]], f["l"])
                if k not in self.functions:
                    keep.append(f)
            d["functions"] = keep
            d["records"] = [r for r in d["records"] if S[r["q"]] not in self.records
                            or any(c.get("used") for c in r["ctors"]) or any(m.get("used") for m in r["methods"])]
            _resolve(d["functions"], S)
            _resolve(d["records"], S)
            _resolve(d["enums"], S)
            _resolve(d["vars"], S)
            for f in d["functions"]:
                k = (f["key"], f["file"], f["l"])
                if k in self.functions:
                    continue
                fn = Function(f, u)
                self.functions[k] = fn
                self.by_q.setdefault(f["q"], []).append(fn)
            for r in d["records"]:
                old = self.records.get(r["q"])
                if old is None:
                    self.records[r["q"]] = r
                else:
                    # union the "used" flags of implicit members across units
                    for c_old, c_new in zip(old["ctors"], r["ctors"]):
                        if c_new.get("used"):
                            c_old["used"] = 1
                    for m_old, m_new in zip(old["methods"], r["methods"]):
                        if m_new.get("used"):
                            m_old["used"] = 1
            for e in d["enums"]:
                self.enums.setdefault(e["q"], e)
            for v in d["vars"]:
                self.vars.setdefault(v["q"], v)
        self.by_key = {}
        for (k, _f, _l), fn in self.functions.items():
            self.by_key.setdefault(k, fn)
        # A declaration and its definition may differ in top-level const of by-value parameters (`unsigned int` vs `const unsigned int`,
        # `T *` vs `T *const`); clang prints the callee of a call site from the declaration it resolved.  Point such callee keys at the definition.
        norm_def = {}
        for k in self.by_key:
            norm_def.setdefault(_norm_param_consts(k), k)
        self.callee_aliases = 0
        for fn in self.functions.values():
            for n in fn.nodes():
                c = n.get("callee")
                if c is not None and c not in self.by_key:
                    d_ = norm_def.get(_norm_param_consts(c))
                    if d_ is not None:
                        n["callee"] = d_
                        self.callee_aliases += 1
        self.load_s = time.time() - t0

    # ---- lookup helpers -------------------------------------------------
    def fn(self, q, sig=None, required=True):
        """Unique function by qualified name (optionally substring of its key to pick an overload)."""
        c = self.by_q.get(q, [])
        if sig is not None:
            c = [f for f in c if sig in f.key]
        # drop duplicate definitions (same key, e.g. pattern + instantiation)
        seen = {}
        for f in c:
            seen.setdefault(f.key, f)
        c = list(seen.values())
        if len(c) == 1:
            return c[0]
        if not c:
            if required:
                raise AnalysisBroken("anchor function %s%s not found in the analysed program"
                                     % (q, " [%s]" % sig if sig else ""))
            return None
        raise AnalysisBroken("anchor function %s%s is ambiguous: %s"
                             % (q, " [%s]" % sig if sig else "", [f.key for f in c]))

    def fns(self, q):
        seen = {}
        for f in self.by_q.get(q, []):
            seen.setdefault(f.key, f)
        return list(seen.values())

    def all_functions(self):
        return list(self.by_key.values())

    def record(self, q, required=True):
        r = self.records.get(q)
        if r is None and required:
            raise AnalysisBroken("anchor record %s not found" % q)
        return r

    def methods_of(self, cls):
        return [f for f in self.all_functions() if f.cls == cls]


_PROGRAM = None


INSTANTIATION_DRIVERS = [os.path.join(VERIF, "tools", "instantiate", "shortest_paths_inst.cpp")]


def load_program(units=None):
    """Whole-program load; the merged program is pickled beside the per-unit facts (same tree hash).
    Besides the library units, the analysis drivers under tools/instantiate are parsed: they only instantiate
    templates of /repo's headers that the library itself leaves uninstantiated."""
    import pickle
    paths = extract(units, extra_units=INSTANTIATION_DRIVERS)
    tag = hashlib.sha256(("v4\n" + "\n".join(sorted(paths.values()))).encode()).hexdigest()[:32]
    pk = os.path.join(CACHE, "program-%s.pkl" % tag)
    if os.path.exists(pk):
        try:
            with open(pk, "rb") as fh:
                prog = pickle.load(fh)
            os.utime(pk, None)
            return prog
        except Exception:
            pass
    p = Program(paths)
    tmp = pk + ".%d.tmp" % os.getpid()
    with open(tmp, "wb") as fh:
        pickle.dump(p, fh, protocol=pickle.HIGHEST_PROTOCOL)
    os.replace(tmp, pk)
    _prune_cache()
    return p


if __name__ == "__main__":
    t = time.time()
    us = all_units()
    disk = disk_units()
    print("units in build:", len(us), "on disk:", len(disk))
    for u in sorted(set(disk) - set(us)):
        print("  on disk but not built:", u)
    p = load_program()
    print("extract+load %.1fs; functions %d records %d enums %d vars %d" % (
        time.time() - t, len(p.by_key), len(p.records), len(p.enums), len(p.vars)))
