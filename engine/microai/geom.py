"""Decision-tree extraction for geometry predicates and comparison with exact reference definitions.

The repository function is interpreted *symbolically* (engine/microai/interp.py): each path of its decision
tree is a valuation of sign atoms (signs of integer polynomials in the input coordinates) with an outcome.
The reference definition of the predicate is written here, independently, in exact integer arithmetic.
The two are compared on every point tuple of an integer grid: the grid decides which atom valuations are
realisable and evaluates the *reference*; the repository code is never evaluated on concrete coordinates.
"""
import copy
import itertools
from fractions import Fraction

import numpy as np

from .interp import (Interp, Obj, Vec, Box, enumerate_paths, AssertFail, Thrown, Unsupported, GridOracle)
from .poly import Poly

DONT_CARE = -99


def sym_point(name):
    return Obj("Avoid::Point", {"x": Poly.var(name + ".x"), "y": Poly.var(name + ".y"), "id": 0, "vn": 8})


def grid_env(varnames, side, lo=0):
    axes = [np.arange(lo, lo + side, dtype=np.int64)] * len(varnames)
    mesh = np.meshgrid(*axes, indexing="ij", sparse=False)
    return {v: m.reshape(-1) for v, m in zip(varnames, mesh)}


def orient(env, a, b, c):
    """Sign convention of Avoid::vecDir's documentation: sign of (b-a) x (c-a)."""
    return np.sign((env[b + ".x"] - env[a + ".x"]) * (env[c + ".y"] - env[a + ".y"])
                   - (env[c + ".x"] - env[a + ".x"]) * (env[b + ".y"] - env[a + ".y"]))


def same_pt(env, a, b):
    return (env[a + ".x"] == env[b + ".x"]) & (env[a + ".y"] == env[b + ".y"])


def on_open_segment(env, a, b, c):
    """c lies on segment ab, strictly between its endpoints (exact)."""
    col = orient(env, a, b, c) == 0
    dot1 = (env[c + ".x"] - env[a + ".x"]) * (env[b + ".x"] - env[a + ".x"]) + (env[c + ".y"] - env[a + ".y"]) * (env[b + ".y"] - env[a + ".y"])
    len2 = (env[b + ".x"] - env[a + ".x"]) ** 2 + (env[b + ".y"] - env[a + ".y"]) ** 2
    return col & (dot1 > 0) & (dot1 < len2)


def on_closed_segment(env, a, b, c):
    col = orient(env, a, b, c) == 0
    dot1 = (env[c + ".x"] - env[a + ".x"]) * (env[b + ".x"] - env[a + ".x"]) + (env[c + ".y"] - env[a + ".y"]) * (env[b + ".y"] - env[a + ".y"])
    len2 = (env[b + ".x"] - env[a + ".x"]) ** 2 + (env[b + ".y"] - env[a + ".y"]) ** 2
    return col & (dot1 >= 0) & (dot1 <= len2) & ((len2 > 0) | same_pt(env, a, c))


def proper_crossing(env, a, b, c, d):
    """Open segments ab and cd meet in exactly one point interior to both: solved parametrically
    a + t(b-a) = c + u(d-c), 0 < t,u < 1, with exact integer cross products (independent of vecDir)."""
    rx = env[b + ".x"] - env[a + ".x"]
    ry = env[b + ".y"] - env[a + ".y"]
    sx = env[d + ".x"] - env[c + ".x"]
    sy = env[d + ".y"] - env[c + ".y"]
    qpx = env[c + ".x"] - env[a + ".x"]
    qpy = env[c + ".y"] - env[a + ".y"]
    den = rx * sy - ry * sx
    tn = qpx * sy - qpy * sx
    un = qpx * ry - qpy * rx
    sd = np.sign(den)
    # 0 < tn/den < 1  <=>  tn*sd > 0 and tn*sd < den*sd
    t_ok = (tn * sd > 0) & (tn * sd < den * sd)
    u_ok = (un * sd > 0) & (un * sd < den * sd)
    return (den != 0) & t_ok & u_ok


class TreeResult:
    def __init__(self):
        self.rows = 0
        self.realisable = 0
        self.grid = 0
        self.covered = 0
        self.mismatches = []
        self.assert_rows = 0
        self.samples = []


def interpret_tree(prog, fn, args, lattice=True, hooks=None, post=None, this=None, grid=None):
    """Decision tree of fn on symbolic args: list of (valuation, descr, outcome).
    grid=(varnames, side): prune branches whose sign class has no point on the integer grid."""
    factory = None
    if grid is not None:
        env = grid_env(grid[0], grid[1])
        cache = {}
        factory = lambda prefix: GridOracle(prefix, env, cache)

    def run(o):
        it = Interp(prog, o, lattice=lattice, hooks=hooks)
        a = [copy.deepcopy(x) for x in args]
        try:
            rv = it.call(fn, copy.deepcopy(this) if this is not None else None, None, None, arg_values=a)
            if post is not None:
                rv = post(rv, a)
            return ("ret", rv)
        except AssertFail as e:
            return ("assert", str(e))
        except Thrown as e:
            return ("throw", str(e))
    return enumerate_paths(run, oracle_factory=factory)


def compare_tree(rows, varnames, side, spec, outcome_map=None, lo=0):
    """rows: decision tree; spec(env) -> integer array of expected outcomes (DONT_CARE where the
    precondition fails).  Every grid tuple must be covered by exactly one row whose outcome equals spec."""
    env = grid_env(varnames, side, lo)
    n = len(next(iter(env.values())))
    expected = spec(env)
    res = TreeResult()
    res.rows = len(rows)
    res.grid = n
    atom_cache = {}
    polys = {}
    covered = np.zeros(n, dtype=np.int32)
    for val, descr, out in rows:
        mask = np.ones(n, dtype=bool)
        for key, v in val.items():
            if key[0] != "sign":
                raise Unsupported("non-sign atom in a geometry decision tree: %r" % (key,))
            if key not in atom_cache:
                p = Poly({m: Fraction(c[0], c[1]) for m, c in key[1]})
                atom_cache[key] = np.sign(p.eval_np(env))
            mask &= (atom_cache[key] == v)
            if not mask.any():
                break
        cnt = int(mask.sum())
        if cnt == 0:
            continue
        res.realisable += 1
        covered += mask
        kind, value = out
        if kind == "ret":
            ov = outcome_map(value) if outcome_map else int(value)
            bad = mask & (expected != DONT_CARE) & (expected != ov)
            if bad.any():
                i = int(np.argmax(bad))
                res.mismatches.append({"outcome": "returns %r" % (value,), "expected": int(expected[i]),
                                       "witness": {v: int(env[v][i]) for v in varnames},
                                       "atoms": {descr[k]: val[k] for k in val}, "tuples": int(bad.sum())})
        else:
            res.assert_rows += 1
            bad = mask & (expected != DONT_CARE)
            if bad.any():
                i = int(np.argmax(bad))
                res.mismatches.append({"outcome": "%s %s" % (kind, value), "expected": int(expected[i]),
                                       "witness": {v: int(env[v][i]) for v in varnames},
                                       "atoms": {descr[k]: val[k] for k in val}, "tuples": int(bad.sum())})
        if len(res.samples) < 2:
            i = int(np.argmax(mask))
            res.samples.append({"atoms": {descr[k]: val[k] for k in val}, "outcome": "%s %r" % out,
                                "witness": {v: int(env[v][i]) for v in varnames}, "tuples_in_class": cnt})
    res.covered = int((covered == 1).sum())
    if res.covered != n:
        i = int(np.argmax(covered != 1))
        res.mismatches.append({"outcome": "decision tree does not partition the grid (%d classes contain the tuple)" % int(covered[i]),
                               "expected": 1, "witness": {v: int(env[v][i]) for v in varnames}, "atoms": {}, "tuples": int((covered != 1).sum())})
    return res
