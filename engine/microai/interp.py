"""microai -- a path-enumerating abstract interpreter for small C++ functions over the serialized clang AST.

It never executes repository code.  It evaluates the syntax tree with
  * concrete finite values (bool, integers, enums),
  * exact symbolic doubles: polynomials / rational functions over named input symbols,
and, whenever a branch depends on a symbolic comparison, asks a *sign atom* oracle for the sign of the
canonical polynomial.  A driver enumerates all oracle answers depth-first, so the result of interpreting a
function is its complete decision tree: a list of (atom valuation, outcome) rows.

Anything outside the supported subset raises Unsupported -- the calling check turns that into exit 2, never a
silent pass.
"""
import copy
import weakref
from fractions import Fraction
from math import ceil, floor

from ..astq import TRANSPARENT
from .poly import Poly, Rat, to_poly, num_den, make_rat, r_add, r_sub, r_mul, r_div, r_neg


class Unsupported(Exception):
    pass


class AssertFail(Exception):
    def __init__(self, where):
        Exception.__init__(self, where)
        self.where = where


class Thrown(Exception):
    def __init__(self, what):
        Exception.__init__(self, what)
        self.what = what


class PathLimit(Exception):
    pass


class _Return(Exception):
    def __init__(self, v):
        self.v = v


class _Break(Exception):
    pass


class _Continue(Exception):
    pass


class Uninit:
    def __repr__(self):
        return "<uninit>"


UNINIT = Uninit()


class Opaque:
    """A value the interpreter does not model (strings, streams); any use in a decision is Unsupported."""
    def __init__(self, what):
        self.what = what

    def __repr__(self):
        return "<opaque %s>" % self.what


class Obj:
    def __init__(self, cls, f=None):
        self.cls = cls
        self.f = f if f is not None else {}

    def __repr__(self):
        return "%s%r" % (self.cls.split("::")[-1], self.f)


class Vec:
    def __init__(self, items=None, elem=None):
        self.items = items if items is not None else []
        self.elem = elem

    def __deepcopy__(self, memo):
        v = Vec(None, self.elem)
        memo[id(self)] = v
        v.items = copy.deepcopy(self.items, memo)
        for k_, x in self.__dict__.items():
            if k_ not in ("items", "elem", "_track"):
                v.__dict__[k_] = copy.deepcopy(x, memo)
        return v

    def __repr__(self):
        return "Vec%r" % (self.items,)


class Box:
    __slots__ = ("v",)

    def __init__(self, v=UNINIT):
        self.v = v

    def get(self):
        return self.v

    def set(self, v):
        self.v = v


class FieldRef:
    __slots__ = ("o", "n")

    def __init__(self, o, n):
        self.o = o
        self.n = n

    def get(self):
        if self.n not in self.o.f:
            raise Unsupported("read of unknown field %s of %s" % (self.n, self.o.cls))
        return self.o.f[self.n]

    def set(self, v):
        self.o.f[self.n] = v


class ElemRef:
    __slots__ = ("v", "i")

    def __init__(self, v, i):
        self.v = v
        self.i = i

    def get(self):
        if not (0 <= self.i < len(self.v.items)):
            raise AssertFail("index %d out of range (size %d)" % (self.i, len(self.v.items)))
        return self.v.items[self.i]

    def set(self, x):
        if not (0 <= self.i < len(self.v.items)):
            raise AssertFail("index %d out of range (size %d)" % (self.i, len(self.v.items)))
        self.v.items[self.i] = x


class MapRef:
    __slots__ = ("m", "k")

    def __init__(self, m, k):
        self.m = m
        self.k = k

    def get(self):
        return self.m.d[self.k]

    def set(self, v):
        self.m.d[self.k] = v
        self.m.touch()


class Iter:
    """std::vector / std::list iterator: (sequence, index).  Every iterator registers itself (weakly) with its sequence, so that erasing
    a node of a std::list can keep the OTHER iterators on their elements, as the node-based container does."""
    def __init__(self, v, i):
        self.v = v
        self.i = i
        if isinstance(v, Vec):
            t = v.__dict__.get("_track")
            if t is None:
                t = v.__dict__["_track"] = weakref.WeakSet()
            t.add(self)

    def __deepcopy__(self, memo):
        return Iter(copy.deepcopy(self.v, memo), self.i)

    def __repr__(self):
        return "Iter(%d/%d)" % (self.i, len(self.v.items))


class SetVal:
    """std::set with concrete elements."""
    def __init__(self, items=None):
        self.items = set(items or ())

    def __repr__(self):
        return "Set%r" % (sorted(self.items, key=repr),)


class MapVal:
    """std::map with concrete keys (iteration in key order over a snapshot that is shared by begin()/end())."""
    def __init__(self, d=None, vtype=None):
        self.d = d if d is not None else {}
        self.vtype = vtype
        self._snap = None

    def snapshot(self):
        if self._snap is None or len(self._snap.items) != len(self.d):
            self._snap = Vec([Obj("std::pair", {"first": k, "second": self.d[k]}) for k in sorted(self.d)])
        return self._snap

    def touch(self):
        self._snap = None

    def __repr__(self):
        return "Map%r" % (self.d,)


class Closure:
    def __init__(self, node, env, this):
        self.node = node
        self.env = env
        self.this = this


class Placeholder:
    def __init__(self, i):
        self.i = i


class BoundFn:
    """std::bind(target, bound...): target is ("fn", key) or another callable value; bound values may be Placeholders."""
    def __init__(self, target, bound):
        self.target = target
        self.bound = bound


class StreamVal:
    """ostream/ostringstream modelled as a list of appended tokens."""
    def __init__(self):
        self.tokens = []


# --------------------------------------------------------------------------- oracle
class Oracle:
    def __init__(self, prefix):
        self.prefix = prefix
        self.trail = []      # [key, index, options]
        self.memo = {}

    def choose(self, key, options, descr=None):
        if key in self.memo:
            return self.memo[key]
        i = len(self.trail)
        if i < len(self.prefix):
            pk, pi, po = self.prefix[i]
            if pk != key:
                raise Unsupported("non-deterministic atom order: expected %r got %r" % (pk, key))
            idx = pi
        else:
            idx = 0
        self.trail.append([key, idx, tuple(options), descr])
        self.memo[key] = options[idx]
        return options[idx]


def enumerate_paths(run, limit=200000, oracle_factory=None):
    """run(oracle) -> outcome.  Returns list of (valuation dict key->value, descr dict, outcome)."""
    rows = []
    prefix = []
    mk = oracle_factory or Oracle
    while True:
        o = mk(prefix)
        out = run(o)
        rows.append(({t[0]: t[2][t[1]] for t in o.trail}, {t[0]: t[3] for t in o.trail}, out))
        if len(rows) > limit:
            raise PathLimit("more than %d paths" % limit)
        t = [list(x) for x in o.trail]
        while t and t[-1][1] == len(t[-1][2]) - 1:
            t.pop()
        if not t:
            break
        t[-1][1] += 1
        prefix = [(x[0], x[1], x[2]) for x in t]
    return rows


class GridOracle(Oracle):
    """Oracle that offers, for a sign atom, only the signs realisable on an integer grid together with the
    answers already given on this path (prunes infeasible branches of the decision tree)."""

    def __init__(self, prefix, env, cache):
        Oracle.__init__(self, prefix)
        self.env = env
        self.cache = cache
        self.mask = None

    def choose(self, key, options, descr=None):
        if key in self.memo:
            return self.memo[key]
        if key[0] != "sign":
            return Oracle.choose(self, key, options, descr)
        import numpy as np
        from fractions import Fraction as _F
        arr = self.cache.get(key)
        if arr is None:
            from .poly import Poly as _P
            pl = _P({m: _F(c[0], c[1]) for m, c in key[1]})
            arr = np.sign(pl.eval_np(self.env)).astype(np.int8)
            if np.isscalar(arr) or arr.ndim == 0:
                arr = np.full(len(next(iter(self.env.values()))), int(arr), dtype=np.int8)
            self.cache[key] = arr
        i = len(self.trail)
        if i < len(self.prefix):
            pk, pi, po = self.prefix[i]
            if pk != key:
                raise Unsupported("non-deterministic atom order: expected %r got %r" % (pk, key))
            idx, opts = pi, po
        else:
            if self.mask is None:
                opts = tuple(v for v in options if (arr == v).any())
            else:
                opts = tuple(v for v in options if (self.mask & (arr == v)).any())
            if not opts:
                raise Unsupported("empty realisable option set (interpreter bug)")
            idx = 0
        v = opts[idx]
        self.mask = (arr == v) if self.mask is None else (self.mask & (arr == v))
        self.trail.append([key, idx, opts, descr])
        self.memo[key] = v
        return v


# ----------------------------------------------------------------------- interpreter
def is_num(v):
    return isinstance(v, (int, Fraction, Poly, Rat)) and not isinstance(v, bool) or isinstance(v, bool)


def is_sym(v):
    return isinstance(v, (Poly, Rat))


def _frac(s):
    """Exact value of the IEEE double a literal denotes (the extractor prints the shortest round-tripping decimal)."""
    try:
        return Fraction(float(s))
    except (ValueError, OverflowError):
        return Fraction(s)


class Interp:
    def __init__(self, prog, oracle, lattice=False, hooks=None, max_steps=2000000, globals=None):
        _COPY_PROG[0] = prog
        self.prog = prog
        self.oracle = oracle
        self.lattice = lattice          # symbolic inputs are integer-valued (C16): tolerances fold into sign atoms
        self.hooks = hooks or {}        # callee qualified name -> python callable(interp, this, args, node)
        self.steps = 0
        self.max_steps = max_steps
        self.events = []
        self.depth = 0
        self.cur_line = 0
        self.prefix_hooks = [(k[:-1], v) for k, v in self.hooks.items() if k.endswith("*")]
        self.elem_home = {}     # id(record object) -> the Vec it was addressed in (&vec[i]); used for pointer differences
        self.vhooks = {}        # callee qualified name -> python callable(interp, receiver, [argument values]); also reached
                                # through std::bind / std::function / for_each, where no call node exists
        self.bounded = set()    # symbols assumed far smaller in magnitude than DBL_MAX
        self.positive = set()   # symbols assumed strictly positive (weights, scales)
        self.subs = []          # linear equalities learnt on this path: (variable, replacement polynomial)
        self.globals = globals or {}    # qualified name -> Box: symbolic / overridden globals and static members

    # ---- signs / comparisons --------------------------------------------
    def sign_poly(self, p):
        p = to_poly(p)
        for var, repl in self.subs:
            if var in p.vars():
                p = p.subst(var, repl)
        if p.is_const():
            c = p.const_value()
            return (c > 0) - (c < 0)
        if self.lattice:
            c = p.const_value()
            rest = p - c
            if all(co.denominator == 1 for co in rest.t.values()):
                if c.denominator != 1:
                    # rest is integer-valued on the lattice: sign(rest + c), c not an integer, is never 0.
                    #   rest + c > 0  <=>  rest + floor(c) >= 0  <=>  rest + ceil(c) > 0
                    fl, ce = floor(c), ceil(c)
                    if ce == 0:
                        return 1 if self._atom(rest) > 0 else -1
                    s = self._atom(rest + fl)
                    return 1 if s >= 0 else -1
        return self._atom(p)

    def _atom(self, p):
        s, canon = p.canonical()
        if self.bounded and p.vars() <= self.bounded:
            c0 = p.const_value()
            if abs(c0) > 10 ** 200 and all(abs(c) < 10 ** 50 for m, c in p.t.items() if m):
                return 1 if c0 > 0 else -1      # a bounded quantity against the DBL_MAX sentinel
        if self.positive and canon.vars() <= self.positive:
            cs = list(canon.t.values())
            if all(c > 0 for c in cs):
                return s
            if all(c < 0 for c in cs):
                return -s
        v = self.oracle.choose(("sign", canon.key()), (-1, 0, 1), repr(canon))
        if v == 0 and canon.degree() == 1:
            # the path now knows a linear equality: eliminate one variable from later queries so that dependent
            # comparisons (|dx|+|dy| > 0 after dx == 0 and dy == 0) are decided consistently
            lin = sorted((m[0][0], c) for m, c in canon.t.items() if m)
            c0 = canon.t.get((), 0)
            var, coef = lin[-1]
            rest = Poly({m: -c / coef for m, c in canon.t.items() if m != ((var, 1),)})
            self.subs.append((var, rest))
        return s * v

    def sign(self, x):
        if isinstance(x, Rat):
            sd = self.sign_poly(x.d)
            if sd == 0:
                raise Thrown("division by zero")
            return self.sign_poly(x.n) * sd
        if isinstance(x, bool):
            return int(x)
        if isinstance(x, (int, Fraction)):
            return (x > 0) - (x < 0)
        return self.sign_poly(x)

    def compare(self, a, op, b):
        a = self.num(a)
        b = self.num(b)
        if not is_sym(a) and not is_sym(b):
            s = (a > b) - (a < b)
        else:
            dn, dd = num_den(r_sub(a, b))
            if not dn.t:
                s = 0       # identical values (denominators are non-zero whenever the values exist)
            else:
                s = self.sign(r_sub(a, b))
        return {"<": s < 0, ">": s > 0, "<=": s <= 0, ">=": s >= 0, "==": s == 0, "!=": s != 0}[op]

    def num(self, v):
        if isinstance(v, bool):
            return int(v)
        if isinstance(v, (int, Fraction, Poly, Rat)):
            return v
        if v is UNINIT:
            raise AssertFail("read of an uninitialised value")
        raise Unsupported("numeric use of %r" % (v,))

    def truth(self, v):
        if isinstance(v, bool):
            return v
        if isinstance(v, (int, Fraction)):
            return v != 0
        if is_sym(v):
            return self.sign(v) != 0
        if v is None:
            return False
        if isinstance(v, (Obj, Box, FieldRef, ElemRef, Closure, Vec)):
            return True
        if v is UNINIT:
            raise AssertFail("branch on an uninitialised value")
        raise Unsupported("truth value of %r" % (v,))

    # ---- records ----------------------------------------------------------
    def all_fields(self, cls):
        r = self.prog.records.get(cls)
        if r is None:
            raise Unsupported("record %s unknown" % cls)
        out = []
        for b in r.get("bases", []):
            if b in self.prog.records:
                out += self.all_fields(b)
        out += r["fields"]
        return out

    def new_obj(self, cls):
        o = Obj(cls)
        for f in self.all_fields(cls):
            t = f["t"]
            if f["sk"] == "record":
                o.f[f["name"]] = self.default_value(t)
            elif f["sk"] == "array":
                import re as _re
                m_ = _re.match(r"^(.*)\[(\d+)\]$", t)
                if m_:
                    o.f[f["name"]] = Vec([self.default_value(m_.group(1).strip()) for _ in range(int(m_.group(2)))], m_.group(1).strip())
                else:
                    o.f[f["name"]] = UNINIT
            else:
                o.f[f["name"]] = UNINIT
        return o

    def default_value(self, t):
        t = t.replace("const ", "").strip()
        if t.startswith("std::vector<") or t.startswith("std::list<"):
            return Vec([], elem=_first_targ(t))
        if t.startswith("std::map<"):
            targs = t[t.find("<") + 1:]
            return MapVal(vtype=_second_targ(t))
        if t.startswith("std::set<"):
            return SetVal()
        if t.startswith("std::basic_ostringstream") or t.startswith("std::basic_ostream") or t.startswith("std::basic_stringstream"):
            return StreamVal()
        if t.startswith("std::"):
            return Opaque(t)
        if t in self.prog.records:
            return self.construct(t, [], None)
        return UNINIT

    def construct(self, cls, arg_nodes, env, ctor_key=None, node=None):
        ch_ = getattr(self, "ctor_hooks", None)
        if ch_ and cls in ch_ and not (node is not None and node.get("copy")):
            o = self.new_obj(cls)
            ch_[cls](self, o, arg_nodes, env)
            return o
        ctor = self.prog.by_key.get(ctor_key) if ctor_key else None
        if ctor is None and ctor_key is None:
            # default construction
            cache = self.prog.__dict__.setdefault("_default_ctor_cache", {})
            if cls not in cache:
                cands = [f for f in self.prog.all_functions() if f.cls == cls and f.kind == "ctor" and not f.params]
                cache[cls] = cands[0] if cands else None
            ctor = cache[cls]
        if ctor is None or ctor.body is None:
            if node is not None and node.get("copy") and arg_nodes:
                return typed_copy(self.ev(arg_nodes[0], env), cls)
            o = self.new_obj(cls)
            return o
        o = self.new_obj(cls)
        self.call(ctor, o, arg_nodes, env)
        return o

    # ---- calls ------------------------------------------------------------
    def call(self, fn, this, arg_nodes, env, arg_values=None):
        """Interpret fn.  arg_nodes are evaluated in env (or arg_values given directly as Refs/values)."""
        self.depth += 1
        if self.depth > 60:
            raise Unsupported("recursion too deep at %s" % fn.key)
        new = {}
        params = fn.params
        for i, p in enumerate(params):
            pt = p["t"]
            is_ref = pt.endswith("&")
            if arg_values is not None:
                if i < len(arg_values):
                    av = arg_values[i]
                    if is_ref:
                        new[p["did"]] = av if hasattr(av, "get") else Box(av)
                    elif pt.endswith("*"):
                        new[p["did"]] = Box(av)     # pointer argument: the referenced cell itself is the value
                    else:
                        new[p["did"]] = Box(av.get() if hasattr(av, "get") else av)
                    continue
                an = None
            else:
                an = arg_nodes[i] if i < len(arg_nodes) else None
            if an is None or an.get("k") == "CXXDefaultArgExpr":
                d = p.get("defarg") or (an or {}).get("expr")
                if d is None:
                    raise Unsupported("missing argument %d for %s" % (i, fn.key))
                new[p["did"]] = Box(self.ev(d, {}))
                continue
            if is_ref:
                new[p["did"]] = self.bind_ref(an, env)
            else:
                v = self.ev(an, env)
                if not _is_copy_construct(an):
                    v = vcopy(v, pt)
                new[p["did"]] = Box(v)
        new["this"] = this
        new["__retref"] = str(fn.d.get("ret", "")).rstrip().endswith("&")
        try:
            for ini in fn.d.get("inits", []):
                self.do_init(ini, this, new)
            self.ex(fn.body, new)
            rv = None
        except _Return as r:
            rv = r.v
        except Unsupported as e:
            if "[in " not in str(e):
                raise Unsupported("%s [in %s, statement near line %s]" % (e, fn.q, self.cur_line))
            raise
        except AssertFail as e:
            if "[in " not in str(e):
                raise AssertFail("%s [in %s, statement near line %s]" % (e, fn.q, self.cur_line))
            raise
        finally:
            self.depth -= 1
        return rv

    def do_init(self, ini, this, env):
        e = ini.get("expr")
        if ini.get("member"):
            if e is None:
                return
            ek = _strip(e)
            fld = None
            for f in self.all_fields(this.cls):
                if f["name"] == ini["member"]:
                    fld = f
            if ek.get("k") in ("CXXConstructExpr", "CXXTemporaryObjectExpr") and fld is not None and fld["t"].startswith("std::vector<"):
                this.f[ini["member"]] = self.ev(e, env)
            else:
                v = self.ev(e, env)
                if not _is_copy_construct(e):
                    v = vcopy(v, fld["t"] if fld is not None else "")
                this.f[ini["member"]] = v
        elif ini.get("base"):
            ek = _strip(e)
            if ek is not None and ek.get("k") in ("CXXConstructExpr",) and ek.get("callee"):
                ctor = self.prog.by_key.get(ek["callee"])
                if ctor is not None and ctor.body is not None:
                    self.call(ctor, this, ek.get("ch", []), env)
        elif ini.get("delegating"):
            ek = _strip(e)
            ctor = self.prog.by_key.get(ek.get("callee"))
            if ctor is None:
                raise Unsupported("delegating ctor target unknown")
            self.call(ctor, this, ek.get("ch", []), env)

    def bind_ref(self, an, env):
        n = _strip(an)
        if n.get("lv"):
            return self.lv(n, env)
        v = self.ev(an, env)
        return Box(v)

    # ---- statements -------------------------------------------------------
    def ex(self, n, env):
        if n is None:
            return
        self.cur_line = n.get("l", self.cur_line)
        self.steps += 1
        if self.steps > self.max_steps:
            raise Unsupported("step limit exceeded")
        k = n["k"]
        if k == "CompoundStmt":
            for c in n.get("ch", []):
                self.ex(c, env)
        elif k == "DeclStmt":
            for d in n.get("decls", []):
                self.decl(d, env)
        elif k == "IfStmt":
            if n.get("init"):
                self.ex(n["init"], env)
            if n.get("var"):
                self.decl(n["var"], env)
            if self.truth(self.ev(n["cond"], env)):
                self.ex(n.get("then"), env)
            else:
                self.ex(n.get("else"), env)
        elif k == "ReturnStmt":
            ch = n.get("ch")
            v = None
            if ch and env.get("__retref") and _strip(ch[0]).get("lv"):
                raise _Return(self.lv(ch[0], env))
            if ch:
                v = self.ev(ch[0], env)
                if not _is_copy_construct(ch[0]):
                    v = vcopy(v, _strip(ch[0]).get("t", "") if not _strip(ch[0]).get("lv") or True else "")
            raise _Return(v)
        elif k == "ForStmt":
            if n.get("init"):
                self.ex(n["init"], env)
            while True:
                if n.get("cond") is not None and not self.truth(self.ev(n["cond"], env)):
                    break
                try:
                    self.ex(n.get("body"), env)
                except _Break:
                    break
                except _Continue:
                    pass
                if n.get("inc") is not None:
                    self.ev(n["inc"], env)
        elif k == "WhileStmt":
            while self.truth(self.ev(n["cond"], env)):
                try:
                    self.ex(n.get("body"), env)
                except _Break:
                    break
                except _Continue:
                    pass
        elif k == "DoStmt":
            while True:
                try:
                    self.ex(n.get("body"), env)
                except _Break:
                    break
                except _Continue:
                    pass
                if not self.truth(self.ev(n["cond"], env)):
                    break
        elif k == "CXXForRangeStmt":
            rng = self.ev(n["range"], env)
            if isinstance(rng, MapVal):
                rng = rng.snapshot()        # pairs (first, second); `second` objects are shared with the map
            elif isinstance(rng, SetVal):
                rng = Vec(sorted(rng.items, key=lambda x: (str(type(x)), x if not isinstance(x, Obj) else id(x))))
            if not isinstance(rng, Vec):
                raise Unsupported("range-for over %r" % (rng,))
            var = n["var"]
            byref = var["t"].endswith("&")
            for i in range(len(rng.items)):
                env[var["did"]] = ElemRef(rng, i) if byref else Box(vcopy(rng.items[i], var["t"]))
                try:
                    self.ex(n.get("body"), env)
                except _Break:
                    break
                except _Continue:
                    pass
        elif k == "SwitchStmt":
            self.switch(n, env)
        elif k == "BreakStmt":
            raise _Break()
        elif k == "ContinueStmt":
            raise _Continue()
        elif k == "NullStmt":
            pass
        elif k in ("CaseStmt", "DefaultStmt"):
            self.ex(n.get("sub"), env)
        elif k == "CXXTryStmt":
            try:
                self.ex(n.get("try"), env)
            except Thrown:
                hs = n.get("handlers") or []
                if not hs:
                    raise
                self.ex(hs[0].get("body"), env)
        else:
            self.ev(n, env)

    def switch(self, n, env):
        v = self.ev(n["cond"], env)
        if isinstance(v, bool):
            v = int(v)
        if not isinstance(v, int):
            raise Unsupported("switch on non-concrete value %r" % (v,))
        body = n["body"]
        stmts = body.get("ch", []) if body["k"] == "CompoundStmt" else [body]
        # flatten nested case labels: a CaseStmt's sub may itself be a CaseStmt
        start = None
        default = None
        for i, s in enumerate(stmts):
            c = s
            while c is not None and c["k"] in ("CaseStmt", "DefaultStmt"):
                if c["k"] == "CaseStmt":
                    if "val" not in c:
                        raise Unsupported("case label not a constant")
                    if int(c["val"]) == v and start is None:
                        start = i
                else:
                    default = i
                c = c.get("sub")
        if start is None:
            start = default
        if start is None:
            return
        try:
            for s in stmts[start:]:
                c = s
                while c is not None and c["k"] in ("CaseStmt", "DefaultStmt"):
                    c = c.get("sub")
                self.ex(c, env)
        except _Break:
            pass

    def decl(self, d, env):
        t = d["t"]
        if d.get("static") and d.get("init") is not None:
            env[d["did"]] = Box(self.ev(d["init"], env))
            return
        if d.get("init") is not None:
            if t.endswith("&"):
                env[d["did"]] = self.bind_ref(d["init"], env)
                return
            v = self.ev(d["init"], env)
            if not _is_copy_construct(d["init"]):
                v = vcopy(v, t)
            env[d["did"]] = Box(v)
        else:
            env[d["did"]] = Box(self.default_value(t))

    # ---- lvalues ------------------------------------------------------------
    def lv(self, n, env):
        k = n["k"]
        if k in TRANSPARENT or (k == "ImplicitCastExpr"):
            return self.lv(n["ch"][0], env)
        if k == "DeclRefExpr":
            if n.get("rk") in ("Var", "ParmVar"):
                b = env.get(n["did"])
                if b is None:
                    return self.global_ref(n)
                return b
            raise Unsupported("lvalue DeclRefExpr kind %s" % n.get("rk"))
        if k == "MemberExpr":
            base = n["ch"][0]
            if n.get("arrow"):
                o = self.ev(base, env)
            else:
                o = self.lv(base, env).get() if _strip(base).get("lv") else self.ev(base, env)
            if o is None:
                raise AssertFail("null pointer dereference (line %s)" % n.get("l"))
            if not isinstance(o, Obj):
                raise Unsupported("member access on %r" % (o,))
            return FieldRef(o, n["ref"].split("::")[-1])
        if k == "ArraySubscriptExpr":
            b = self.ev(n["ch"][0], env)
            i = self.ev(n["ch"][1], env)
            if isinstance(b, Vec) and isinstance(i, int):
                return ElemRef(b, i)
            raise Unsupported("array subscript on %r" % (b,))
        if k == "CXXOperatorCallExpr" and n.get("op") == "[]":
            callee = self.prog.by_key.get(n.get("callee"))
            b = self.lv(n["ch"][1], env).get() if _strip(n["ch"][1]).get("lv") else self.ev(n["ch"][1], env)
            i = self.ev(n["ch"][2], env)
            if isinstance(b, MapVal):
                if isinstance(i, bool):
                    i = int(i)
                if i not in b.d:
                    b.d[i] = self.default_value(b.vtype) if b.vtype else UNINIT
                    b.touch()
                return MapRef(b, i)
            if isinstance(b, Vec):
                if not isinstance(i, int):
                    raise Unsupported("symbolic index")
                return ElemRef(b, i)
            if callee is not None and callee.body is not None and isinstance(b, Obj):
                r = self.call(callee, b, n["ch"][2:], env)
                return r if hasattr(r, "get") else Box(r)
            raise Unsupported("operator[] on %r" % (b,))
        if k == "UnaryOperator" and n.get("op") == "*":
            p = self.ev(n["ch"][0], env)
            if hasattr(p, "get"):
                return p
            if isinstance(p, Obj):
                return Box(p)
            if isinstance(p, Iter) and isinstance(p.v, Vec):
                return ElemRef(p.v, p.i)           # *p for a pointer into an array (bounds are checked on access)
            if isinstance(p, Vec):
                return ElemRef(p, 0)
            raise Unsupported("deref of %r" % (p,))
        if k in ("BinaryOperator", "CompoundAssignOperator") and n.get("op", "").endswith("="):
            self.ev(n, env)
            return self.lv(n["ch"][0], env)
        if k == "UnaryOperator" and n.get("op") in ("++", "--") and not n.get("postfix"):
            self.ev(n, env)
            return self.lv(n["ch"][0], env)
        if k == "CXXThisExpr":
            return Box(env["this"])
        if k in ("CallExpr", "CXXMemberCallExpr", "CXXOperatorCallExpr"):
            r = self.ev_call(n, env, want_ref=True)
            return r if hasattr(r, "get") else Box(r)
        if k == "ConditionalOperator":
            if self.truth(self.ev(n["ch"][0], env)):
                return self.lv(n["ch"][1], env)
            return self.lv(n["ch"][2], env)
        if k in ("CXXStaticCastExpr", "CStyleCastExpr", "CXXConstCastExpr", "CXXFunctionalCastExpr"):
            return self.lv(n["ch"][0], env)
        return Box(self.ev(n, env))

    def global_ref(self, n):
        q = n["ref"]
        if q in self.globals:
            return self.globals[q]
        v = self.prog.vars.get(q)
        if v is None:
            raise Unsupported("unknown variable %s" % q)
        if "val" in v:
            s = v["val"]
            if v["t"] in ("double", "const double", "float", "const float"):
                return Box(_frac(s))
            try:
                return Box(int(s))
            except ValueError:
                return Box(_frac(s))
        if v.get("init") is not None:
            return Box(self.ev(v["init"], {}))
        raise Unsupported("global %s has no constant value" % q)

    # ---- expressions --------------------------------------------------------
    def ev(self, n, env):
        self.steps += 1
        if self.steps > self.max_steps:
            raise Unsupported("step limit exceeded")
        k = n["k"]
        m = getattr(self, "e_" + k, None)
        if m is None:
            raise Unsupported("expression kind %s at line %s" % (k, n.get("l")))
        return m(n, env)

    def e_ParenExpr(self, n, env):
        return self.ev(n["ch"][0], env)

    e_ExprWithCleanups = e_ParenExpr
    e_MaterializeTemporaryExpr = e_ParenExpr
    e_CXXBindTemporaryExpr = e_ParenExpr
    e_ConstantExpr = e_ParenExpr
    e_SubstNonTypeTemplateParmExpr = e_ParenExpr

    def e_ImplicitCastExpr(self, n, env):
        ck = n.get("ck")
        c = n["ch"][0]
        if ck == "LValueToRValue":
            v = self.lv(c, env).get()
            return v
        if ck in ("NoOp", "DerivedToBase", "UncheckedDerivedToBase", "ConstructorConversion", "UserDefinedConversion",
                  "FunctionToPointerDecay", "ArrayToPointerDecay", "BaseToDerived", "BuiltinFnToFnPtr"):
            if _strip(c).get("lv") and ck in ("NoOp", "DerivedToBase", "UncheckedDerivedToBase") and n.get("lv"):
                return self.lv(c, env).get()
            return self.ev(c, env)
        v = self.ev(c, env)
        return self.cast(ck, v, n.get("t", ""))

    def cast(self, ck, v, t):
        if ck in ("IntegralCast",):
            if isinstance(v, bool):
                v = int(v)
            if isinstance(v, int):
                return _wrap_int(v, t)
            return v
        if ck in ("IntegralToFloating",):
            if isinstance(v, bool):
                v = int(v)
            if isinstance(v, int):
                return Fraction(v)
            return v
        if ck == "FloatingCast":
            return v
        if ck == "FloatingToIntegral":
            if isinstance(v, Fraction):
                return int(v)  # truncation toward zero
            raise Unsupported("float->int cast of symbolic value")
        if ck in ("IntegralToBoolean", "FloatingToBoolean", "PointerToBoolean"):
            return self.truth(v)
        if ck == "NullToPointer":
            return None
        if ck == "ToVoid":
            return None
        if ck in ("BitCast", "Dependent"):
            return v
        if ck == "Dynamic":
            # dynamic_cast<T *>(p): the object itself when its class is T or derives from it, a null pointer otherwise
            if v is None:
                return None
            if isinstance(v, Obj):
                want = t.replace("const ", "").replace("*", "").replace("&", "").strip()
                seen, stack = set(), [v.cls]
                while stack:
                    c_ = stack.pop()
                    if c_ == want:
                        return v
                    if c_ in seen:
                        continue
                    seen.add(c_)
                    rec = self.prog.records.get(c_)
                    if rec:
                        stack.extend(str(b) for b in rec.get("bases", []))
                return None
        raise Unsupported("cast kind %s" % ck)

    def e_CStyleCastExpr(self, n, env):
        ck = n.get("ck")
        if ck in ("NoOp", "DerivedToBase", "BaseToDerived", "ConstructorConversion", "LValueToRValue"):
            return self.ev(n["ch"][0], env)
        return self.cast(ck, self.ev(n["ch"][0], env), n.get("t", ""))

    e_CXXStaticCastExpr = e_CStyleCastExpr
    e_CXXFunctionalCastExpr = e_CStyleCastExpr
    e_CXXConstCastExpr = e_CStyleCastExpr
    e_CXXDynamicCastExpr = e_CStyleCastExpr
    e_CXXReinterpretCastExpr = e_CStyleCastExpr

    def e_IntegerLiteral(self, n, env):
        return int(n["v"])

    def e_FloatingLiteral(self, n, env):
        return _frac(n["v"])

    def e_CXXBoolLiteralExpr(self, n, env):
        return n["v"] == "true"

    def e_CharacterLiteral(self, n, env):
        return int(n["v"])

    def e_StringLiteral(self, n, env):
        return n.get("v", "")

    def e_CXXNullPtrLiteralExpr(self, n, env):
        return None

    def e_GNUNullExpr(self, n, env):
        return None

    def e_CXXThisExpr(self, n, env):
        return env["this"]

    def e_DeclRefExpr(self, n, env):
        rk = n.get("rk")
        if rk == "EnumConstant":
            return int(n["ev"])
        if rk in ("Var", "ParmVar"):
            return self.lv(n, env).get()
        if rk in ("Function", "CXXMethod"):
            return ("fn", n["ref"])
        raise Unsupported("DeclRefExpr kind %s" % rk)

    def e_MemberExpr(self, n, env):
        if n.get("rk") == "Field":
            return self.lv(n, env).get()
        if n.get("rk") == "Var":
            return self.global_ref(n).get()
        if n.get("rk") == "EnumConstant":
            return int(n["ev"])
        raise Unsupported("MemberExpr kind %s" % n.get("rk"))

    def e_ArraySubscriptExpr(self, n, env):
        return self.lv(n, env).get()

    def e_UnaryOperator(self, n, env):
        op = n["op"]
        c = n["ch"][0]
        if op in ("++", "--"):
            r = self.lv(c, env)
            cur = r.get()
            if isinstance(cur, (Vec, Iter)):
                # pointer into an array: p++ / ++p / p-- / --p
                base_, off_ = (cur, 0) if isinstance(cur, Vec) else (cur.v, cur.i)
                new_ = Iter(base_, off_ + (1 if op == "++" else -1))
                r.set(new_)
                return (Iter(base_, off_) if n.get("postfix") else new_)
            old = self.num(cur)
            new = r_add(old, 1) if op == "++" else r_sub(old, 1)
            if isinstance(old, int):
                new = _wrap_int(old + (1 if op == "++" else -1), c.get("t", ""))
            r.set(new)
            return old if n.get("postfix") else new
        if op == "&":
            if _strip(c).get("k") == "DeclRefExpr" and _strip(c).get("rk") in ("Function", "CXXMethod"):
                return ("fn", _strip(c)["ref"])
            r = self.lv(c, env)
            v = r.get() if not isinstance(r, Box) or isinstance(r.v, Obj) else None
            if isinstance(v, Obj):
                if isinstance(r, ElemRef) and isinstance(getattr(r, "v", None), Vec):
                    self.elem_home[id(v)] = r.v       # &vec[i]: remember the array, for pointer differences
                return v
            return r
        if op == "*":
            return self.lv(n, env).get()
        v = self.ev(c, env)
        if op == "-":
            v = self.num(v)
            if is_sym(v):
                return r_neg(v)
            return _wrap_int(-v, n.get("t", "")) if isinstance(v, int) else -v
        if op == "+":
            return self.num(v)
        if op == "!":
            return not self.truth(v)
        if op == "~":
            v = self.num(v)
            if isinstance(v, int):
                return _wrap_int(~v, n.get("t", ""))
            raise Unsupported("~ on non-integer")
        raise Unsupported("unary %s" % op)

    def arith(self, op, a, b, t):
        a = self.num(a)
        b = self.num(b)
        floating = t in ("double", "float", "long double")
        if op in ("+", "-", "*"):
            if is_sym(a) or is_sym(b):
                return {"+": r_add, "-": r_sub, "*": r_mul}[op](a, b)
            r = {"+": a + b, "-": a - b, "*": a * b}[op]
            if not floating and isinstance(r, int):
                return _wrap_int(r, t)
            return r
        if op == "/":
            if floating or isinstance(a, Fraction) or isinstance(b, Fraction) or is_sym(a) or is_sym(b):
                if not is_sym(b) and b == 0:
                    raise Thrown("floating division by constant zero")
                if is_sym(a) or is_sym(b):
                    return r_div(a, b)
                return Fraction(a) / Fraction(b)
            if b == 0:
                raise AssertFail("integer division by zero")
            q = abs(a) // abs(b)
            return q if (a >= 0) == (b >= 0) else -q
        if op == "%":
            if isinstance(a, int) and isinstance(b, int):
                if b == 0:
                    raise AssertFail("integer modulo by zero")
                r = abs(a) % abs(b)
                return r if a >= 0 else -r
            raise Unsupported("%% on non-integers")
        if op in ("&", "|", "^", "<<", ">>"):
            if isinstance(a, int) and isinstance(b, int):
                r = {"&": a & b, "|": a | b, "^": a ^ b, "<<": a << b, ">>": a >> b}[op]
                return _wrap_int(r, t)
            raise Unsupported("bit operation on non-integers")
        raise Unsupported("binary %s" % op)

    def e_BinaryOperator(self, n, env):
        op = n["op"]
        l, r = n["ch"]
        if op == "&&":
            return self.truth(self.ev(l, env)) and self.truth(self.ev(r, env))
        if op == "||":
            return self.truth(self.ev(l, env)) or self.truth(self.ev(r, env))
        if op == ",":
            self.ev(l, env)
            return self.ev(r, env)
        if op == "=":
            v = vcopy(self.ev(r, env), _strip(l).get("t", ""))
            ref = self.lv(l, env)
            ref.set(v)
            return v
        if op in ("<", ">", "<=", ">=", "==", "!="):
            a = self.ev(l, env)
            b = self.ev(r, env)
            ptrish = (Obj, Box, FieldRef, ElemRef, Vec, MapVal, SetVal)
            if (a is None or isinstance(a, ptrish)) and (b is None or isinstance(b, ptrish)):
                if op == "==":
                    return a is b
                if op == "!=":
                    return a is not b
                raise Unsupported("relational comparison of pointers")
            if isinstance(a, bool) and isinstance(b, bool):
                a, b = int(a), int(b)
            return self.compare(a, op, b)
        a_, b_ = self.ev(l, env), self.ev(r, env)
        if op in ("+", "-") and isinstance(b_, int) and not isinstance(b_, bool) and isinstance(a_, (Vec, Iter)):
            # pointer arithmetic on an array modelled as Vec: p + k is an iterator into the same array
            base_, off_ = (a_, 0) if isinstance(a_, Vec) else (a_.v, a_.i)
            return Iter(base_, off_ + (b_ if op == "+" else -b_))
        if op == "-" and isinstance(a_, Obj) and isinstance(b_, Obj):
            # difference of two pointers to elements of one array of records
            home = self.elem_home.get(id(b_)) or self.elem_home.get(id(a_))
            if home is not None:
                ia = [k for k, x in enumerate(home.items) if x is a_]
                ib = [k for k, x in enumerate(home.items) if x is b_]
                if ia and ib:
                    return ia[0] - ib[0]
            raise Unsupported("difference of pointers that are not known to point into one array")
        return self.arith(op, a_, b_, n.get("t", ""))

    def e_CompoundAssignOperator(self, n, env):
        op = n["op"][:-1]
        l, r = n["ch"]
        ref = self.lv(l, env)
        rv = self.ev(r, env)
        old = ref.get()
        if op in ("|", "&", "^") and isinstance(old, bool):
            new = bool(self.arith(op, int(old), int(self.truth(rv)) if isinstance(rv, bool) else rv, "int"))
        else:
            new = self.arith(op, old, rv, _strip(l).get("t", ""))
        ref.set(new)
        return new

    def e_ConditionalOperator(self, n, env):
        c, a, b = n["ch"][:3]
        if self.truth(self.ev(c, env)):
            return self.ev(a, env)
        return self.ev(b, env)

    def e_CXXConstructExpr(self, n, env):
        cname = n.get("cname", "").replace("std::__cxx11::list", "std::list")
        args = n.get("ch", [])
        if cname.startswith("std::vector") or cname.startswith("std::list"):
            elem = _first_targ(n.get("t", ""))
            if not args:
                return Vec([], elem)
            if n.get("copy"):
                return typed_copy(self.ev(args[0], env), n.get("t", "") or cname)
            a0 = self.ev(args[0], env)
            if isinstance(a0, int) and not isinstance(a0, bool):
                fill = None
                if len(args) >= 2 and args[1].get("k") != "CXXDefaultArgExpr":
                    fill = self.ev(args[1], env)
                items = []
                for _ in range(a0):
                    items.append(copy.deepcopy(fill) if fill is not None else self.default_elem(elem))
                return Vec(items, elem)
            if isinstance(a0, Vec):
                return typed_copy(a0, n.get("t", "") or cname)
            if isinstance(a0, list):
                # braced initialiser: vector<T>{a, b, ...}
                return Vec([vcopy(x, elem or "") for x in a0], elem)
            if isinstance(a0, Iter) and len(args) >= 2:
                a1 = self.ev(args[1], env)
                if isinstance(a1, Iter) and a1.v is a0.v and isinstance(a0.v, Vec):
                    return Vec([vcopy(x, elem or "") for x in a0.v.items[a0.i:a1.i]], elem)
            raise Unsupported("std::vector constructor form")
        if cname.startswith("std::valarray<"):
            elem = _first_targ(n.get("t", ""))
            if not args:
                return Vec([], elem)
            if n.get("copy"):
                return typed_copy(self.ev(args[0], env), n.get("t", "") or cname)
            a0 = self.ev(args[0], env)
            if len(args) == 1 and isinstance(a0, int) and not isinstance(a0, bool):
                return Vec([Fraction(0) for _ in range(a0)], elem)
            if len(args) == 2:
                a1 = self.ev(args[1], env)
                if isinstance(a0, Iter) and isinstance(a0.v, Vec) and isinstance(a1, int):
                    # valarray(const T *p, size_t n): a copy of n elements
                    if a0.i + a1 > len(a0.v.items):
                        raise AssertFail("valarray built from %d elements of an array of %d" % (a1, len(a0.v.items) - a0.i))
                    return Vec([vcopy(x, elem or "") for x in a0.v.items[a0.i:a0.i + a1]], elem)
            raise Unsupported("std::valarray constructor form")
        if cname.startswith("std::set<") or cname.startswith("std::multiset<"):
            if not args:
                return SetVal()
            if n.get("copy"):
                a0 = self.ev(args[0], env)
                if isinstance(a0, SetVal):
                    return SetVal(set(a0.items))
            if len(args) >= 2:
                a0, a1 = self.ev(args[0], env), self.ev(args[1], env)
                if isinstance(a0, Iter) and isinstance(a1, Iter) and a0.v is a1.v and isinstance(a0.v, Vec):
                    return SetVal(a0.v.items[a0.i:a1.i])
        if cname.startswith("std::basic_ostringstream") or cname.startswith("std::basic_stringstream"):
            return StreamVal()
        if cname.startswith("std::map<"):
            if n.get("copy") and args:
                return copy.deepcopy(self.ev(args[0], env))
            m = MapVal()
            if args and args[0].get("k") != "CXXDefaultArgExpr":
                lst = self.ev(args[0], env)
                if isinstance(lst, list):
                    for pr in lst:
                        if isinstance(pr, Obj) and "first" in pr.f:
                            m.d[pr.f["first"]] = pr.f["second"]
                        else:
                            raise Unsupported("std::map initialiser element %r" % (pr,))
                elif isinstance(lst, MapVal):
                    m = copy.deepcopy(lst)
                else:
                    raise Unsupported("std::map constructor argument %r" % (lst,))
            return m
        if cname.startswith("std::basic_string") or cname.startswith("std::__cxx11::basic_string"):
            if not args:
                return ""
            v = self.ev(args[0], env)
            return v
        if cname.startswith("std::function"):
            return self.ev(args[0], env) if args else None
        if cname.startswith("std::shared_ptr") or cname.startswith("std::__shared_ptr"):
            # a shared_ptr is modelled as the pointee itself (None when empty): copies alias, as in C++
            return self.ev(args[0], env) if args else None
        if cname.startswith("std::pair"):
            if n.get("copy") and args:
                return typed_copy(self.ev(args[0], env), n.get("t", "") or cname)
            o = Obj("std::pair")
            if len(args) >= 2:
                o.f["first"] = self.ev(args[0], env)
                o.f["second"] = self.ev(args[1], env)
            return o
        if cname.startswith("__gnu_cxx::__normal_iterator") or cname.startswith("std::_List_") or cname.startswith("std::_Rb_tree_"):
            if args:
                v = self.ev(args[0], env)
                if isinstance(v, Iter):
                    return Iter(v.v, v.i)
            return Iter(Vec([]), 0)
        if cname.startswith("std::"):
            if n.get("copy") and args:
                return copy.deepcopy(self.ev(args[0], env))
            return Opaque(cname)
        if n.get("copy") and args and (self.prog.by_key.get(n.get("callee")) is None or self.prog.by_key[n["callee"]].body is None or n.get("implicit")):
            return typed_copy(self.ev(args[0], env), cname)      # member-wise copy: pointer members alias their pointee
        return self.construct(cname, args, env, ctor_key=n.get("callee"), node=n)

    e_CXXTemporaryObjectExpr = e_CXXConstructExpr

    def default_elem(self, elem):
        if elem in ("double", "float"):
            return Fraction(0)
        if elem in ("int", "unsigned int", "unsigned long", "long", "bool", "unsigned short", "short"):
            return 0
        if elem in self.prog.records:
            return self.construct(elem, [], None)
        if elem and elem.endswith("*"):
            return None
        if elem and elem.replace("const ", "").strip().startswith(("std::vector<", "std::list<", "std::map<", "std::set<")):
            return self.default_value(elem)
        return UNINIT

    def e_CXXScalarValueInitExpr(self, n, env):
        t = n.get("t", "")
        if t in ("double", "float"):
            return Fraction(0)
        if t == "bool":
            return False
        return 0

    e_ImplicitValueInitExpr = e_CXXScalarValueInitExpr

    def e_InitListExpr(self, n, env):
        t = n.get("t", "")
        if t in self.prog.records:
            o = self.new_obj(t)
            fl = self.all_fields(t)
            for f, c in zip(fl, n.get("ch", [])):
                o.f[f["name"]] = self.ev(c, env)
            return o
        if t.startswith("std::vector"):
            return Vec([self.ev(c, env) for c in n.get("ch", [])], _first_targ(t))
        ch = n.get("ch", [])
        if t.startswith("std::pair<") or t.startswith("const std::pair<"):
            o = Obj("std::pair")
            if len(ch) == 2:
                o.f["first"] = self.ev(ch[0], env)
                o.f["second"] = self.ev(ch[1], env)
                return o
        if t.endswith("]"):
            return [self.ev(c, env) for c in ch]
        if len(ch) == 1:
            return self.ev(ch[0], env)
        raise Unsupported("init list of type %s" % t)

    def e_CXXStdInitializerListExpr(self, n, env):
        return self.ev(n["ch"][0], env)

    def e_LambdaExpr(self, n, env):
        return Closure(n, dict(env), env.get("this"))

    def e_CXXDefaultArgExpr(self, n, env):
        return self.ev(n["expr"], {})

    def e_CXXThrowExpr(self, n, env):
        ch = n.get("ch")
        what = "throw"
        if ch:
            try:
                v = self.ev(ch[0], env)
                what = "throw %r" % (v,)
            except Unsupported:
                what = "throw <%s>" % _strip(ch[0]).get("t", "?")
        raise Thrown(what)

    def e_UnaryExprOrTypeTraitExpr(self, n, env):
        raise Unsupported("sizeof")

    def e_CXXNewExpr(self, n, env):
        ch = n.get("ch", [])
        at = n.get("at", "")
        if n.get("arr"):
            # new T[k]: an array of k uninitialised (or default-constructed) elements; the pointer is the Vec itself
            size = None
            for c in ch:
                if c.get("k") not in ("CXXConstructExpr", "InitListExpr"):
                    size = self.ev(c, env)
                    break
            if isinstance(size, int) and not isinstance(size, bool) and size >= 0:
                el = (lambda: self.construct(at, [], env)) if at in self.prog.records else (lambda: UNINIT)
                return Vec([el() for _ in range(size)], at)
            raise Unsupported("array new with a non-constant size")
        for c in ch:
            if c.get("k") in ("CXXConstructExpr",):
                return self.ev(c, env)
        if at in self.prog.records:
            return self.construct(at, [], env)
        return Box(UNINIT)

    def e_CXXDeleteExpr(self, n, env):
        # destructors are not run; the freed object is recorded so that ownership rules can ask what was released
        try:
            v = self.ev(n["ch"][0], env) if n.get("ch") else None
        except Unsupported:
            v = None
        self.__dict__.setdefault("deleted", []).append(v)
        return None

    def call_closure(self, c, arg_values):
        node = c.node
        env = dict(c.env)
        for p, a in zip(node.get("params", []), arg_values):
            if p["t"].endswith("&"):
                env[p["did"]] = a if hasattr(a, "get") else Box(a)
            else:
                env[p["did"]] = Box(a.get() if hasattr(a, "get") else a)
        env["this"] = c.this
        try:
            self.ex(node["body"], env)
        except _Return as r:
            return r.v
        return None

    def call_value(self, fv, argvals):
        """Call a function VALUE (closure, std::bind result, function / member pointer, functor object) on argument values."""
        if isinstance(fv, Closure):
            return self.call_closure(fv, argvals)
        if isinstance(fv, BoundFn):
            actual = [argvals[b.i - 1] if isinstance(b, Placeholder) else b for b in fv.bound]
            return self.call_value(fv.target, actual)
        if isinstance(fv, tuple) and len(fv) == 2 and fv[0] == "fn":
            fn = self.prog.by_key.get(fv[1])
            if fn is None:
                raise Unsupported("call through pointer to unknown function %s" % fv[1])
            vals = [a.get() if hasattr(a, "get") and not isinstance(a, (Obj, Vec)) else a for a in argvals]
            recv = None
            if fn.cls:
                recv, argvals, vals = vals[0], argvals[1:], vals[1:]
            vh = self.vhooks.get(fn.q)
            if vh is not None:
                return vh(self, recv, vals)
            if fn.body is None:
                raise Unsupported("no body for %s" % fv[1])
            return self.call(fn, recv, None, None, arg_values=argvals)
        if isinstance(fv, Obj):
            fn = self._functor_op(fv.cls)
            if fn is not None:
                return self.call(fn, fv, None, None, arg_values=argvals)
        raise Unsupported("call of function value %r" % (fv,))

    def _functor_op(self, cls):
        cache = self.__dict__.setdefault("_functor_cache", {})
        if cls not in cache:
            pfx = cls + "::operator()"
            cands = [f for k, f in self.prog.by_key.items() if k.startswith(pfx + "(") and f.body is not None]
            cache[cls] = cands[0] if len(cands) == 1 else None
        return cache[cls]

    def e_CallExpr(self, n, env):
        return self.ev_call(n, env)

    e_CXXMemberCallExpr = e_CallExpr
    e_CXXOperatorCallExpr = e_CallExpr

    def ev_call(self, n, env, want_ref=False):
        r = self._ev_call(n, env, want_ref)
        if not want_ref and isinstance(r, (Box, FieldRef, ElemRef, MapRef)) and str(n.get("t", "")) != "" and n.get("lv"):
            # a call to a reference-returning function used as an rvalue
            return r.get()
        return r

    def _ev_call(self, n, env, want_ref=False):
        k = n["k"]
        ch = n.get("ch", [])
        callee = n.get("callee")
        cname = n.get("cname", "")
        if callee is None:
            # call through a function value (closure / std::function)
            fv = self.ev(ch[0], env)
            if isinstance(fv, Closure):
                return self.call_closure(fv, [self.bind_ref(a, env) for a in ch[1:]])
            if isinstance(fv, (BoundFn, tuple)):
                return self.call_value(fv, [self.ev(a, env) for a in ch[1:]])
            raise Unsupported("unresolved call at line %s" % n.get("l"))
        hook = self.hooks.get(cname)
        if hook is None and self.prefix_hooks:
            for pfx, h in self.prefix_hooks:
                if cname.startswith(pfx):
                    hook = h
                    break
        if hook is not None:
            return hook(self, n, env)
        vh = self.vhooks.get(cname) if self.vhooks else None
        if vh is not None:
            if k == "CXXMemberCallExpr":
                me = _strip(ch[0])
                recv = self.ev(me["ch"][0], env)
                return vh(self, recv, [self.ev(a, env) for a in ch[1:]])
            return vh(self, None, [self.ev(a, env) for a in ch[1:]])
        # ---- assertions
        if cname in ("__assert_fail", "__assert"):
            raise AssertFail("line %s" % n.get("l"))
        if cname == "abort":
            raise AssertFail("abort() at line %s" % n.get("l"))
        # ---- member calls
        if k == "CXXMemberCallExpr":
            me = _strip(ch[0])
            base = me["ch"][0]
            args = ch[1:]
            if cname.startswith("std::"):
                return self.std_member(n, cname, base, args, env, want_ref)
            obj = self.ev(base, env) if me.get("arrow") else self.lv(base, env).get()
            fn = self.prog.by_key.get(callee) if me.get("qual") else self.resolve_virtual(callee, obj)
            if isinstance(obj, Closure):
                return self.call_closure(obj, [self.bind_ref(a, env) for a in args])
            if fn is None or fn.body is None:
                raise Unsupported("no body for %s" % callee)
            return self.call(fn, obj, args, env)
        if k == "CXXOperatorCallExpr":
            op = n.get("op")
            if cname.startswith("std::") or cname.startswith("__gnu_cxx::"):
                return self.std_operator(n, op, cname, ch[1:], env, want_ref)
            fn = self.prog.by_key.get(callee)
            if op == "()" :
                fv = self.ev(ch[1], env)
                if isinstance(fv, Closure):
                    return self.call_closure(fv, [self.bind_ref(a, env) for a in ch[2:]])
            if fn is None or fn.body is None:
                if op == "=" and len(ch) == 3:
                    v = self.ev(ch[2], env)
                    ref = self.lv(ch[1], env)
                    ref.set(copy.deepcopy(v))
                    return v
                raise Unsupported("no body for operator %s (%s)" % (op, callee))
            if fn.cls:
                obj = self.lv(ch[1], env).get() if _strip(ch[1]).get("lv") else self.ev(ch[1], env)
                return self.call(fn, obj, ch[2:], env)
            return self.call(fn, None, ch[1:], env)
        # ---- free functions
        args = ch[1:]
        if cname.startswith("std::") or cname in _C_FUNCS:
            return self.std_free(n, cname, args, env)
        fn = self.prog.by_key.get(callee)
        if fn is None or fn.body is None:
            raise Unsupported("no body for %s" % callee)
        return self.call(fn, None, args, env)

    def resolve_virtual(self, callee, obj):
        fn = self.prog.by_key.get(callee)
        if isinstance(obj, Obj) and fn is not None and fn.d.get("virtual"):
            # dynamic dispatch on the object's class
            name = fn.name
            cls = obj.cls
            seen = set()
            idx = self.prog.__dict__.get("_cls_name_index")
            if idx is None:
                idx = {}
                for f in self.prog.all_functions():
                    idx.setdefault((f.cls, f.name), []).append(f)
                self.prog.__dict__["_cls_name_index"] = idx
            while cls and cls not in seen:
                seen.add(cls)
                for f in idx.get((cls, name), ()):
                    if len(f.params) == len(fn.params):
                        return f
                r = self.prog.records.get(cls)
                cls = r["bases"][0] if r and r.get("bases") else None
        if fn is None and isinstance(obj, Obj):
            # pure virtual in the static type: find the override in the dynamic class
            nm = callee.split("(")[0].split("::")[-1]
            for f in self.prog.all_functions():
                if f.cls == obj.cls and f.name == nm:
                    return f
        return fn

    # ---- std:: modelling -------------------------------------------------------
    def std_member(self, n, cname, base, args, env, want_ref):
        meth = _basename(cname)
        recv = self.lv(base, env).get() if _strip(base).get("lv") else self.ev(base, env)
        if isinstance(recv, Vec):
            if meth == "size":
                return len(recv.items)
            if meth == "empty":
                return len(recv.items) == 0
            if meth == "data" and not args:
                return Iter(recv, 0)        # pointer to the first element
            if meth == "assign" and len(args) == 2:
                a0, a1 = self.ev(args[0], env), self.ev(args[1], env)
                if isinstance(a0, int) and not isinstance(a0, bool):
                    recv.items[:] = [copy.deepcopy(a1) for _ in range(a0)]
                    return None
                if isinstance(a0, Iter) and isinstance(a1, Iter) and a0.v is a1.v and isinstance(a0.v, Vec) and a0.v is not recv:
                    recv.items[:] = [copy.deepcopy(x) for x in a0.v.items[a0.i:a1.i]]
                    return None
                raise Unsupported("vector::assign form")
            if meth == "insert" and len(args) == 1 and cname.startswith("std::set<"):
                # an ordered set of pointers that the caller models as a sequence: insert = append unless present
                v = self.ev(args[0], env)
                if not any(x is v for x in recv.items):
                    recv.items.append(v)
                return None
            if meth == "push_back" or meth == "emplace_back":
                v = self.ev(args[0], env)
                recv.items.append(vcopy(v, recv.elem or _strip(args[0]).get("t", "")))
                return None
            if meth == "clear":
                recv.items[:] = []
                return None
            if meth in ("at",):
                i = self.ev(args[0], env)
                r = ElemRef(recv, i)
                return r if want_ref else r.get()
            if meth == "front":
                r = ElemRef(recv, 0)
                return r if want_ref else r.get()
            if meth == "back":
                r = ElemRef(recv, len(recv.items) - 1)
                return r if want_ref else r.get()
            if meth == "pop_front":
                if not recv.items:
                    raise AssertFail("pop_front on an empty container")
                del recv.items[0]
                if cname.startswith("std::list<") or cname.startswith("std::__cxx11::list<"):
                    for it_ in list(recv.__dict__.get("_track") or ()):
                        if it_.i >= 1:
                            it_.i -= 1
                return None
            if meth == "pop_back":
                recv.items.pop()
                return None
            if meth == "resize":
                k = self.ev(args[0], env)
                fill = None
                if len(args) > 1 and args[1].get("k") != "CXXDefaultArgExpr":
                    fill = self.ev(args[1], env)
                if "valarray" in cname:
                    recv.items[:] = []      # valarray::resize re-initialises every element
                while len(recv.items) > k:
                    recv.items.pop()
                while len(recv.items) < k:
                    recv.items.append(copy.deepcopy(fill) if fill is not None else
                                      (Fraction(0) if "valarray" in cname else self.default_elem(recv.elem)))
                return None
            if meth in ("reserve", "shrink_to_fit"):
                return None
            if meth == "erase" and args:
                a = [self.ev(x, env) for x in args]
                if all(isinstance(x, Iter) and x.v is recv for x in a):
                    lo = a[0].i
                    hi = a[1].i if len(a) > 1 else lo + 1
                    del recv.items[lo:hi]
                    if cname.startswith("std::list<") or cname.startswith("std::__cxx11::list<"):
                        # node-based: iterators to the other elements (and end()) stay on their elements
                        for it_ in list(recv.__dict__.get("_track") or ()):
                            if it_.i >= hi:
                                it_.i -= (hi - lo)
                    return Iter(recv, lo)
            if meth == "insert" and len(args) == 3:
                a = [self.ev(x, env) for x in args]
                if all(isinstance(x, Iter) for x in a) and a[0].v is recv and a[1].v is a[2].v:
                    recv.items[a[0].i:a[0].i] = [vcopy(x, recv.elem or "") for x in a[1].v.items[a[1].i:a[2].i]]
                    return Iter(recv, a[0].i)
            if meth in ("begin", "cbegin"):
                return Iter(recv, 0)
            if meth in ("end", "cend"):
                return Iter(recv, len(recv.items))
            if meth in ("rbegin", "crbegin"):
                return Iter(Vec(list(reversed(recv.items)), recv.elem), 0)        # read-only reverse view
            if meth in ("rend", "crend"):
                return Iter(Vec(list(reversed(recv.items)), recv.elem), len(recv.items))
        if isinstance(recv, MapVal):
            if meth == "at":
                k = self.ev(args[0], env)
                if isinstance(k, bool):
                    k = int(k)
                if k not in recv.d:
                    raise Thrown("std::out_of_range")
                return recv.d[k]
            if meth == "count":
                return 1 if self.ev(args[0], env) in recv.d else 0
            if meth == "find" and args:
                k_ = self.ev(args[0], env)
                if isinstance(k_, bool):
                    k_ = int(k_)
                sn = recv.snapshot()
                for i_, pr_ in enumerate(sn.items):
                    if pr_.f["first"] == k_:
                        return Iter(sn, i_)
                return Iter(sn, len(sn.items))
            if meth in ("lower_bound", "upper_bound") and len(args) == 1:
                k_ = self.ev(args[0], env)
                if isinstance(k_, bool):
                    k_ = int(k_)
                sn = recv.snapshot()
                for i_, pr_ in enumerate(sn.items):
                    if (pr_.f["first"] >= k_) if meth == "lower_bound" else (pr_.f["first"] > k_):
                        return Iter(sn, i_)
                return Iter(sn, len(sn.items))
            if meth in ("insert", "emplace") and args:
                # insert(pair) / emplace(k, v): keeps an existing mapping, as std::map does
                if len(args) == 1:
                    pr = self.ev(args[0], env)
                    if isinstance(pr, Obj) and pr.cls == "std::pair":
                        k_, v_ = pr.f.get("first"), pr.f.get("second")
                    elif isinstance(pr, (list, tuple)) and len(pr) == 2:
                        k_, v_ = pr
                    else:
                        raise Unsupported("std::map::insert argument %r" % (pr,))
                else:
                    k_, v_ = self.ev(args[0], env), self.ev(args[1], env)
                if isinstance(k_, bool):
                    k_ = int(k_)
                if k_ not in recv.d:
                    recv.d[k_] = v_
                    recv.touch()
                return None
            if meth in ("begin", "cbegin"):
                return Iter(recv.snapshot(), 0)
            if meth in ("end", "cend"):
                sn = recv.snapshot()
                return Iter(sn, len(sn.items))
            if meth == "erase":
                recv.d.pop(self.ev(args[0], env), None)
                recv.touch()
                return 1
            if meth == "clear":
                recv.d.clear()
                recv.touch()
                return None
            if meth == "size":
                return len(recv.d)
            if meth == "empty":
                return not recv.d
        if isinstance(recv, SetVal):
            if meth in ("begin", "cbegin", "end", "cend"):
                # iteration over a snapshot in key order (primitive keys sorted; record keys in insertion-stable repr order)
                if getattr(recv, "_snap", None) is None or len(recv._snap.items) != len(recv.items):
                    try:
                        recv._snap = Vec(sorted(recv.items))
                    except TypeError:
                        recv._snap = Vec(sorted(recv.items, key=repr))
                return Iter(recv._snap, 0 if meth in ("begin", "cbegin") else len(recv._snap.items))
            if meth in ("rbegin", "crbegin", "rend", "crend"):
                try:
                    rs_ = sorted(recv.items, reverse=True)
                except TypeError:
                    rs_ = sorted(recv.items, key=repr, reverse=True)
                if getattr(recv, "_rsnap", None) is None or recv._rsnap.items != rs_:
                    recv._rsnap = Vec(rs_)          # read-only reverse view (shared by rbegin / rend so that they compare)
                return Iter(recv._rsnap, 0 if meth in ("rbegin", "crbegin") else len(rs_))
            if meth == "clear":
                recv.items.clear()
                return None
            if meth == "find" and len(args) == 1:
                k_ = self.ev(args[0], env)
                if isinstance(k_, bool):
                    k_ = int(k_)
                if getattr(recv, "_snap", None) is None or len(recv._snap.items) != len(recv.items):
                    try:
                        recv._snap = Vec(sorted(recv.items))
                    except TypeError:
                        recv._snap = Vec(sorted(recv.items, key=repr))
                for i_, x_ in enumerate(recv._snap.items):
                    if (x_ is k_) if isinstance(k_, Obj) else (not isinstance(x_, Obj) and x_ == k_):
                        return Iter(recv._snap, i_)
                return Iter(recv._snap, len(recv._snap.items))
            if meth == "insert" and len(args) == 2:
                a0, a1 = self.ev(args[0], env), self.ev(args[1], env)
                if isinstance(a0, Iter) and isinstance(a1, Iter) and a0.v is a1.v:
                    for x in a0.v.items[a0.i:a1.i]:          # range insert
                        if isinstance(x, Obj):
                            if not any(e is x for e in recv.items):
                                recv.items.add(x)
                        else:
                            recv.items.add(x)
                    recv._snap = None
                    return None
                raise Unsupported("std::set::insert(hint, value)")
            if meth in ("count", "insert") and args:
                v = self.ev(args[0], env)
                key_t = _first_targ(cname[:cname.rfind("::")]) if "<" in cname else ""
                if isinstance(v, Obj) and (key_t or "").replace("const", "").strip().endswith("*"):
                    # a set of pointers: membership by identity (the comparator only orders them)
                    if meth == "count":
                        return 1 if any(e is v for e in recv.items) else 0
                    if not any(e is v for e in recv.items):
                        recv.items.add(v)
                    return None
                if isinstance(v, Obj):
                    # record elements: equivalence is defined by the class's own operator<
                    lt = [f for f in self.prog.fns(v.cls + "::operator<")] if hasattr(self.prog, "fns") else []
                    if not lt:
                        raise Unsupported("std::set of %s without operator<" % v.cls)
                    same = [e for e in recv.items
                            if not self.call(lt[0], v, None, None, arg_values=[e]) and not self.call(lt[0], e, None, None, arg_values=[v])]
                    if meth == "count":
                        return 1 if same else 0
                    if not same:
                        recv.items.add(v)
                    return None
            if meth == "count":
                return 1 if self.ev(args[0], env) in recv.items else 0
            if meth == "insert":
                recv.items.add(self.ev(args[0], env))
                return None
            if meth == "erase" and len(args) == 1:
                v = self.ev(args[0], env)
                if isinstance(v, Iter):
                    raise Unsupported("std::set::erase(iterator)")
                gone = [e for e in recv.items if (e is v if isinstance(v, Obj) else e == v)]
                for e in gone:
                    recv.items.discard(e)
                recv._snap = None
                return len(gone)
            if meth == "empty":
                return not recv.items
            if meth == "size":
                return len(recv.items)
        if isinstance(recv, str):
            if meth == "empty":
                return recv == ""
            if meth in ("size", "length"):
                return len(recv)
        if isinstance(recv, StreamVal):
            if meth == "empty":
                return all(isinstance(t_, str) and t_ == "" for t_ in recv.tokens)
            if meth == "str":
                return recv
            if meth in ("precision", "setf", "width"):
                return None
        if isinstance(recv, Closure) and meth == "operator()":
            return self.call_closure(recv, [self.bind_ref(a, env) for a in args])
        raise Unsupported("std member %s on %r" % (cname, recv))

    def std_operator(self, n, op, cname, args, env, want_ref):
        if op == "()" and (cname.startswith("std::function<") or cname.startswith("std::_Bind<")):
            return self.call_value(self.ev(args[0], env), [self.ev(a, env) for a in args[1:]])
        if cname.startswith("std::shared_ptr<") or cname.startswith("std::__shared_ptr<") or cname.startswith("std::__shared_ptr_access<") \
                or (cname.startswith("std::operator") and "shared_ptr" in cname) \
                or (cname.startswith("std::operator") and op in ("==", "!=") and len(args) == 2 and
                    (_strip(args[0]).get("t", "").replace("const ", "").startswith("std::shared_ptr<")
                     or _strip(args[1]).get("t", "").replace("const ", "").startswith("std::shared_ptr<"))):
            if op in ("->", "*"):
                return self.ev(args[0], env)
            if op in ("==", "!="):
                a, b = self.ev(args[0], env), self.ev(args[1], env)
                return (a is b) == (op == "==")
            if op == "=":
                ref = self.lv(args[0], env)
                ref.set(self.ev(args[1], env))
                return ref if want_ref else ref.get()
        is_iter_op = False
        if op in ("!=", "==", "<") and len(args) == 2 and ("iterator" in _strip(args[0]).get("t", "") or "iterator" in _strip(args[1]).get("t", "")):
            is_iter_op = True
        if is_iter_op or cname.startswith("__gnu_cxx::") or "__normal_iterator" in cname or "_List_iterator" in cname or "_List_const_iterator" in cname \
                or "_Rb_tree_iterator" in cname or "_Rb_tree_const_iterator" in cname:
            if op in ("++", "--"):
                ref = self.lv(args[0], env)
                it = ref.get()
                if isinstance(it, Iter):
                    new = Iter(it.v, it.i + (1 if op == "++" else -1))
                    ref.set(new)
                    return it if len(args) > 1 else new     # postfix form has a dummy int argument
            if op in ("!=", "==", "<"):
                a = self.ev(args[0], env)
                b = self.ev(args[1], env)
                if isinstance(a, Iter) and isinstance(b, Iter):
                    if a.v is not b.v:
                        raise Unsupported("comparison of iterators into different vectors")
                    return {"!=": a.i != b.i, "==": a.i == b.i, "<": a.i < b.i}[op]
            if op == "*":
                it = self.ev(args[0], env)
                if isinstance(it, Iter):
                    r = ElemRef(it.v, it.i)
                    return r if want_ref else r.get()
            if op == "->":
                it = self.ev(args[0], env)
                if isinstance(it, Iter):
                    return ElemRef(it.v, it.i).get()
            if op == "+" or op == "-":
                a = self.ev(args[0], env)
                b = self.ev(args[1], env)
                if isinstance(a, Iter) and isinstance(b, int):
                    return Iter(a.v, a.i + (b if op == "+" else -b))
                if isinstance(a, Iter) and isinstance(b, Iter) and op == "-":
                    return a.i - b.i
            if op == "=":
                ref = self.lv(args[0], env)
                v_ = self.ev(args[1], env)
                ref.set(Iter(v_.v, v_.i) if isinstance(v_, Iter) else v_)
                return ref if want_ref else ref.get()
            raise Unsupported("iterator operator %s" % op)
        if op == "[]":
            b = self.lv(args[0], env).get() if _strip(args[0]).get("lv") else self.ev(args[0], env)
            i = self.ev(args[1], env)
            if isinstance(b, MapVal):
                if isinstance(i, bool):
                    i = int(i)
                if i not in b.d:
                    b.d[i] = self.default_value(b.vtype) if b.vtype else UNINIT
                    b.touch()
                r = MapRef(b, i)
                return r if want_ref else r.get()
            if isinstance(b, Vec) and isinstance(i, int):
                r = ElemRef(b, i)
                return r if want_ref else r.get()
            raise Unsupported("std operator[] on %r[%r]" % (b, i))
        if op in ("*=", "+=", "-=", "/=") and "valarray" in cname:
            tgt = self.lv(args[0], env).get()
            rhs = self.ev(args[1], env)
            if isinstance(tgt, Vec):
                for i_ in range(len(tgt.items)):
                    o_ = rhs.items[i_] if isinstance(rhs, Vec) else rhs
                    tgt.items[i_] = self.arith(op[0], tgt.items[i_], o_, "double")
                return tgt
            raise Unsupported("valarray %s on %r" % (op, tgt))
        if op == "<<":
            s = self.lv(args[0], env).get() if _strip(args[0]).get("lv") else self.ev(args[0], env)
            if isinstance(s, StreamVal):
                if len(args) > 1:
                    try:
                        v = self.ev(args[1], env)
                    except Unsupported:
                        v = Opaque(_strip(args[1]).get("t", "?"))
                    s.tokens.append(v)
                return s
            raise Unsupported("operator<< on %r" % (s,))
        if op == "=":
            v = self.ev(args[1], env)
            ref = self.lv(args[0], env)
            t0 = _strip(args[0]).get("t", "")
            if isinstance(v, list) and (t0.startswith("std::vector<") or t0.startswith("std::list<")):
                v = Vec(list(v), _first_targ(t0))           # c = {a, b, ...}
            ref.set(typed_copy(v, t0))      # member-wise: pointer members keep aliasing their pointee
            return v
        if op == "()":
            fv = self.ev(args[0], env)
            if isinstance(fv, Closure):
                return self.call_closure(fv, [self.bind_ref(a, env) for a in args[1:]])
        if op in ("==", "!="):
            a = self.ev(args[0], env)
            b = self.ev(args[1], env)
            if isinstance(a, str) and isinstance(b, str):
                return (a == b) if op == "==" else (a != b)
        raise Unsupported("std operator %s (%s)" % (op, cname))

    def std_free(self, n, cname, args, env):
        nm = _basename(cname)
        if nm in ("fabs", "abs", "fabsf"):
            v = self.num(self.ev(args[0], env))
            s = self.sign(v)
            if s < 0:
                return r_neg(v) if is_sym(v) else -v
            return v
        if "numeric_limits<" in cname:
            if nm == "epsilon":
                return Fraction(1, 2 ** 52)
            if nm == "max":
                if "numeric_limits<double>" in cname or "numeric_limits<float>" in cname:
                    return Fraction(2) ** 1023 * (2 - Fraction(1, 2 ** 52))
                if "unsigned" in cname:
                    return 2 ** 32 - 1
                return 2 ** 31 - 1
            if nm == "infinity":
                return Fraction(10) ** 400
            if nm in ("min", "lowest"):
                if "numeric_limits<double>" in cname or "numeric_limits<float>" in cname:
                    # min() is the smallest POSITIVE normal value; lowest() is -max()
                    return Fraction(1, 2 ** 1022) if nm == "min" else -(Fraction(2) ** 1023 * (2 - Fraction(1, 2 ** 52)))
                if "unsigned" in cname:
                    return 0
                return -(2 ** 31)
            raise Unsupported("numeric_limits member %s" % cname)
        if nm in ("min", "max"):
            ra = self.bind_ref(args[0], env)
            rb = self.bind_ref(args[1], env)
            a, b = ra.get(), rb.get()
            if nm == "min":
                return b if self.compare(b, "<", a) else a
            return b if self.compare(a, "<", b) else a
        if nm == "swap":
            ra = self.lv(args[0], env)
            rb = self.lv(args[1], env)
            a, b = ra.get(), rb.get()
            ra.set(b)
            rb.set(a)
            return None
        if nm == "epsilon" and "numeric_limits<double>" in cname:
            return Fraction(1, 2 ** 52)
        if nm == "max" and "numeric_limits" in cname:
            return Fraction(2) ** 1023 * (2 - Fraction(1, 2 ** 52))
        if nm == "signbit":
            v = self.num(self.ev(args[0], env))
            if is_sym(v):
                return self.sign(v) < 0      # (a symbolic gap is never a signed zero)
            return v < 0
        if nm in ("isnan", "isinf"):
            return False
        if nm in ("move", "forward"):
            return self.ev(args[0], env)
        if nm in ("next", "prev") and args:
            it0 = self.ev(args[0], env)
            k_ = 1
            if len(args) > 1 and args[1].get("k") != "CXXDefaultArgExpr":
                k_ = self.ev(args[1], env)
            if isinstance(it0, Iter) and isinstance(k_, int):
                return Iter(it0.v, it0.i + (k_ if nm == "next" else -k_))
        if nm == "bind" and args:
            bound = []
            for a in args[1:]:
                sa = _strip(a)
                if sa.get("k") == "DeclRefExpr" and str(sa.get("ref", "")).startswith("std::placeholders::_"):
                    bound.append(Placeholder(int(sa["ref"].rsplit("_", 1)[1])))
                else:
                    bound.append(self.ev(a, env))
            return BoundFn(self.ev(args[0], env), bound)
        if nm == "for_each" and len(args) == 3:
            b, e = self.ev(args[0], env), self.ev(args[1], env)
            f = self.ev(args[2], env)
            if isinstance(b, Iter) and isinstance(e, Iter) and b.v is e.v and isinstance(b.v, Vec):
                for x in list(b.v.items[b.i:e.i]):
                    self.call_value(f, [x])
                return f
        if nm in ("make_pair",):
            o = Obj("std::pair")
            o.f["first"] = self.ev(args[0], env)
            o.f["second"] = self.ev(args[1], env)
            return o
        if nm in ("printf", "fprintf", "err_printf", "db_printf", "fflush"):
            return 0
        if nm in ("fill", "fill_n") and len(args) == 3:
            b = self.ev(args[0], env)
            if nm == "fill":
                e = self.ev(args[1], env)
                v = self.ev(args[2], env)
                cnt = None
            else:
                cnt = self.ev(args[1], env)
                v = self.ev(args[2], env)
                e = None
            if isinstance(b, Vec):
                b = Iter(b, 0)
            if isinstance(b, Iter) and isinstance(b.v, Vec) and (e is None or (isinstance(e, Iter) and e.v is b.v)):
                hi = e.i if e is not None else b.i + int(cnt)
                for i_ in range(b.i, hi):
                    b.v.items[i_] = copy.deepcopy(v) if isinstance(v, (Obj, Vec)) else v
                return None
            if isinstance(b, ElemRef) or isinstance(e, ElemRef):
                raise Unsupported("std::fill over raw pointers into %r" % (b,))
        if nm == "find" and len(args) == 3:
            b, e = self.ev(args[0], env), self.ev(args[1], env)
            v = self.ev(args[2], env)
            if isinstance(b, Iter) and isinstance(e, Iter) and b.v is e.v and isinstance(b.v, Vec):
                for i_ in range(b.i, e.i):
                    x = b.v.items[i_]
                    same = (x is v) if isinstance(v, (Obj, Vec)) or v is None or isinstance(x, (Obj, Vec)) else self.compare(x, "==", v)
                    if same:
                        return Iter(b.v, i_)
                return Iter(b.v, e.i)
        if nm == "copy" and len(args) == 3:
            b, e, o = self.ev(args[0], env), self.ev(args[1], env), self.ev(args[2], env)
            if isinstance(b, Iter) and isinstance(e, Iter) and b.v is e.v and isinstance(b.v, Vec) and isinstance(o, Iter) and isinstance(o.v, Vec):
                src_ = list(b.v.items[b.i:e.i])
                if o.i + len(src_) > len(o.v.items):
                    raise AssertFail("std::copy writes past the end of the destination (%d elements into %d)" % (len(src_), len(o.v.items) - o.i))
                for k_, x in enumerate(src_):
                    o.v.items[o.i + k_] = vcopy(x, o.v.elem or "")
                return Iter(o.v, o.i + len(src_))
        if nm == "reverse" and len(args) == 2:
            b, e = self.ev(args[0], env), self.ev(args[1], env)
            if isinstance(b, Iter) and isinstance(e, Iter) and b.v is e.v and isinstance(b.v, Vec):
                b.v.items[b.i:e.i] = b.v.items[b.i:e.i][::-1]
                return None
        if nm in ("sort", "stable_sort", "unique") and len(args) == 2:
            b, e = self.ev(args[0], env), self.ev(args[1], env)
            if isinstance(b, Iter) and isinstance(e, Iter) and b.v is e.v and isinstance(b.v, Vec):
                seg = b.v.items[b.i:e.i]
                if nm == "unique":
                    out = []
                    for x in seg:
                        if not out or not self.compare(out[-1], "==", x):
                            out.append(x)
                    b.v.items[b.i:e.i] = out + seg[len(out):]
                    return Iter(b.v, b.i + len(out))
                import functools
                seg.sort(key=functools.cmp_to_key(lambda x, y: -1 if self.compare(x, "<", y) else (1 if self.compare(y, "<", x) else 0)))
                b.v.items[b.i:e.i] = seg
                return None
        if nm in ("sort", "stable_sort") and len(args) == 3:
            b, e = self.ev(args[0], env), self.ev(args[1], env)
            cmpf = self.ev(args[2], env)
            if isinstance(b, Iter) and isinstance(e, Iter) and b.v is e.v and isinstance(b.v, Vec):
                import functools
                seg = b.v.items[b.i:e.i]

                def lt(x, y):
                    return self.truth(self.call_value(cmpf, [x, y]))
                # elements the comparator does not distinguish: std::stable_sort keeps their order; std::sort promises nothing.  With
                # `unstable_sort_reverses` set, std::sort hands them back in REVERSED order -- a legitimate outcome that a rule can use
                # to ask whether the caller depends on a promise it was not given.
                if nm == "sort" and getattr(self, "unstable_sort_reverses", False):
                    seg.reverse()
                seg.sort(key=functools.cmp_to_key(lambda x, y: -1 if lt(x, y) else (1 if lt(y, x) else 0)))
                b.v.items[b.i:e.i] = seg
                return None
        raise Unsupported("std/C function %s" % cname)


_C_FUNCS = {"fabs", "abs", "sqrt", "printf", "fprintf", "floor", "ceil", "pow", "atan", "acos", "fflush"}


def _basename(cname):
    """Unqualified function name with template argument lists removed."""
    out = []
    depth = 0
    for ch in cname:
        if ch == "<":
            depth += 1
        elif ch == ">":
            depth -= 1
        elif depth == 0:
            out.append(ch)
    return "".join(out).split("::")[-1]


def _strip(n):
    while n is not None and n.get("k") in TRANSPARENT:
        c = n.get("ch")
        if not c:
            break
        n = c[0]
    return n


def _copy(v):
    if isinstance(v, Iter):
        return Iter(v.v, v.i)
    return copy.deepcopy(v)


def _is_ptr(t):
    t = (t or "").strip()
    while t.endswith("const"):
        t = t[:-5].strip()
    return t.endswith("*")


_COPY_PROG = [None]


def _is_ptr_like(t):
    t = (t or "").replace("const ", "").strip()
    return _is_ptr(t) or t.startswith("std::shared_ptr<") or t.startswith("std::weak_ptr<") or t.startswith("std::unique_ptr<")


def typed_copy(v, t, depth=0):
    """Copy of a value of C++ type `t`: pointer-like members (raw pointers, smart pointers) alias their pointee, everything else is
    copied member-wise.  Falls back to a deep copy where no type information is available."""
    prog = _COPY_PROG[0]
    if isinstance(v, Iter):
        return Iter(v.v, v.i)
    if _is_ptr_like(t) or depth > 40:
        return v
    if isinstance(v, Obj):
        rec = prog.records.get(v.cls) if prog is not None else None
        if v.cls == "std::pair":
            o = Obj("std::pair")
            tt = (t or "").replace("const std::pair", "std::pair")
            t1 = _first_targ(tt) if tt.startswith("std::pair<") else None
            t2 = _second_targ(tt) if tt.startswith("std::pair<") else None
            for k_, v_ in v.f.items():
                ft = t1 if k_ == "first" else (t2 if k_ == "second" else None)
                o.f[k_] = typed_copy(v_, ft, depth + 1) if ft else copy.deepcopy(v_)
            return o
        if rec is None:
            return copy.deepcopy(v)
        ftypes = {}
        cls = v.cls
        seen = set()
        stack = [cls]
        while stack:
            c_ = stack.pop()
            if c_ in seen or c_ not in prog.records:
                continue
            seen.add(c_)
            for f_ in prog.records[c_]["fields"]:
                ftypes.setdefault(f_["name"], f_["t"])
            stack.extend(prog.records[c_].get("bases", []))
        o = Obj(v.cls)
        for k_, v_ in v.f.items():
            ft = ftypes.get(k_)
            o.f[k_] = typed_copy(v_, ft, depth + 1) if ft is not None else copy.deepcopy(v_)
        return o
    if isinstance(v, Vec):
        et = v.elem
        if et is None and t:
            et = _first_targ(t) if "<" in t else None
        if et is None:
            # unknown element type: alias element objects only if the container type says pointer
            return copy.deepcopy(v)
        nv = Vec([typed_copy(x, et, depth + 1) for x in v.items], v.elem)
        return nv
    if isinstance(v, MapVal):
        vt = v.vtype
        if vt is None:
            return copy.deepcopy(v)
        return MapVal({k_: typed_copy(x, vt, depth + 1) for k_, x in v.d.items()}, vtype=v.vtype)
    if isinstance(v, (SetVal, Box, StreamVal, Opaque)):
        return copy.deepcopy(v)
    return v


def vcopy(v, t):
    """Value semantics: copying an object value copies it; copying a pointer aliases."""
    if isinstance(v, Iter):
        return Iter(v.v, v.i)
    if isinstance(v, (Obj, Vec)) and not _is_ptr_like(t):
        if _COPY_PROG[0] is not None and t:
            return typed_copy(v, t)
        return copy.deepcopy(v)
    return v


def _is_copy_construct(n):
    n = _strip(n)
    return n is not None and n.get("k") in ("CXXConstructExpr", "CXXTemporaryObjectExpr")


def _second_targ(t):
    i = t.find("<")
    if i < 0:
        return None
    depth = 0
    cur = ""
    parts = []
    for ch in t[i + 1:]:
        if ch == "<":
            depth += 1
        elif ch == ">":
            if depth == 0:
                break
            depth -= 1
        if ch == "," and depth == 0:
            parts.append(cur.strip())
            cur = ""
        else:
            cur += ch
    parts.append(cur.strip())
    return parts[1] if len(parts) > 1 else None


def _first_targ(t):
    i = t.find("<")
    if i < 0:
        return None
    depth = 0
    out = ""
    for ch in t[i + 1:]:
        if ch == "<":
            depth += 1
        elif ch == ">":
            if depth == 0:
                break
            depth -= 1
        elif ch == "," and depth == 0:
            break
        out += ch
    return out.strip()


def _wrap_int(v, t):
    t = t.replace("const ", "")
    if t in ("unsigned int", "unsigned"):
        return v & 0xFFFFFFFF
    if t in ("unsigned long", "size_t", "unsigned long long"):
        return v & 0xFFFFFFFFFFFFFFFF
    if t in ("unsigned short",):
        return v & 0xFFFF
    if t in ("unsigned char",):
        return v & 0xFF
    return v


def default_obj(prog, cls, over=None):
    """An object of record `cls` with every declared field present: false / 0 / null / empty, then `over` applied.
    Used by rules that build symbolic receivers, so that an edit which starts reading another field of the same object is
    still interpreted (with that field at its neutral value) instead of leaving the supported subset."""
    it = Interp(prog, Oracle([]))
    o = Obj(cls)
    try:
        fields = it.all_fields(cls)
    except Unsupported:
        fields = []
    for f in fields:
        sk = f.get("sk")
        if sk == "bool":
            o.f[f["name"]] = False
        elif sk in ("int", "enum"):
            o.f[f["name"]] = 0
        elif sk == "float":
            o.f[f["name"]] = Fraction(0)
        elif sk == "pointer":
            o.f[f["name"]] = None
        elif sk == "record":
            try:
                o.f[f["name"]] = it.default_value(f["t"])
            except Exception:
                o.f[f["name"]] = UNINIT
        else:
            o.f[f["name"]] = UNINIT
    o.f.update(over or {})
    return o
