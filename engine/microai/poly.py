"""Exact multivariate polynomials / rational functions over named input symbols (Fractions only)."""
from fractions import Fraction


class Poly:
    __slots__ = ("t",)

    def __init__(self, terms=None):
        # terms: {monomial: Fraction}; monomial = tuple of (var, exp) sorted by var
        self.t = {m: c for m, c in (terms or {}).items() if c != 0}

    @staticmethod
    def const(c):
        return Poly({(): Fraction(c)})

    @staticmethod
    def var(name):
        return Poly({((name, 1),): Fraction(1)})

    def is_const(self):
        return all(m == () for m in self.t)

    def const_value(self):
        return self.t.get((), Fraction(0))

    def __add__(self, o):
        o = to_poly(o)
        r = dict(self.t)
        for m, c in o.t.items():
            r[m] = r.get(m, 0) + c
        return Poly(r)

    __radd__ = __add__

    def __neg__(self):
        return Poly({m: -c for m, c in self.t.items()})

    def __sub__(self, o):
        return self + (-to_poly(o))

    def __rsub__(self, o):
        return to_poly(o) - self

    def __mul__(self, o):
        o = to_poly(o)
        r = {}
        for m1, c1 in self.t.items():
            for m2, c2 in o.t.items():
                d = dict(m1)
                for v, e in m2:
                    d[v] = d.get(v, 0) + e
                m = tuple(sorted(d.items()))
                r[m] = r.get(m, 0) + c1 * c2
        return Poly(r)

    __rmul__ = __mul__

    def __eq__(self, o):
        if not isinstance(o, (Poly, int, Fraction)):
            return NotImplemented
        return self.t == to_poly(o).t

    def __hash__(self):
        return hash(tuple(sorted(self.t.items())))

    def vars(self):
        out = set()
        for m in self.t:
            for v, _e in m:
                out.add(v)
        return out

    def degree(self):
        return max((sum(e for _v, e in m) for m in self.t), default=0)

    def canonical(self):
        """(sign, canonical poly): self = sign * k * canon with k > 0; canon has a positive leading coefficient
        and integer coprime coefficients.  Used as the identity of a sign atom."""
        if not self.t:
            return 0, self
        lead = sorted(self.t)[-1]
        c = self.t[lead]
        s = 1 if c > 0 else -1
        # scale to integer coprime coefficients
        from math import gcd
        den = 1
        for v in self.t.values():
            den = den * v.denominator // gcd(den, v.denominator)
        ints = [int(v * den) for v in self.t.values()]
        g = 0
        for i in ints:
            g = gcd(g, abs(i))
        k = Fraction(den, g) * s
        return s, Poly({m: v * k for m, v in self.t.items()})

    def key(self):
        return tuple(sorted((m, (c.numerator, c.denominator)) for m, c in self.t.items()))

    def __repr__(self):
        if not self.t:
            return "0"
        parts = []
        for m, c in sorted(self.t.items()):
            ms = "*".join(v if e == 1 else "%s^%d" % (v, e) for v, e in m)
            if not ms:
                parts.append(str(c))
            elif c == 1:
                parts.append(ms)
            elif c == -1:
                parts.append("-" + ms)
            else:
                parts.append("%s*%s" % (c, ms))
        return " + ".join(parts).replace("+ -", "- ")

    def subst(self, var, repl):
        """Replace variable `var` by polynomial `repl`."""
        repl = to_poly(repl)
        out = Poly()
        for m, c in self.t.items():
            term = Poly.const(c)
            for v, e in m:
                base = repl if v == var else Poly.var(v)
                for _ in range(e):
                    term = term * base
            out = out + term
        return out

    def eval_np(self, env):
        """Evaluate over numpy integer arrays (env: var -> array).  Coefficients must be integers."""
        total = 0
        for m, c in self.t.items():
            if c.denominator != 1:
                raise ValueError("non-integer coefficient in grid evaluation: %r" % self)
            term = int(c)
            for v, e in m:
                for _ in range(e):
                    term = term * env[v]
            total = total + term
        return total

    def eval_exact(self, env):
        total = Fraction(0)
        for m, c in self.t.items():
            term = c
            for v, e in m:
                term = term * Fraction(env[v]) ** e
            total += term
        return total


def to_poly(x):
    if isinstance(x, Poly):
        return x
    if isinstance(x, bool):
        return Poly.const(int(x))
    if isinstance(x, (int, Fraction)):
        return Poly.const(x)
    raise TypeError("not polynomial: %r" % (x,))


class Rat:
    """num/den with den a non-constant polynomial (a quotient whose sign is decided through atoms)."""
    __slots__ = ("n", "d")

    def __init__(self, n, d):
        self.n = to_poly(n)
        self.d = to_poly(d)

    def __repr__(self):
        return "(%r)/(%r)" % (self.n, self.d)


def num_den(x):
    if isinstance(x, Rat):
        return x.n, x.d
    return to_poly(x), Poly.const(1)


def make_rat(n, d):
    n = to_poly(n)
    d = to_poly(d)
    if d.is_const():
        c = d.const_value()
        if c == 0:
            raise ZeroDivisionError("division by constant zero")
        return n * (Fraction(1) / c)
    return Rat(n, d)


def r_add(a, b):
    an, ad = num_den(a)
    bn, bd = num_den(b)
    if ad == bd:
        return make_rat(an + bn, ad)
    return make_rat(an * bd + bn * ad, ad * bd)


def r_neg(a):
    an, ad = num_den(a)
    return make_rat(-an, ad)


def r_sub(a, b):
    return r_add(a, r_neg(b))


def r_mul(a, b):
    an, ad = num_den(a)
    bn, bd = num_den(b)
    return make_rat(an * bn, ad * bd)


def r_div(a, b):
    an, ad = num_den(a)
    bn, bd = num_den(b)
    return make_rat(an * bd, ad * bn)
