"""C01 -- VPSC: every constraint is satisfied on return or reported unsatisfiable.

Decides:
  VERIFY-BEFORE-PUBLISH  every normal return of Solver::satisfy / Solver::refine / IncSolver::satisfy (both copies) is
                         dominated by a complete scan `for i in [0,m): if (cs[i]->slack() < ZERO_UPPERBOUND) throw`
  SOLVE-USES-SATISFY     solve() reaches its return only through satisfy() (and refine()), then copyResult()
  SLACK-FORM             Constraint::slack() is +DBL_MAX for flagged constraints and right - gap - left otherwise (symbolic)
  WHO-WRITES             only the enumerated functions write Constraint::unsatisfiable / Variable::finalPosition
  SIBLING                the two solver copies agree function by function
Not decided: that merging/splitting reaches feasibility; the iff-infeasible clause; finiteness.
"""
import json
import os
from fractions import Fraction

from ..astq import (strip, strip_casts, calls, call_args, call_object, writes, written_field, norm, literal_value, src,
                    single_assignment_locals)
from ..cfg import CFG
from ..facts import AnalysisBroken, VERIF, walk
from ..microai.interp import Interp, Obj, Box, enumerate_paths, AssertFail, Thrown, Unsupported
from ..microai.poly import Poly, Rat, to_poly, num_den
from ..rules import vpsc_siblings

SCAN_FUNCS = [
    ("vpsc::Solver::satisfy", "copyResult"),
    ("vpsc::Solver::refine", None),
    ("vpsc::IncSolver::satisfy", "copyResult"),
    ("Avoid::IncSolver::satisfy", "copyResult"),
]


def const_value(prog, n):
    n = strip_casts(n)
    v = literal_value(n)
    if v is not None:
        try:
            return Fraction(v)
        except Exception:
            return None
    if n is not None and n.get("k") == "DeclRefExpr" and n.get("rk") == "Var":
        g = prog.vars.get(n["ref"])
        if g is not None and "val" in g:
            try:
                return Fraction(g["val"])
            except Exception:
                from decimal import Decimal
                return Fraction(Decimal(g["val"]))
    return None


def find_scan_loops(prog, fn):
    """ForStmt nodes of the form  for (i = 0; i < m; ++i) { ... if (X->slack() < C) { ... throw } ... }  with C <= 0."""
    out = []
    sal = single_assignment_locals(fn)
    for n in fn.nodes():
        if n.get("k") != "ForStmt" or n.get("cond") is None:
            continue
        cond = strip(n["cond"])
        if cond.get("k") != "BinaryOperator" or cond.get("op") != "<":
            continue
        lhs, rhs = strip_casts(cond["ch"][0]), strip_casts(cond["ch"][1])
        if lhs.get("k") != "DeclRefExpr":
            continue
        ivar = lhs["did"]
        rn = norm(rhs)
        if rn != "m":
            continue
        # init: i = 0
        init_ok = False
        ini = n.get("init")
        if ini is not None:
            if ini.get("k") == "DeclStmt":
                for d in ini.get("decls", []):
                    if d.get("did") == ivar and d.get("init") is not None and literal_value(d["init"]) == "0":
                        init_ok = True
            else:
                i0 = strip(ini)
                if i0.get("k") == "BinaryOperator" and i0.get("op") == "=" and strip(i0["ch"][0]).get("did") == ivar \
                        and literal_value(i0["ch"][1]) == "0":
                    init_ok = True
        inc = strip(n.get("inc")) if n.get("inc") is not None else None
        inc_ok = inc is not None and inc.get("k") == "UnaryOperator" and inc.get("op") == "++" and strip(inc["ch"][0]).get("did") == ivar
        if not (init_ok and inc_ok):
            continue
        # the loop variable must not be written in the body
        body_writes = False
        for lhs2, node, op in writes(fn):
            l2 = strip(lhs2)
            if l2 is not None and l2.get("did") == ivar and node["id"] != (inc or {}).get("id"):
                if any(a is n.get("body") or a.get("id") == n["body"].get("id") for a in fn.ancestors(node)):
                    body_writes = True
        if body_writes:
            continue
        # the slack test
        for m in walk(n["body"]):
            if m.get("k") != "IfStmt":
                continue
            c = strip(m["cond"])
            if c.get("k") != "BinaryOperator" or c.get("op") not in ("<", "<="):
                continue
            cl = strip_casts(c["ch"][0])
            if cl.get("k") != "CXXMemberCallExpr" or not cl.get("cname", "").endswith("::Constraint::slack"):
                continue
            recv = norm(call_object(cl), None)
            # receiver: cs[i] directly or a local assigned from cs[i] in the loop body
            recv_ok = recv in ("cs[%s]" % lhs["ref"],)
            if not recv_ok:
                ro = strip_casts(call_object(cl))
                if ro is not None and ro.get("k") == "DeclRefExpr":
                    for lhs3, node3, op3 in writes(fn):
                        l3 = strip(lhs3)
                        if op3 == "=" and l3 is not None and l3.get("did") == ro.get("did") and norm(node3["ch"][1]) == "cs[%s]" % lhs["ref"]:
                            if any(a.get("id") == n["body"].get("id") for a in fn.ancestors(node3)):
                                recv_ok = True
            cv = const_value(prog, c["ch"][1])
            if not recv_ok or cv is None or cv > 0:
                continue
            out.append({"loop": n, "cond": cond, "test": c, "if": m, "threshold": cv})
    return out


def rule_verify_before_publish(chk, prog):
    r = chk.rule("VERIFY-BEFORE-PUBLISH", "every normal return (and every copyResult()) of the satisfy/refine functions is dominated by a "
                 "complete scan  for(i=0;i<m;++i) if (cs[i]->slack() < C<=0) throw ...;  no iteration can skip the test, the failing "
                 "branch always throws", floor=4)
    for fq, publish in SCAN_FUNCS:
        fn = prog.fn(fq)
        g = CFG(fn)
        loops = find_scan_loops(prog, fn)
        if not loops:
            r.bad(fq, fn.where(), "no complete constraint scan (for i in [0,m): if (cs[i]->slack() < threshold<=0) throw) found")
            continue
        pubs = [n for n in calls(fn) if publish and n.get("cname", "").endswith("::" + publish)]
        if publish and not pubs:
            raise AnalysisBroken("%s no longer calls %s" % (fq, publish))
        problem = None
        good = None
        for L in loops:
            cond_id = L["cond"]["id"]
            test_id = L["test"]["id"]
            if cond_id not in g.pos or test_id not in g.pos:
                continue
            prob = None
            # (1) publish points / normal exit dominated by the loop condition
            for p in pubs:
                w = g.must_precede([cond_id], p["id"])
                if w is not None:
                    prob = ("%s is reachable without running the scan: %s" % (src(p), g.describe(w)), p)
            w = g.search("entry", blocked=[cond_id], to_exit=True)
            if w is not None and prob is None:
                prob = ("the function can return without running the scan: %s" % g.describe(w), L["loop"])
            # (2) no iteration skips the test: from the loop body entry, reaching the condition again / leaving the loop
            cb, ci = g.pos[cond_id]
            # the block that evaluates the condition ends with the loop terminator; its first successor is the body
            tb = None
            for bid, blk in g.blocks.items():
                if blk.get("term") == L["loop"]["id"] and len(g.succs(bid, True)) == 2:
                    tb = bid
            if tb is None:
                raise AnalysisBroken("cannot locate the loop header block of the scan in %s" % fq)
            body_succ = g.blocks[tb]["succ"][0]
            if body_succ is not None and body_succ >= 0 and prob is None:
                w = g.search([(body_succ, 0)], blocked=[test_id], targets=[cond_id] + [p["id"] for p in pubs], to_exit=False)
                if w is None:
                    w = g.search([(body_succ, 0)], blocked=[test_id, cond_id], to_exit=True)
                if w is not None:
                    prob = ("an iteration of the scan can skip the slack test: %s" % g.describe(w), L["loop"])
            # (3) the failing branch throws on every path
            ib = None
            for bid, blk in g.blocks.items():
                if blk.get("term") == L["if"]["id"]:
                    ib = bid
            if ib is None:
                raise AnalysisBroken("cannot locate the slack test branch in %s" % fq)
            then_succ = g.blocks[ib]["succ"][0]
            if then_succ is not None and then_succ >= 0 and prob is None:
                w = g.search([(then_succ, 0)], targets=[cond_id] + [p["id"] for p in pubs]) or \
                    g.search([(then_succ, 0)], blocked=[cond_id], to_exit=True)
                if w is not None:
                    prob = ("a violated constraint does not always raise: %s" % g.describe(w), L["if"])
            r.count()
            if prob is None:
                good = L
                break
            problem = prob
        if good is not None:
            r.ok(fq, fn.loc(good["loop"]), "threshold %s" % float(good["threshold"]))
            chk.sample({"rule": "VERIFY-BEFORE-PUBLISH", "function": fq, "scan_loop": fn.loc(good["loop"]),
                        "threshold": float(good["threshold"]), "publish": [fn.loc(p) for p in pubs] or ["function exit"]})
        else:
            r.bad(fq, fn.loc(problem[1]), problem[0])


def rule_solve_uses_satisfy(chk, prog):
    r = chk.rule("SOLVE-USES-SATISFY", "solve() returns only after satisfy() (static solver: and refine()) and a final copyResult()", floor=3)
    for fq, need in (("vpsc::Solver::solve", ["satisfy", "refine", "copyResult"]),
                     ("vpsc::IncSolver::solve", ["satisfy", "copyResult"]),
                     ("Avoid::IncSolver::solve", ["satisfy", "copyResult"])):
        fn = prog.fn(fq)
        g = CFG(fn)
        bad = None
        last_ids = None
        for nm in need:
            ids = [n["id"] for n in calls(fn) if n.get("cname", "").endswith("::" + nm) and n["id"] in g.pos]
            if not ids:
                bad = "no call to %s()" % nm
                break
            w = g.exit_reachable_avoiding(ids)
            if w is not None:
                bad = "can return without calling %s(): %s" % (nm, g.describe(w))
                break
            last_ids = ids
        if bad is None:
            # copyResult is the last solver action: after it, no call to satisfy/refine/split/merge
            for cid in last_ids:
                movers = [n["id"] for n in calls(fn) if n.get("cname", "").split("::")[-1] in ("satisfy", "refine", "splitBlocks", "moveBlocks")]
                w = g.search([g.after(cid)], targets=movers)
                if w is not None:
                    bad = "blocks are modified after the final copyResult(): %s" % g.describe(w)
        r.count()
        if bad:
            r.bad(fq, fn.where(), bad)
        else:
            r.ok(fq, fn.where())


def sym_variable(tag, scale):
    blk = Obj("Block", {"posn": Poly.var(tag + "_posn"), "ps": Obj("PositionStats", {"scale": scale if scale is not None else Poly.var(tag + "_bscale")})})
    return Obj("Variable", {"scale": scale if scale is not None else Poly.var(tag + "_scale"), "offset": Poly.var(tag + "_off"),
                            "block": blk, "id": 0, "desiredPosition": Poly.var(tag + "_des"), "weight": Poly.var(tag + "_w")})


def rule_slack_form(chk, prog):
    r = chk.rule("SLACK-FORM", "Constraint::slack(): returns DBL_MAX when `unsatisfiable` (before touching positions); otherwise "
                 "(right position) - gap - (left position), with scaled positions when needsScaling (symbolic identity)", floor=2)
    for ns in ("vpsc", "Avoid"):
        fn = prog.fn(ns + "::Constraint::slack")
        vcls = ns + "::Variable"
        bad = None
        rows_n = 0
        for unsat in (True, False):
            for scaling in (True, False):
                one = Fraction(1)
                L = sym_variable("l", None if scaling else one)
                R = sym_variable("r", None if scaling else one)
                for o in (L, R):
                    o.cls = vcls
                    o.f["block"].cls = ns + "::Block"
                    o.f["block"].f["ps"].cls = ns + "::PositionStats"
                c = Obj(ns + "::Constraint", {"left": L, "right": R, "gap": Poly.var("gap"), "unsatisfiable": unsat,
                                              "needsScaling": scaling, "equality": False, "active": False})

                def run(o, c=c):
                    it = Interp(prog, o, lattice=False)
                    try:
                        return ("ret", it.call(fn, c, None, None, arg_values=[]))
                    except AssertFail as e:
                        return ("assert", str(e))
                try:
                    rows = enumerate_paths(run, limit=50)
                except Unsupported as e:
                    raise AnalysisBroken("%s::Constraint::slack outside the interpreter subset: %s" % (ns, e))
                rows_n += len(rows)
                for val, descr, out in rows:
                    if out[0] != "ret":
                        bad = "assertion can fail for unsatisfiable=%s needsScaling=%s: %s" % (unsat, scaling, out[1])
                        continue
                    v = out[1]
                    if unsat:
                        if not isinstance(v, Fraction) or v < Fraction(10) ** 300:
                            bad = "for a constraint flagged unsatisfiable slack() returns %r, not DBL_MAX" % (v,)
                    else:
                        def pos(o):
                            b = o.f["block"]
                            return to_poly(b.f["ps"].f["scale"]) * to_poly(b.f["posn"]) + to_poly(o.f["offset"])
                        want = pos(R) - Poly.var("gap") - pos(L)
                        n, d = num_den(v)
                        if n != want * d:
                            bad = "slack() = %r, expected right - gap - left = %r (needsScaling=%s)" % (v, want, scaling)
        r.count(rows_n)
        if bad:
            r.bad(ns + "::Constraint::slack", fn.where(), bad)
        else:
            r.ok(ns + "::Constraint::slack", fn.where())


def rule_who_writes(chk, prog):
    table = json.load(open(os.path.join(VERIF, "tables", "c01_writers.json")))
    r = chk.rule("WHO-WRITES", "the set of functions that store to Constraint::unsatisfiable (with the stored constant) and to "
                 "Variable::finalPosition equals the reviewed set in tables/c01_writers.json", floor=10)
    found = {}
    for f in prog.all_functions():
        if f.tmpl == "pattern":
            continue
        for i in f.d.get("inits", []):
            mq = i.get("mq")
            if mq and i.get("written") and mq.split("::", 1)[-1] in ("Constraint::unsatisfiable", "Variable::finalPosition"):
                v = literal_value(i.get("expr")) if i.get("expr") is not None else None
                found.setdefault(mq, {}).setdefault(f.q, set()).add(v if v in ("true", "false") else "value")
        for lhs, node, op in writes(f):
            fq, elem, mn = written_field(lhs)
            if fq and fq.split("::", 1)[-1] in ("Constraint::unsatisfiable", "Variable::finalPosition"):
                v = None
                if node.get("k") == "BinaryOperator":
                    v = literal_value(node["ch"][1])
                found.setdefault(fq, {}).setdefault(f.q, set()).add(v if v in ("true", "false") else "value")
    for field, writers in sorted(found.items()):
        allowed = table["writers"].get(field, {})
        for wq, vals in sorted(writers.items()):
            inst = "%s <- %s" % (field, wq)
            r.count()
            fn = prog.fns(wq)[0]
            if wq in allowed and vals <= set(allowed[wq]["values"]):
                r.ok(inst, fn.where(), allowed[wq]["why"])
            else:
                r.bad(inst, fn.where(), "%s stores %s to %s; not among the reviewed writers (%s)" % (
                    wq, sorted(vals), field, ", ".join(sorted(allowed)) or "none"))
    for field, allowed in table["writers"].items():
        for wq in allowed:
            if wq not in found.get(field, {}) and allowed[wq].get("required"):
                r.bad("%s <- %s" % (field, wq), "tables/c01_writers.json", "required writer no longer stores to the field")


def rule_merge_split(chk, prog):
    """Symbolic kernels: merging across a violated constraint makes it exactly tight; splitting partitions the block."""
    from .c02 import mkvar, mkcon, mkblock, run_all
    from ..microai.poly import r_add, r_sub, r_mul, r_div
    r = chk.rule("MERGE-TIGHT", "after Block::merge(b, c) (symbolic offsets, block sizes 1+1, 2+1, 1+2): all variables are in the surviving "
                 "block, c is active and exactly tight (right.offset - left.offset == gap), offsets inside each former block keep their "
                 "differences, the other block is marked deleted, and the new position is the least-squares stationary point", floor=2)
    r2 = chk.rule("SPLIT-PARTITION", "after Block::split(l, r, c) on a 3-chain: c is inactive, l holds exactly the variables on c's left "
                  "side and r those on its right, every variable points to its new block, offsets are unchanged", floor=2)
    for ns in ("vpsc", "Avoid"):
        fn = [f for f in prog.fns(ns + "::Block::merge") if len(f.params) == 2]
        if len(fn) != 1:
            raise AnalysisBroken("%s::Block::merge(Block*, Constraint*) not found" % ns)
        fn = fn[0]
        bad = None
        n_eval = 0
        for nl, nr in ((1, 1), (2, 1), (1, 2)):
            vs = [mkvar(ns, i, False) for i in range(nl + nr)]
            left, right = vs[:nl], vs[nl:]
            lb = mkblock(ns, left, False)
            rb = mkblock(ns, right, False)
            lb.f["posn"] = Poly.var("posnL")
            rb.f["posn"] = Poly.var("posnR")
            inner = []
            if nl == 2:
                inner.append(mkcon(ns, left[0], left[1], 7))
            if nr == 2:
                inner.append(mkcon(ns, right[0], right[1], 8))
            c = mkcon(ns, left[-1], right[0], 0)
            c.f["active"] = False
            try:
                rows = run_all(prog, fn, lb, [rb, c, vs])
            except Unsupported as e:
                raise AnalysisBroken("%s::Block::merge outside the interpreter subset: %s" % (ns, e))
            n_eval += len(rows)
            for val, descr, out in rows:
                if out[0] == "throw" and "division by zero" in out[1]:
                    continue
                if out[0] != "ret":
                    bad = "(%d+%d) assertion path: %s" % (nl, nr, out[1])
                    continue
                lb2, (rb2, c2, vs2) = out[2], out[3]
                surv = out[1]
                dead = rb2 if surv is lb2 else lb2
                if surv is not lb2 and surv is not rb2:
                    bad = "(%d+%d) returns a block that is neither of the two merged blocks" % (nl, nr)
                    continue
                if not dead.f["deleted"] or surv.f["deleted"]:
                    bad = "(%d+%d) deleted flags wrong after merge" % (nl, nr)
                if any(v.f["block"] is not surv for v in vs2):
                    bad = "(%d+%d) some variable is not in the surviving block" % (nl, nr)
                if len(surv.f["vars"].items) != nl + nr:
                    bad = "(%d+%d) surviving block lists %d variables" % (nl, nr, len(surv.f["vars"].items))
                if c2.f["active"] is not True:
                    bad = "(%d+%d) merged constraint not marked active" % (nl, nr)
                tight = to_poly(c2.f["right"].f["offset"]) - to_poly(c2.f["left"].f["offset"]) - to_poly(c2.f["gap"])
                if tight != Poly.const(0):
                    bad = "(%d+%d) merged constraint is not tight: right.offset - left.offset - gap = %r" % (nl, nr, tight)
                for grp, orig in ((vs2[:nl], left), (vs2[nl:], right)):
                    if len(grp) == 2:
                        d_new = to_poly(grp[1].f["offset"]) - to_poly(grp[0].f["offset"])
                        d_old = to_poly(orig[1].f["offset"]) - to_poly(orig[0].f["offset"])
                        if d_new != d_old:
                            bad = "(%d+%d) offsets inside a merged block changed relative to each other" % (nl, nr)
                total = Fraction(0)
                for v in surv.f["vars"].items:
                    x = r_add(surv.f["posn"], v.f["offset"])
                    total = r_add(total, r_mul(v.f["weight"], r_sub(x, v.f["desiredPosition"])))
                tn, td = num_den(total)
                if tn != Poly.const(0):
                    bad = "(%d+%d) merged block is not at its least-squares position (residual %r)" % (nl, nr, tn)
        r.count(n_eval)
        (r.bad if bad else r.ok)(ns + "::Block::merge", fn.where(), bad or "%d paths" % n_eval)
        # ---- split
        fs = prog.fn(ns + "::Block::split")
        bad = None
        n_eval = 0
        for cut in (0, 1):
            vs = [mkvar(ns, i, False) for i in range(3)]
            cs = [mkcon(ns, vs[0], vs[1], 0), mkcon(ns, vs[1], vs[2], 1)]
            b = mkblock(ns, vs, False)
            try:
                rows = run_all(prog, fs, b, [Box(None), Box(None), cs[cut], vs, cs])
            except Unsupported as e:
                raise AnalysisBroken("%s::Block::split outside the interpreter subset: %s" % (ns, e))
            n_eval += len(rows)
            for val, descr, out in rows:
                if out[0] == "throw" and "division by zero" in out[1]:
                    continue
                if out[0] != "ret":
                    bad = "cut %d: assertion path %s" % (cut, out[1])
                    continue
                lbox, rbox, c2, vs2, cs2 = out[3]
                l, rr = lbox.get(), rbox.get()
                if l is None or rr is None:
                    bad = "cut %d: split does not produce two blocks" % cut
                    continue
                want_l = set(range(0, cut + 1))
                got_l = set(v.f["id"] for v in l.f["vars"].items)
                got_r = set(v.f["id"] for v in rr.f["vars"].items)
                if c2.f["active"]:
                    bad = "cut %d: the split constraint stays active" % cut
                if got_l != want_l or got_r != set(range(3)) - want_l:
                    bad = "cut %d: left block holds %s, right block %s" % (cut, sorted(got_l), sorted(got_r))
                for v in vs2:
                    exp = l if v.f["id"] in want_l else rr
                    if v.f["block"] is not exp:
                        bad = "cut %d: variable %d does not point to its new block" % (cut, v.f["id"])
                    if to_poly(v.f["offset"]) != Poly.var("o%d" % v.f["id"]):
                        bad = "cut %d: offset of variable %d changed" % (cut, v.f["id"])
        r2.count(n_eval)
        (r2.bad if bad else r2.ok)(ns + "::Block::split", fs.where(), bad or "%d paths" % n_eval)


def rule_satisfy_loop(chk, prog):
    from ..rules.guards import path_condition, atoms, entails, show
    r = chk.rule("SATISFY-LOOP", "IncSolver::satisfy main loop (both copies): a constraint v taken by mostViolated() is, before the next "
                 "iteration, merged across (merge(.., v)), put back on the inactive list, or flagged unsatisfiable -- never silently dropped; "
                 "`unsatisfiable = true` is stored only (a) under isActiveDirectedPathBetween(v->right, v->left) [a cycle of active "
                 "constraints], (b) when splitBetween found no split constraint, (c) in the UnsatisfiableException handler", floor=2)
    for ns in ("vpsc", "Avoid"):
        fn = prog.fn(ns + "::IncSolver::satisfy")
        g = CFG(fn)
        bad = None
        loop = None
        for n in fn.nodes():
            if n.get("k") == "WhileStmt" and any(x.get("cname", "").endswith("IncSolver::mostViolated") for x in walk(n["cond"])):
                loop = n
        if loop is None:
            raise AnalysisBroken("%s::IncSolver::satisfy: main loop not found" % ns)
        handled = []
        flags = []
        for lhs, node, op in writes(fn):
            fq, elem, mn = written_field(lhs)
            if fq and fq.endswith("::Constraint::unsatisfiable") and literal_value(node["ch"][1]) == "true" and norm(strip(lhs)["ch"][0]) == "v":
                flags.append(node)
                handled.append(node["id"])
        for c in calls(fn):
            cn = c.get("cname", "")
            if cn.endswith("::Block::merge") and any(norm(a) == "v" for a in call_args(c)):
                handled.append(c["id"])
            if cn.endswith("::push_back") and norm(call_object(c)) == "inactive" and norm(call_args(c)[0]) == "v":
                handled.append(c["id"])
        w = g.iteration_can_skip(loop, handled)
        if w is not None:
            bad = "a constraint returned by mostViolated() can be dropped (neither merged, re-queued nor flagged): %s" % g.describe(w)
        # conditions of the flag stores
        seen = set()
        for f_ in flags:
            pc = path_condition(fn, f_, inline=False)
            ats = atoms(pc)
            catch = any(a.get("k") == "CXXCatchStmt" for a in fn.ancestors(f_))
            cyc = [a for a in ats if a.replace(" ", "") == "lb.isActiveDirectedPathBetween(v.right,v.left)"]
            nosplit = [a for a in ats if a.replace(" ", "") in ("(splitConstraint!=nullptr)", "(splitConstraint!=__null)")]
            if catch:
                seen.add("catch")
            elif cyc and entails(pc, ("atom", cyc[0])):
                seen.add("cycle")
            elif nosplit and entails(pc, ("not", ("atom", nosplit[0]))):
                seen.add("nosplit")
            else:
                bad = bad or "a constraint is flagged unsatisfiable under %s, which is none of the three legitimate situations" % show(pc)[:220]
        if seen != {"catch", "cycle", "nosplit"}:
            bad = bad or "flagging situations found: %s (expected cycle, no split constraint, exception handler)" % sorted(seen)
        r.count(len(flags) + 1)
        (r.bad if bad else r.ok)(ns + "::IncSolver::satisfy", fn.where(), bad or "%d flag stores, %d handling sites" % (len(flags), len(handled)))


def rule_scaling_flag(chk, prog):
    """slack() takes the unscaled shortcut when !needsScaling: every constraint whose ends are not both of scale 1 must carry the flag."""
    from ..microai.interp import default_obj, Oracle, Vec, Box
    import itertools
    r = chk.rule("SCALING-FLAG", "Solver::Solver(vs, cs) followed by IncSolver::addConstraint(c), interpreted for all scale patterns of three "
                 "variables (scale 1 or 2), every subset of initial constraints among the pairs and every later-added pair (both copies): "
                 "each constraint that ends on a variable with scale != 1 has needsScaling == true (slack() and the verification scan use "
                 "the unscaled positions otherwise, so a violated constraint is reported as satisfied)", floor=2)
    for ns in ("vpsc", "Avoid"):
        ctor = [f for f in prog.all_functions() if f.cls == ns + "::IncSolver" and f.kind == "ctor" and len(f.params) == 2]
        addc = prog.fn(ns + "::IncSolver::addConstraint")
        if len(ctor) != 1:
            raise AnalysisBroken("%s::IncSolver(vs, cs) constructor not found" % ns)
        n_cfg = 0
        bad = None
        nv = 4 if chk.tier == "thorough" else 3
        pairs = [(a, b) for a in range(nv) for b in range(a + 1, nv)]
        hooks = {ns + "::Blocks::Blocks": lambda it, n, env: None}
        for scales in itertools.product((1, 2), repeat=nv):
            for init_mask in range(1 << len(pairs)):
                for later in range(len(pairs)):
                    if init_mask & (1 << later):
                        continue
                    vs = [default_obj(prog, ns + "::Variable", {"id": i, "scale": Fraction(scales[i]), "weight": Fraction(1), "desiredPosition": Fraction(i),
                                                               "offset": Fraction(0), "in": Vec([], ns + "::Constraint *"),
                                                               "out": Vec([], ns + "::Constraint *")}) for i in range(nv)]
                    mk = lambda pr: default_obj(prog, ns + "::Constraint", {"left": vs[pr[0]], "right": vs[pr[1]], "gap": Fraction(1),
                                                                            "needsScaling": True})
                    init = [mk(pairs[k]) for k in range(len(pairs)) if init_mask & (1 << k)]
                    solver = default_obj(prog, ns + "::IncSolver", {})
                    it = Interp(prog, Oracle([]), hooks={ns + "::Blocks::Blocks*": (lambda it_, n, env: None)})
                    it.noop_new = True
                    try:
                        it.call(ctor[0], solver, None, None, arg_values=[Box(Vec(vs, ns + "::Variable *")), Box(Vec(init, ns + "::Constraint *"))])
                        c = mk(pairs[later])
                        c.f["needsScaling"] = True
                        it.call(addc, solver, None, None, arg_values=[c])
                    except (Unsupported, AssertFail) as e:
                        raise AnalysisBroken("%s::Solver construction outside the interpreter subset: %s" % (ns, e))
                    n_cfg += 1
                    for con in init + [c]:
                        l_, r_ = con.f["left"], con.f["right"]
                        if (l_.f["scale"] != 1 or r_.f["scale"] != 1) and not con.f["needsScaling"]:
                            bad = bad or ("scales %s, initial constraints %s, added later %s: the constraint between variables %d and %d "
                                          "(scales %s, %s) has needsScaling == false" % (
                                              list(scales), [pairs[k] for k in range(len(pairs)) if init_mask & (1 << k)], pairs[later],
                                              l_.f["id"], r_.f["id"], l_.f["scale"], r_.f["scale"]))
        r.count(n_cfg)
        (r.bad if bad else r.ok)(ns + "::Solver / IncSolver::addConstraint", ctor[0].where(), bad or "%d configurations" % n_cfg)


def rule_solver_takes_over(chk, prog):
    r = chk.rule("SOLVER-TAKES-OVER", "every solver constructor (vpsc::Solver, vpsc::IncSolver through its base, Avoid::IncSolver) clears "
                 "Constraint::active for EVERY constraint it is given, in a loop no iteration of which can skip the store: the blocks it "
                 "builds hold one variable each, so a flag left over from an earlier solver instance over the same constraints would make "
                 "reset_active_lm / compute_dfdv follow `active` constraints across blocks (unbounded recursion)", floor=3)
    for cls in ("vpsc::Solver", "vpsc::IncSolver", "Avoid::IncSolver"):
        chain = [cls] + [str(b) for b in (prog.records.get(cls) or {}).get("bases", [])]
        ok_at = None
        for c in chain:
            for f in prog.all_functions():
                if f.kind != "ctor" or f.cls != c or f.body is None or f.tmpl == "pattern" or f.d.get("copy"):
                    continue
                g = CFG(f)
                for lhs, node, op in writes(f):
                    if op != "=" or written_field(lhs)[0] != c.split("::")[0] + "::Constraint::active" or literal_value(node["ch"][1]) != "false":
                        continue
                    loops = [a for a in f.ancestors(node) if a.get("k") in ("ForStmt", "CXXForRangeStmt")]
                    if not loops:
                        continue
                    lp = loops[-1] if False else loops[0]
                    hdr = norm(lp.get("cond")) + " " + norm(lp.get("init")) + " " + norm(lp.get("range"))
                    if not any(t in hdr for t in ("< m)", "cs.", "inactive.", "cs)")):
                        continue
                    if g.iteration_can_skip(lp, [node["id"]]) is None:
                        ok_at = ok_at or (f, node)
        r.count()
        if ok_at:
            r.ok(cls, ok_at[0].loc(ok_at[1]))
        else:
            fs = [f for f in prog.all_functions() if f.kind == "ctor" and f.cls == cls and f.body is not None]
            r.bad(cls, fs[0].where() if fs else "", "no constructor of %s (or of its base) clears Constraint::active for all constraints" % cls)


def rule_add_constraint(chk, prog):
    r = chk.rule("ADD-CONSTRAINT-QUEUED", "IncSolver::addConstraint (both solver copies): on every path the new constraint is counted (++m), made "
                 "inactive, linked into its variables' in / out lists and appended to the `inactive` work list -- whatever its current slack "
                 "and wherever its variables are: a constraint that is not on the work list is never examined again, although a later split "
                 "of the block it lies in can make it violated", floor=2)
    for ns in ("vpsc", "Avoid"):
        fn = prog.fn(ns + "::IncSolver::addConstraint")
        g = CFG(fn)
        c = fn.params[0]["name"]
        r.count()
        bad = None
        need = {
            "appended to inactive": [x for x in calls(fn) if str(x.get("cname", "")).endswith("::push_back") and norm(call_object(x)) == "inactive" and norm(call_args(x)[0]) == c],
            "linked into left->out": [x for x in calls(fn) if str(x.get("cname", "")).endswith("::push_back") and norm(call_object(x)) == c + ".left.out"],
            "linked into right->in": [x for x in calls(fn) if str(x.get("cname", "")).endswith("::push_back") and norm(call_object(x)) == c + ".right.in"],
        }
        for what, sites in need.items():
            if not sites or g.exit_reachable_avoiding([x["id"] for x in sites]) is not None:
                bad = bad or "the constraint is not %s on every path" % what
        st = [node for lhs, node, op in writes(fn) if norm(lhs) == c + ".active" and literal_value(node["ch"][1]) == "false"]
        if not st or g.exit_reachable_avoiding([x["id"] for x in st]) is not None:
            bad = bad or "the constraint is not marked inactive on every path"
        (r.bad if bad else r.ok)(ns + "::IncSolver::addConstraint", fn.where(), bad or "")


def rule_heap_order(chk, prog):
    """The in/out constraint heaps of a block must hand out stale and internal constraints first, so that they are discarded."""
    from ..microai.interp import Oracle, default_obj
    import itertools
    r = chk.rule("HEAP-ORDER", "CompareConstraints::operator() (both solver copies) interpreted on all pairs of constraints over {fresh, stale "
                 "time stamp} x {between two blocks, internal to one block} x slack {-3, 0, 4} x ids: a constraint that is stale "
                 "(its left block was re-stamped after it was queued) OR internal to one block (left->block == right->block, e.g. just "
                 "merged, before the block is re-stamped) counts as slack -infinity, i.e. it comes out of the heap before every live "
                 "constraint and is thrown away by findMinInConstraint / mergeIn; live constraints are ordered by slack, ties by ids -- an "
                 "internal constraint with slack >= 0 that stays inside the heap can hide a violated one below it", floor=2)
    for ns in ("vpsc", "Avoid"):
        fn = prog.fn(ns + "::CompareConstraints::operator()")
        flip = (ns == "Avoid")

        def mk(kind, slack, lid, rid):
            stale, internal = kind
            bl = default_obj(prog, ns + "::Block", {"timeStamp": 5 if stale else 0, "posn": Fraction(0)})
            bl.f["ps"] = default_obj(prog, ns + "::PositionStats", {"scale": Fraction(1)})
            if internal:
                br = bl
            else:
                br = default_obj(prog, ns + "::Block", {"timeStamp": 0, "posn": Fraction(0)})
                br.f["ps"] = default_obj(prog, ns + "::PositionStats", {"scale": Fraction(1)})
            L = default_obj(prog, ns + "::Variable", {"id": lid, "block": bl, "scale": Fraction(1), "offset": Fraction(0)})
            R = default_obj(prog, ns + "::Variable", {"id": rid, "block": br, "scale": Fraction(1), "offset": Fraction(2 + slack)})
            return default_obj(prog, ns + "::Constraint", {"left": L, "right": R, "gap": Fraction(2), "timeStamp": 1, "needsScaling": False,
                                                             "unsatisfiable": False, "active": False, "equality": False})
        kinds = [(False, False), (True, False), (False, True), (True, True)]
        descr = {(False, False): "live", (True, False): "stale", (False, True): "internal", (True, True): "stale+internal"}
        cfgs = [(k, sl, ids) for k in kinds for sl in (-3, 0, 4) for ids in ((1, 2), (2, 3))]
        bad = None
        n = 0
        for a, b in itertools.product(cfgs, cfgs):
            c1, c2 = mk(a[0], a[1], *a[2]), mk(b[0], b[1], *b[2])
            it = Interp(prog, Oracle([]))
            try:
                got = it.call(fn, default_obj(prog, ns + "::CompareConstraints", {}), None, None, arg_values=[c1, c2])
            except (Unsupported, AssertFail) as e:
                raise AnalysisBroken("%s::CompareConstraints outside the interpreter subset: %s" % (ns, e))
            n += 1
            ka = None if (a[0][0] or a[0][1]) else a[1]          # None = -infinity
            kb = None if (b[0][0] or b[0][1]) else b[1]
            if ka == kb:
                want = a[2] < b[2]
            else:
                lt = (ka is None) or (kb is not None and ka < kb)
                want = (not lt) if flip else lt
            if bool(got) != want and bad is None:
                bad = "%s constraint (slack %s, ids %s) against %s constraint (slack %s, ids %s): returns %s, expected %s" % (
                    descr[a[0]], a[1], a[2], descr[b[0]], b[1], b[2], bool(got), want)
        r.count(n)
        (r.bad if bad else r.ok)(ns + "::CompareConstraints::operator()", fn.where(), bad or "%d pairs" % n)


def rule_publish_position(chk, prog):
    """What a caller reads after solve(): the positions the verified state gives, for every variable."""
    from ..microai.interp import Oracle, default_obj, Vec
    r = chk.rule("PUBLISH-IS-POSITION", "copyResult() (Solver, IncSolver, both copies) interpreted on three variables in two blocks, one of them "
                 "flagged fixedDesiredPosition and pushed away from its desired position: finalPosition of EVERY variable is exactly its "
                 "position() in the solved state ((block.scale * block.posn + offset) / scale) -- the final scans verified that state, and "
                 "nothing else (not the desired position of a `fixed` variable, whose weight is finite)", floor=2)
    for q in ("vpsc::Solver::copyResult", "vpsc::IncSolver::copyResult", "Avoid::IncSolver::copyResult"):
        fns = prog.fns(q)
        if not fns:
            if q == "vpsc::IncSolver::copyResult":
                continue                      # inherited from Solver
            raise AnalysisBroken("%s not found" % q)
        fn = fns[0]
        ns = q.split("::")[0]
        b1 = default_obj(prog, ns + "::Block", {"posn": Fraction(7), "timeStamp": 0})
        b1.f["ps"] = default_obj(prog, ns + "::PositionStats", {"scale": Fraction(2)})
        b2 = default_obj(prog, ns + "::Block", {"posn": Fraction(-4), "timeStamp": 0})
        b2.f["ps"] = default_obj(prog, ns + "::PositionStats", {"scale": Fraction(1)})
        vs = []
        for k, (blk, off, sc, des, fixed) in enumerate(((b1, 0, 2, 3, False), (b1, 6, 1, 100, True), (b2, 1, 1, -4, False))):
            vs.append(default_obj(prog, ns + "::Variable", {"id": k, "block": blk, "offset": Fraction(off), "scale": Fraction(sc), "desiredPosition": Fraction(des),
                                                           "fixedDesiredPosition": fixed, "finalPosition": Fraction(-999), "weight": Fraction(1)}))
        solver = default_obj(prog, q.rsplit("::", 1)[0], {"vs": Vec(list(vs), ns + "::Variable *")})
        it = Interp(prog, Oracle([]))
        r.count()
        try:
            it.call(fn, solver, None, None, arg_values=[])
        except (Unsupported, AssertFail) as e:
            raise AnalysisBroken("%s outside the interpreter subset: %s" % (q, e))
        bad = None
        for v in vs:
            want = (v.f["block"].f["ps"].f["scale"] * v.f["block"].f["posn"] + v.f["offset"]) / v.f["scale"]
            if Fraction(v.f["finalPosition"]) != want:
                bad = bad or "variable %d (%s): finalPosition = %s, its position in the solved state is %s" % (
                    v.f["id"], "fixedDesiredPosition" if v.f["fixedDesiredPosition"] else "free", v.f["finalPosition"], want)
        (r.bad if bad else r.ok)(q, fn.where(), bad or "")


def rule_static_solver_equalities(chk, prog):
    from ..callgraph import CallGraph
    r = chk.rule("STATIC-SOLVER-SEES-EQUALITIES", "an equality left+gap==right is violated by POSITIVE slack too.  The incremental solver's work-list "
                 "selection (mostViolated) looks at Constraint::equality; for the static vpsc::Solver the call-graph closure of satisfy() "
                 "(mergeLeft / mergeRight merge only across negative slack, the final scan tests slack < -1e-10) must read that flag "
                 "somewhere -- otherwise an equality whose ends start further apart than its gap is neither enforced nor flagged "
                 "(a desired 0, b desired 10, a+5==b: result 0, 10, unflagged)", floor=1)
    cg = CallGraph(prog)
    bykey = {f.key: f for f in prog.all_functions()}
    for q, ns in (("vpsc::Solver::satisfy", "vpsc"),):
        fn = prog.fn(q)
        r.count()
        readers = set()
        for k in cg.reachable([fn.key]):
            f = bykey.get(k)
            if f is None or not f.body or not f.q.startswith(ns + "::") or f.q.startswith(ns + "::operator<<"):
                continue
            if any(n.get("k") == "MemberExpr" and n.get("ref") == ns + "::Constraint::equality" for n in f.nodes()):
                readers.add(f.q)
        (r.ok if readers else r.bad)("static solver satisfy()", fn.where(), ("read in %s" % sorted(readers)) if readers else
                                     "nothing that satisfy() reaches looks at Constraint::equality: equalities are treated as inequalities")


def run(chk):
    prog = chk.load()
    chk.guard(rule_static_solver_equalities, chk, prog)
    from . import c02 as _c02
    _c02.PROG[0] = prog
    chk.guard(rule_verify_before_publish, chk, prog)
    chk.guard(rule_satisfy_loop, chk, prog)
    chk.guard(rule_merge_split, chk, prog)
    chk.guard(rule_solve_uses_satisfy, chk, prog)
    chk.guard(rule_slack_form, chk, prog)
    chk.guard(rule_scaling_flag, chk, prog)
    chk.guard(rule_who_writes, chk, prog)
    chk.guard(rule_solver_takes_over, chk, prog)
    chk.guard(rule_add_constraint, chk, prog)
    chk.guard(rule_heap_order, chk, prog)
    chk.guard(rule_publish_position, chk, prog)
    r = chk.rule("SIBLING", "every function of libavoid's solver copy (libavoid/vpsc.{h,cpp}) is structurally identical to its libvpsc "
                 "counterpart after alpha-renaming, dropping assertions/casts and unifying the heap ADT (tables/siblings.json lists the "
                 "deliberate differences)", floor=60)
    vpsc_siblings.check(r, prog, sample=chk.sample)
    from ..rules import mirrors
    r = chk.rule("MIRROR", "left/right and in/out twins inside each solver copy (canFollowLeft/Right, mergeIn/Out, deleteMinIn/OutConstraint, "
                 "setUpIn/OutConstraints) stay exact mirror images (tables/mirrors.json)", floor=8)
    mirrors.check(r, prog, ["vpsc::Block::", "Avoid::Block::"])
