"""C01 -- VPSC: every constraint is satisfied on return or reported unsatisfiable.

Decides:
  VERIFY-BEFORE-PUBLISH  every normal return of Solver::satisfy / Solver::refine / IncSolver::satisfy (both copies) is
                         dominated by a complete scan `for i in [0,m): if (cs[i]->slack() < ZERO_UPPERBOUND) throw`
  SOLVE-USES-SATISFY     solve() reaches its return only through satisfy() (and refine()), then copyResult()
  SLACK-FORM             Constraint::slack() is +DBL_MAX for flagged constraints and right - gap - left otherwise (symbolic)
  WHO-WRITES             only the enumerated functions write Constraint::unsatisfiable / Variable::finalPosition
  SIBLING                the two solver copies agree function by function
Not decided: that merging/splitting reaches feasibility; the iff-infeasible clause; finiteness.
"""
import json
import os
from fractions import Fraction

from ..astq import (strip, strip_casts, calls, call_args, call_object, writes, written_field, norm, literal_value, src,
                    single_assignment_locals)
from ..cfg import CFG
from ..facts import AnalysisBroken, VERIF, walk
from ..microai.interp import Interp, Obj, Box, enumerate_paths, AssertFail, Thrown, Unsupported
from ..microai.poly import Poly, Rat, to_poly, num_den
from ..rules import vpsc_siblings

SCAN_FUNCS = [
    ("vpsc::Solver::satisfy", "copyResult"),
    ("vpsc::Solver::refine", None),
    ("vpsc::IncSolver::satisfy", "copyResult"),
    ("Avoid::IncSolver::satisfy", "copyResult"),
]


def const_value(prog, n):
    n = strip_casts(n)
    v = literal_value(n)
    if v is not None:
        try:
            return Fraction(v)
        except Exception:
            return None
    if n is not None and n.get("k") == "DeclRefExpr" and n.get("rk") == "Var":
        g = prog.vars.get(n["ref"])
        if g is not None and "val" in g:
            try:
                return Fraction(g["val"])
            except Exception:
                from decimal import Decimal
                return Fraction(Decimal(g["val"]))
    return None


def find_scan_loops(prog, fn):
    """ForStmt nodes of the form  for (i = 0; i < m; ++i) { ... if (X->slack() < C) { ... throw } ... }  with C <= 0."""
    out = []
    sal = single_assignment_locals(fn)
    for n in fn.nodes():
        if n.get("k") != "ForStmt" or n.get("cond") is None:
            continue
        cond = strip(n["cond"])
        if cond.get("k") != "BinaryOperator" or cond.get("op") != "<":
            continue
        lhs, rhs = strip_casts(cond["ch"][0]), strip_casts(cond["ch"][1])
        if lhs.get("k") != "DeclRefExpr":
            continue
        ivar = lhs["did"]
        rn = norm(rhs)
        if rn != "m":
            continue
        # init: i = 0
        init_ok = False
        ini = n.get("init")
        if ini is not None:
            if ini.get("k") == "DeclStmt":
                for d in ini.get("decls", []):
                    if d.get("did") == ivar and d.get("init") is not None and literal_value(d["init"]) == "0":
                        init_ok = True
            else:
                i0 = strip(ini)
                if i0.get("k") == "BinaryOperator" and i0.get("op") == "=" and strip(i0["ch"][0]).get("did") == ivar \
                        and literal_value(i0["ch"][1]) == "0":
                    init_ok = True
        inc = strip(n.get("inc")) if n.get("inc") is not None else None
        inc_ok = inc is not None and inc.get("k") == "UnaryOperator" and inc.get("op") == "++" and strip(inc["ch"][0]).get("did") == ivar
        if not (init_ok and inc_ok):
            continue
        # the loop variable must not be written in the body
        body_writes = False
        for lhs2, node, op in writes(fn):
            l2 = strip(lhs2)
            if l2 is not None and l2.get("did") == ivar and node["id"] != (inc or {}).get("id"):
                if any(a is n.get("body") or a.get("id") == n["body"].get("id") for a in fn.ancestors(node)):
                    body_writes = True
        if body_writes:
            continue
        # the slack test
        for m in walk(n["body"]):
            if m.get("k") != "IfStmt":
                continue
            c = strip(m["cond"])
            if c.get("k") != "BinaryOperator" or c.get("op") not in ("<", "<="):
                continue
            cl = strip_casts(c["ch"][0])
            if cl.get("k") != "CXXMemberCallExpr" or not cl.get("cname", "").endswith("::Constraint::slack"):
                continue
            recv = norm(call_object(cl), None)
            # receiver: cs[i] directly or a local assigned from cs[i] in the loop body
            recv_ok = recv in ("cs[%s]" % lhs["ref"],)
            if not recv_ok:
                ro = strip_casts(call_object(cl))
                if ro is not None and ro.get("k") == "DeclRefExpr":
                    for lhs3, node3, op3 in writes(fn):
                        l3 = strip(lhs3)
                        if op3 == "=" and l3 is not None and l3.get("did") == ro.get("did") and norm(node3["ch"][1]) == "cs[%s]" % lhs["ref"]:
                            if any(a.get("id") == n["body"].get("id") for a in fn.ancestors(node3)):
                                recv_ok = True
            cv = const_value(prog, c["ch"][1])
            if not recv_ok or cv is None or cv > 0:
                continue
            out.append({"loop": n, "cond": cond, "test": c, "if": m, "threshold": cv})
    return out


def rule_verify_before_publish(chk, prog):
    r = chk.rule("VERIFY-BEFORE-PUBLISH", "every normal return (and every copyResult()) of the satisfy/refine functions is dominated by a "
                 "complete scan  for(i=0;i<m;++i) if (cs[i]->slack() < C<=0) throw ...;  no iteration can skip the test, the failing "
                 "branch always throws", floor=4)
    for fq, publish in SCAN_FUNCS:
        fn = prog.fn(fq)
        g = CFG(fn)
        loops = find_scan_loops(prog, fn)
        if not loops:
            r.bad(fq, fn.where(), "no complete constraint scan (for i in [0,m): if (cs[i]->slack() < threshold<=0) throw) found")
            continue
        pubs = [n for n in calls(fn) if publish and n.get("cname", "").endswith("::" + publish)]
        if publish and not pubs:
            raise AnalysisBroken("%s no longer calls %s" % (fq, publish))
        problem = None
        good = None
        for L in loops:
            cond_id = L["cond"]["id"]
            test_id = L["test"]["id"]
            if cond_id not in g.pos or test_id not in g.pos:
                continue
            prob = None
            # (1) publish points / normal exit dominated by the loop condition
            for p in pubs:
                w = g.must_precede([cond_id], p["id"])
                if w is not None:
                    prob = ("%s is reachable without running the scan: %s" % (src(p), g.describe(w)), p)
            w = g.search("entry", blocked=[cond_id], to_exit=True)
            if w is not None and prob is None:
                prob = ("the function can return without running the scan: %s" % g.describe(w), L["loop"])
            # (2) no iteration skips the test: from the loop body entry, reaching the condition again / leaving the loop
            cb, ci = g.pos[cond_id]
            # the block that evaluates the condition ends with the loop terminator; its first successor is the body
            tb = None
            for bid, blk in g.blocks.items():
                if blk.get("term") == L["loop"]["id"] and len(g.succs(bid, True)) == 2:
                    tb = bid
            if tb is None:
                raise AnalysisBroken("cannot locate the loop header block of the scan in %s" % fq)
            body_succ = g.blocks[tb]["succ"][0]
            if body_succ is not None and body_succ >= 0 and prob is None:
                w = g.search([(body_succ, 0)], blocked=[test_id], targets=[cond_id] + [p["id"] for p in pubs], to_exit=False)
                if w is None:
                    w = g.search([(body_succ, 0)], blocked=[test_id, cond_id], to_exit=True)
                if w is not None:
                    prob = ("an iteration of the scan can skip the slack test: %s" % g.describe(w), L["loop"])
            # (3) the failing branch throws on every path
            ib = None
            for bid, blk in g.blocks.items():
                if blk.get("term") == L["if"]["id"]:
                    ib = bid
            if ib is None:
                raise AnalysisBroken("cannot locate the slack test branch in %s" % fq)
            then_succ = g.blocks[ib]["succ"][0]
            if then_succ is not None and then_succ >= 0 and prob is None:
                w = g.search([(then_succ, 0)], targets=[cond_id] + [p["id"] for p in pubs]) or \
                    g.search([(then_succ, 0)], blocked=[cond_id], to_exit=True)
                if w is not None:
                    prob = ("a violated constraint does not always raise: %s" % g.describe(w), L["if"])
            r.count()
            if prob is None:
                good = L
                break
            problem = prob
        if good is not None:
            r.ok(fq, fn.loc(good["loop"]), "threshold %s" % float(good["threshold"]))
            chk.sample({"rule": "VERIFY-BEFORE-PUBLISH", "function": fq, "scan_loop": fn.loc(good["loop"]),
                        "threshold": float(good["threshold"]), "publish": [fn.loc(p) for p in pubs] or ["function exit"]})
        else:
            r.bad(fq, fn.loc(problem[1]), problem[0])


def rule_solve_uses_satisfy(chk, prog):
    r = chk.rule("SOLVE-USES-SATISFY", "solve() returns only after satisfy() (static solver: and refine()) and a final copyResult()", floor=3)
    for fq, need in (("vpsc::Solver::solve", ["satisfy", "refine", "copyResult"]),
                     ("vpsc::IncSolver::solve", ["satisfy", "copyResult"]),
                     ("Avoid::IncSolver::solve", ["satisfy", "copyResult"])):
        fn = prog.fn(fq)
        g = CFG(fn)
        bad = None
        last_ids = None
        for nm in need:
            ids = [n["id"] for n in calls(fn) if n.get("cname", "").endswith("::" + nm) and n["id"] in g.pos]
            if not ids:
                bad = "no call to %s()" % nm
                break
            w = g.exit_reachable_avoiding(ids)
            if w is not None:
                bad = "can return without calling %s(): %s" % (nm, g.describe(w))
                break
            last_ids = ids
        if bad is None:
            # copyResult is the last solver action: after it, no call to satisfy/refine/split/merge
            for cid in last_ids:
                movers = [n["id"] for n in calls(fn) if n.get("cname", "").split("::")[-1] in ("satisfy", "refine", "splitBlocks", "moveBlocks")]
                w = g.search([g.after(cid)], targets=movers)
                if w is not None:
                    bad = "blocks are modified after the final copyResult(): %s" % g.describe(w)
        r.count()
        if bad:
            r.bad(fq, fn.where(), bad)
        else:
            r.ok(fq, fn.where())


def sym_variable(tag, scale):
    blk = Obj("Block", {"posn": Poly.var(tag + "_posn"), "ps": Obj("PositionStats", {"scale": scale if scale is not None else Poly.var(tag + "_bscale")})})
    return Obj("Variable", {"scale": scale if scale is not None else Poly.var(tag + "_scale"), "offset": Poly.var(tag + "_off"),
                            "block": blk, "id": 0, "desiredPosition": Poly.var(tag + "_des"), "weight": Poly.var(tag + "_w")})


def rule_slack_form(chk, prog):
    r = chk.rule("SLACK-FORM", "Constraint::slack(): returns DBL_MAX when `unsatisfiable` (before touching positions); otherwise "
                 "(right position) - gap - (left position), with scaled positions when needsScaling (symbolic identity)", floor=2)
    for ns in ("vpsc", "Avoid"):
        fn = prog.fn(ns + "::Constraint::slack")
        vcls = ns + "::Variable"
        bad = None
        rows_n = 0
        for unsat in (True, False):
            for scaling in (True, False):
                one = Fraction(1)
                L = sym_variable("l", None if scaling else one)
                R = sym_variable("r", None if scaling else one)
                for o in (L, R):
                    o.cls = vcls
                    o.f["block"].cls = ns + "::Block"
                    o.f["block"].f["ps"].cls = ns + "::PositionStats"
                c = Obj(ns + "::Constraint", {"left": L, "right": R, "gap": Poly.var("gap"), "unsatisfiable": unsat,
                                              "needsScaling": scaling, "equality": False, "active": False})

                def run(o, c=c):
                    it = Interp(prog, o, lattice=False)
                    try:
                        return ("ret", it.call(fn, c, None, None, arg_values=[]))
                    except AssertFail as e:
                        return ("assert", str(e))
                try:
                    rows = enumerate_paths(run, limit=50)
                except Unsupported as e:
                    raise AnalysisBroken("%s::Constraint::slack outside the interpreter subset: %s" % (ns, e))
                rows_n += len(rows)
                for val, descr, out in rows:
                    if out[0] != "ret":
                        bad = "assertion can fail for unsatisfiable=%s needsScaling=%s: %s" % (unsat, scaling, out[1])
                        continue
                    v = out[1]
                    if unsat:
                        if not isinstance(v, Fraction) or v < Fraction(10) ** 300:
                            bad = "for a constraint flagged unsatisfiable slack() returns %r, not DBL_MAX" % (v,)
                    else:
                        def pos(o):
                            b = o.f["block"]
                            return to_poly(b.f["ps"].f["scale"]) * to_poly(b.f["posn"]) + to_poly(o.f["offset"])
                        want = pos(R) - Poly.var("gap") - pos(L)
                        n, d = num_den(v)
                        if n != want * d:
                            bad = "slack() = %r, expected right - gap - left = %r (needsScaling=%s)" % (v, want, scaling)
        r.count(rows_n)
        if bad:
            r.bad(ns + "::Constraint::slack", fn.where(), bad)
        else:
            r.ok(ns + "::Constraint::slack", fn.where())


def rule_who_writes(chk, prog):
    table = json.load(open(os.path.join(VERIF, "tables", "c01_writers.json")))
    r = chk.rule("WHO-WRITES", "the set of functions that store to Constraint::unsatisfiable (with the stored constant) and to "
                 "Variable::finalPosition equals the reviewed set in tables/c01_writers.json", floor=10)
    found = {}
    for f in prog.all_functions():
        if f.tmpl == "pattern":
            continue
        for i in f.d.get("inits", []):
            mq = i.get("mq")
            if mq and i.get("written") and mq.split("::", 1)[-1] in ("Constraint::unsatisfiable", "Variable::finalPosition"):
                v = literal_value(i.get("expr")) if i.get("expr") is not None else None
                found.setdefault(mq, {}).setdefault(f.q, set()).add(v if v in ("true", "false") else "value")
        for lhs, node, op in writes(f):
            fq, elem, mn = written_field(lhs)
            if fq and fq.split("::", 1)[-1] in ("Constraint::unsatisfiable", "Variable::finalPosition"):
                v = None
                if node.get("k") == "BinaryOperator":
                    v = literal_value(node["ch"][1])
                found.setdefault(fq, {}).setdefault(f.q, set()).add(v if v in ("true", "false") else "value")
    for field, writers in sorted(found.items()):
        allowed = table["writers"].get(field, {})
        for wq, vals in sorted(writers.items()):
            inst = "%s <- %s" % (field, wq)
            r.count()
            fn = prog.fns(wq)[0]
            if wq in allowed and vals <= set(allowed[wq]["values"]):
                r.ok(inst, fn.where(), allowed[wq]["why"])
            else:
                r.bad(inst, fn.where(), "%s stores %s to %s; not among the reviewed writers (%s)" % (
                    wq, sorted(vals), field, ", ".join(sorted(allowed)) or "none"))
    for field, allowed in table["writers"].items():
        for wq in allowed:
            if wq not in found.get(field, {}) and allowed[wq].get("required"):
                r.bad("%s <- %s" % (field, wq), "tables/c01_writers.json", "required writer no longer stores to the field")


def run(chk):
    prog = chk.load()
    rule_verify_before_publish(chk, prog)
    rule_solve_uses_satisfy(chk, prog)
    rule_slack_form(chk, prog)
    rule_who_writes(chk, prog)
    r = chk.rule("SIBLING", "every function of libavoid's solver copy (libavoid/vpsc.{h,cpp}) is structurally identical to its libvpsc "
                 "counterpart after alpha-renaming, dropping assertions/casts and unifying the heap ADT (tables/siblings.json lists the "
                 "deliberate differences)", floor=60)
    vpsc_siblings.check(r, prog, sample=chk.sample)
