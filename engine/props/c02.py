"""C02 -- VPSC optimality: the structural / algebraic clauses.

The statement is a numerical optimum; what is decided here are the algebraic identities the optimum rests on,
by symbolic interpretation of the solver's small arithmetic kernels (no execution), for both solver copies:
  BLOCK-OPTIMUM   Block::updateWeightedPosition / addVariable place the block at the stationary point of
                  sum w_i (x_i - d_i)^2  with  x_i = (scale_b*posn + offset_i)/scale_i      (rational identity)
  DFDV-FORM       Variable::dfdv() = 2 w (position - desired);  Block::cost() = sum w (position - desired)^2
  LM-KKT          compute_dfdv (both overloads) assigns to every active constraint of a block tree the multiplier
                  required by KKT stationarity at every non-root variable (chain and star shaped blocks, scaled)
  SIBLING         the two copies of the solver agree function by function
Not decided: that the merge/split iteration terminates at the global optimum.
"""
import copy
import re
import os
from fractions import Fraction

from ..facts import AnalysisBroken, walk
from .. import facts as _facts
from ..astq import calls, writes, written_field, norm, literal_value
from ..microai.interp import Interp, Obj, Vec, Box, enumerate_paths, AssertFail, Thrown, Unsupported
from ..microai.poly import Poly, Rat, to_poly, num_den
from ..rules import vpsc_siblings


PROG = [None]


def D(cls, fields):
    from ..microai.interp import default_obj
    return default_obj(PROG[0], cls, fields) if PROG[0] is not None else Obj(cls, fields)


def mkvar(ns, i, scaled):
    s = Poly.var("s%d" % i) if scaled else Fraction(1)
    return D(ns + "::Variable", {"id": i, "desiredPosition": Poly.var("d%d" % i), "finalPosition": Fraction(0),
                                   "weight": Poly.var("w%d" % i), "scale": s, "offset": Poly.var("o%d" % i), "block": None,
                                   "visited": False, "fixedDesiredPosition": False, "in": Vec([], ns + "::Constraint *"),
                                   "out": Vec([], ns + "::Constraint *")})


def mkcon(ns, l, r, i, equality=False):
    c = D(ns + "::Constraint", {"left": l, "right": r, "gap": Poly.var("g%d" % i), "lm": Poly.var("lm_unset%d" % i), "timeStamp": 0,
                                  "active": True, "equality": equality, "unsatisfiable": False, "needsScaling": True, "creator": None})
    l.f["out"].items.append(c)
    r.f["in"].items.append(c)
    return c


def mkblock(ns, vs, scaled):
    b = D(ns + "::Block", {"vars": Vec(list(vs), ns + "::Variable *"), "posn": Poly.var("posn"),
                             "ps": D(ns + "::PositionStats", {"scale": Poly.var("S") if scaled else Fraction(1),
                                                                "AB": Fraction(0), "AD": Fraction(0), "A2": Fraction(0)}),
                             "deleted": False, "timeStamp": 0, "in": None, "out": None, "blocks": None})
    from ..microai.poly import r_add, r_mul, r_div
    S = b.f["ps"].f["scale"]
    AB = AD = A2 = Fraction(0)
    for v in vs:
        v.f["block"] = b
        a = r_div(S, v.f["scale"])
        bi = r_div(v.f["offset"], v.f["scale"])
        AB = r_add(AB, r_mul(r_mul(v.f["weight"], a), bi))
        AD = r_add(AD, r_mul(r_mul(v.f["weight"], a), v.f["desiredPosition"]))
        A2 = r_add(A2, r_mul(r_mul(v.f["weight"], a), a))
    b.f["ps"].f["AB"], b.f["ps"].f["AD"], b.f["ps"].f["A2"] = AB, AD, A2     # consistent accumulated statistics
    return b


def position(v):
    b = v.f["block"]
    n, d = num_den(b.f["ps"].f["scale"]), None
    S = to_poly(b.f["ps"].f["scale"])
    return (S * to_poly(b.f["posn"]) + to_poly(v.f["offset"])), to_poly(v.f["scale"])    # numerator, denominator


def rat_eq(a, b):
    an, ad = num_den(a)
    bn, bd = num_den(b)
    return an * bd == bn * ad


def rat(n, d=1):
    from ..microai.poly import make_rat
    return make_rat(n, d)


def run_all(prog, fn, this, args, limit=4000):
    def run(o):
        it = Interp(prog, o, lattice=False)
        t, a = copy.deepcopy((this, args))
        try:
            rv = it.call(fn, t, None, None, arg_values=a)
            return ("ret", rv, t, a)
        except AssertFail as e:
            return ("assert", str(e), t, a)
        except Thrown as e:
            return ("throw", str(e), t, a)
    return enumerate_paths(run, limit=limit)


def rule_merge_optimum(chk, prog):
    from ..microai.poly import r_add, r_sub, r_mul, r_div
    r = chk.rule("MERGE-OPTIMUM", "Block::merge(b, c, dist) interpreted symbolically on a block of two variables absorbing a block of one and of two "
                 "(weights, desired positions, offsets, and -- in libvpsc -- per-variable scales and the two blocks' reference scales all "
                 "symbolic): afterwards every variable belongs to the receiving block with its offset shifted by dist, and the block position "
                 "is again the stationary point of the weighted least-squares objective over ALL its variables -- the accumulated sums AD, "
                 "AB, A2 are those of the union, whatever the two blocks' scales", floor=4)
    for ns in ("vpsc", "Avoid"):
        fns = [f for f in prog.fns(ns + "::Block::merge") if f.body and len(f.params) == 3]
        if len(fns) != 1:
            raise AnalysisBroken("%s::Block::merge(b, c, dist) not found" % ns)
        fn = fns[0]
        for scaled in ((False, True) if ns == "vpsc" else (False,)):
            for kb in (1, 2):
                r.count()
                va = [mkvar(ns, i, scaled) for i in range(2)]
                vb = [mkvar(ns, 2 + i, scaled) for i in range(kb)]
                A = mkblock(ns, va, scaled)
                B = mkblock(ns, vb, scaled)
                if scaled:
                    B.f["ps"].f["scale"] = Poly.var("T")
                    # B's own sums for its own reference scale (mkblock used S): recompute
                    S = B.f["ps"].f["scale"]
                    AB = AD = A2 = Fraction(0)
                    for v in vb:
                        a = r_div(S, v.f["scale"])
                        bi = r_div(v.f["offset"], v.f["scale"])
                        AB = r_add(AB, r_mul(r_mul(v.f["weight"], a), bi))
                        AD = r_add(AD, r_mul(r_mul(v.f["weight"], a), v.f["desiredPosition"]))
                        A2 = r_add(A2, r_mul(r_mul(v.f["weight"], a), a))
                    B.f["ps"].f["AB"], B.f["ps"].f["AD"], B.f["ps"].f["A2"] = AB, AD, A2
                B.f["posn"] = Poly.var("posnB")
                c = mkcon(ns, va[1], vb[0], 0)
                c.f["active"] = False
                inst = "%s::Block::merge, block of 2 absorbs block of %d%s" % (ns, kb, ", scaled" if scaled else "")
                try:
                    rows = run_all(prog, fn, A, [B, c, Poly.var("dist")])
                except Unsupported as e:
                    raise AnalysisBroken("%s outside the interpreter subset: %s" % (inst, e))
                bad = None
                for val, descr, out in rows:
                    if out[0] == "throw" and "division by zero" in out[1]:
                        continue
                    if out[0] != "ret":
                        if out[0] == "assert" and "NOTNAN" in out[1].upper():
                            continue
                        bad = bad or "path ends in %s: %s" % (out[0], out[1])
                        continue
                    bb, (b2, c2, _d) = out[2], out[3]
                    if scaled and to_poly(bb.f["ps"].f["scale"]) != to_poly(Poly.var("S")):
                        continue        # the `A2 == 0` branch of addVariable (a block without weight): infeasible for positive weights
                    vs_all = bb.f["vars"].items
                    if len(vs_all) != 2 + kb:
                        bad = bad or "the receiving block has %d variables afterwards, expected %d" % (len(vs_all), 2 + kb)
                        continue
                    posn = bb.f["posn"]
                    S = to_poly(bb.f["ps"].f["scale"])
                    total = Fraction(0)
                    for i_, v in enumerate(vs_all):
                        if v.f["block"] is not bb:
                            bad = bad or "variable %d does not point to the receiving block" % v.f["id"]
                        want_o = to_poly(Poly.var("o%d" % v.f["id"])) + (to_poly(Poly.var("dist")) if v.f["id"] >= 2 else 0)
                        if to_poly(v.f["offset"]) != want_o:
                            bad = bad or "offset of variable %d is %r, expected %r" % (v.f["id"], v.f["offset"], want_o)
                        s_i = to_poly(v.f["scale"])
                        w, o, d = to_poly(v.f["weight"]), to_poly(v.f["offset"]), to_poly(v.f["desiredPosition"])
                        x = r_div(r_add(r_mul(S, posn), o), s_i)
                        total = r_add(total, r_mul(r_mul(w, r_div(S, s_i)), r_sub(x, d)))
                    tn, td = num_den(total)
                    if tn != Poly.const(0):
                        bad = bad or "the merged block's position is not the least-squares stationary point of its %d variables" % len(vs_all)
                    if c2.f["active"] is not True or b2.f["deleted"] is not True:
                        bad = bad or "the merging constraint is not activated / the absorbed block not marked deleted"
                (r.bad if bad else r.ok)(inst, fn.where(), bad or "%d paths" % len(rows))


def rule_block_optimum(chk, prog):
    r = chk.rule("BLOCK-OPTIMUM", "after Block::updateWeightedPosition (and after addVariable on a fresh block) the block position satisfies "
                 "sum_i w_i (S/s_i) ((S*posn + o_i)/s_i - d_i) = 0, the stationarity condition of the weighted least-squares objective "
                 "(symbolic rational identity, 1..3 variables, with and without scaling)", floor=4)
    for ns in ("vpsc", "Avoid"):
        fn = prog.fn(ns + "::Block::updateWeightedPosition")
        bad = None
        n_eval = 0
        for scaled in (False, True):
            for k in (1, 2, 3):
                vs = [mkvar(ns, i, scaled) for i in range(k)]
                b = mkblock(ns, vs, scaled)
                try:
                    rows = run_all(prog, fn, b, [])
                except Unsupported as e:
                    raise AnalysisBroken("%s::Block::updateWeightedPosition outside the interpreter subset: %s" % (ns, e))
                n_eval += len(rows)
                for val, descr, out in rows:
                    if out[0] == "throw" and "division by zero" in out[1]:
                        continue     # zero weight sum / zero scale: outside the solver's precondition (weights, scales > 0)
                    if out[0] != "ret":
                        bad = "assertion failure path: %s" % (out[1],)
                        continue
                    bb = out[2]
                    posn = bb.f["posn"]
                    S = to_poly(bb.f["ps"].f["scale"])
                    total = Fraction(0)
                    for v in bb.f["vars"].items:
                        s_i = to_poly(v.f["scale"])
                        w, o, d = to_poly(v.f["weight"]), to_poly(v.f["offset"]), to_poly(v.f["desiredPosition"])
                        pn, pd = num_den(posn)
                        # x_i = (S*posn + o)/s_i ;  term = w * (S/s_i) * (x_i - d)
                        from ..microai.poly import r_add, r_sub, r_mul, r_div
                        x = r_div(r_add(r_mul(S, posn), o), s_i)
                        term = r_mul(r_mul(w, r_div(S, s_i)), r_sub(x, d))
                        total = r_add(total, term)
                    tn, td = num_den(total)
                    if tn != Poly.const(0):
                        bad = "with %d variable(s)%s the block position %r is not the least-squares stationary point (residual %r)" % (
                            k, " (scaled)" if scaled else "", posn, tn)
        r.count(n_eval)
        if bad:
            r.bad(ns + "::Block::updateWeightedPosition", fn.where(), bad)
        else:
            r.ok(ns + "::Block::updateWeightedPosition", fn.where())
        # addVariable on an empty block
        fn2 = prog.fn(ns + "::Block::addVariable")
        bad = None
        for scaled in (False, True):
            v = mkvar(ns, 0, scaled)
            b = mkblock(ns, [], scaled)
            b.f["posn"] = Fraction(0)
            rows = run_all(prog, fn2, b, [v])
            for val, descr, out in rows:
                if out[0] == "throw" and "division by zero" in out[1]:
                    continue
                if out[0] != "ret":
                    bad = "assertion failure path: %s" % (out[1],)
                    continue
                bb = out[2]
                vv = bb.f["vars"].items[0] if bb.f["vars"].items else None
                if vv is None or vv.f["block"] is not bb:
                    bad = "the variable is not recorded in the block"
                    continue
                from ..microai.poly import r_add, r_sub, r_mul, r_div
                S = to_poly(bb.f["ps"].f["scale"])
                x = r_div(r_add(r_mul(S, bb.f["posn"]), to_poly(vv.f["offset"])), to_poly(vv.f["scale"]))
                if not rat_eq(x, to_poly(vv.f["desiredPosition"])):
                    bad = "a single-variable block is not placed at the variable's desired position: position %r" % (x,)
        if bad:
            r.bad(ns + "::Block::addVariable", fn2.where(), bad)
        else:
            r.ok(ns + "::Block::addVariable", fn2.where())


def rule_dfdv_form(chk, prog):
    from ..microai.poly import r_add, r_sub, r_mul, r_div
    r = chk.rule("DFDV-FORM", "Variable::dfdv() == 2*w*(position - desired) and Block::cost() == sum w*(position - desired)^2 "
                 "with position = (S*posn + offset)/scale", floor=4)
    for ns in ("vpsc", "Avoid"):
        fn = prog.fn(ns + "::Variable::dfdv")
        v = mkvar(ns, 0, True)
        mkblock(ns, [v], True)
        rows = run_all(prog, fn, v, [])
        bad = None
        for val, descr, out in rows:
            if out[0] != "ret":
                bad = "assertion path %s" % out[1]
                continue
            vv = out[2]
            S = to_poly(vv.f["block"].f["ps"].f["scale"])
            x = r_div(r_add(r_mul(S, vv.f["block"].f["posn"]), vv.f["offset"]), vv.f["scale"])
            want = r_mul(r_mul(2, vv.f["weight"]), r_sub(x, vv.f["desiredPosition"]))
            if not rat_eq(out[1], want):
                bad = "dfdv() = %r, expected 2*w*(position-desired) = %r" % (out[1], want)
        r.count(len(rows))
        (r.bad if bad else r.ok)(ns + "::Variable::dfdv", fn.where(), bad or "")
        fn = prog.fn(ns + "::Block::cost")
        vs = [mkvar(ns, i, True) for i in range(2)]
        b = mkblock(ns, vs, True)
        try:
            rows = run_all(prog, fn, b, [])
        except Unsupported as e:
            raise AnalysisBroken("%s::Block::cost outside the interpreter subset: %s" % (ns, e))
        bad = None
        for val, descr, out in rows:
            if out[0] != "ret":
                bad = "assertion path %s" % out[1]
                continue
            bb = out[2]
            S = to_poly(bb.f["ps"].f["scale"])
            want = Fraction(0)
            for vv in bb.f["vars"].items:
                x = r_div(r_add(r_mul(S, bb.f["posn"]), vv.f["offset"]), vv.f["scale"])
                dlt = r_sub(x, vv.f["desiredPosition"])
                want = r_add(want, r_mul(vv.f["weight"], r_mul(dlt, dlt)))
            if not rat_eq(out[1], want):
                bad = "cost() = %r, expected sum w (x-d)^2 = %r" % (out[1], want)
        r.count(len(rows))
        (r.bad if bad else r.ok)(ns + "::Block::cost", fn.where(), bad or "")


SHAPES = {
    # name: (n vars, [(left, right)], root)
    "chain3-from-left": (3, [(0, 1), (1, 2)], 0),
    "chain3-from-right": (3, [(0, 1), (1, 2)], 2),
    "chain3-from-middle": (3, [(0, 1), (1, 2)], 1),
    "fork-out": (3, [(0, 1), (0, 2)], 0),
    "fork-in": (3, [(0, 2), (1, 2)], 0),
    "chain4": (4, [(0, 1), (1, 2), (2, 3)], 1),
}


def rule_lm_kkt(chk, prog):
    from ..microai.poly import r_add, r_sub, r_mul, r_div
    r = chk.rule("LM-KKT", "compute_dfdv(v, u[, min_lm]) leaves on every active constraint c of the block tree a multiplier lm_c such that "
                 "KKT stationarity  df/dx_v + s_v*(sum_{c: v=left(c)} lm_c - sum_{c: v=right(c)} lm_c) = 0  holds at every non-root "
                 "variable, and returns the root's residual/scale (symbolic, scaled variables, chains, forks)", floor=4)
    for ns in ("vpsc", "Avoid"):
        fns = prog.fns(ns + "::Block::compute_dfdv")
        if len(fns) != 2:
            raise AnalysisBroken("expected two overloads of %s::Block::compute_dfdv, found %d" % (ns, len(fns)))
        for fn in fns:
            with_min = len(fn.params) == 3
            inst = "%s::Block::compute_dfdv/%d" % (ns, len(fn.params))
            bad = None
            n_eval = 0
            for sname, (n, edges, root) in sorted(SHAPES.items()):
                vs = [mkvar(ns, i, True) for i in range(n)]
                cs = [mkcon(ns, vs[a], vs[b], i) for i, (a, b) in enumerate(edges)]
                b = mkblock(ns, vs, True)
                args = [vs[root], None] + ([Box(None)] if with_min else [])
                try:
                    rows = run_all(prog, fn, b, args + [cs])   # cs rides along so we can find the copies afterwards
                except Unsupported as e:
                    raise AnalysisBroken("%s outside the interpreter subset: %s" % (inst, e))
                n_eval += len(rows)
                for val, descr, out in rows:
                    if out[0] == "throw" and "division by zero" in out[1]:
                        continue
                    if out[0] != "ret":
                        bad = "%s: assertion path %s" % (sname, out[1])
                        continue
                    bb, aa = out[2], out[3]
                    vv = bb.f["vars"].items
                    cc = aa[-1]
                    S = to_poly(bb.f["ps"].f["scale"])

                    def dfdv(v):
                        x = r_div(r_add(r_mul(S, bb.f["posn"]), v.f["offset"]), v.f["scale"])
                        return r_mul(r_mul(2, v.f["weight"]), r_sub(x, v.f["desiredPosition"]))
                    for i, v in enumerate(vv):
                        res = dfdv(v)
                        for c in cc:
                            if c.f["left"] is v:
                                res = r_add(res, r_mul(c.f["lm"], v.f["scale"]))
                            if c.f["right"] is v:
                                res = r_sub(res, r_mul(c.f["lm"], v.f["scale"]))
                        rn, rd = num_den(res)
                        if i == root:
                            # returned value = residual / scale
                            if not rat_eq(out[1], r_div(res, v.f["scale"])):
                                bad = "%s: returned value %r is not the root's stationarity residual over its scale" % (sname, out[1])
                        elif rn != Poly.const(0):
                            bad = "%s: KKT stationarity fails at variable %d: residual %r (multipliers %s)" % (
                                sname, i, rn, [repr(c.f["lm"]) for c in cc])
                    if with_min:
                        m = aa[2].get()
                        if m is None or not any(m is c for c in cc):
                            bad = "%s: min_lm is not one of the block's constraints" % sname
            r.count(n_eval)
            if bad:
                r.bad(inst, fn.where(), bad)
            else:
                r.ok(inst, fn.where(), "%d paths" % n_eval)
                chk.sample({"rule": "LM-KKT", "function": inst, "shapes": sorted(SHAPES), "paths": n_eval})


def rule_minlm_argmin(chk, prog):
    """The split candidate: compute_dfdv(v,u,min_lm) / findMinLM must return the *inequality* constraint with the smallest
    multiplier.  Leaves of the symbolic decision tree are located for random positive numeric assignments (exact rationals)
    and the selected constraint is compared with the numeric argmin over the non-equality constraints."""
    import random
    from ..microai.poly import r_add, r_sub, r_mul, r_div
    r = chk.rule("MINLM-ARGMIN", "findMinLM() and compute_dfdv(v, nullptr, min_lm): on every leaf of the decision tree reached by 60 random "
                 "positive assignments per block shape, the constraint handed back is an inequality whose multiplier is minimal among all "
                 "inequality constraints of the block (equalities are never split candidates; nullptr iff there is no inequality)", floor=2)
    rng = random.Random(12345)
    shapes = {"chain3": (3, [(0, 1), (1, 2)]), "fork-out": (3, [(0, 1), (0, 2)]), "chain4": (4, [(0, 1), (1, 2), (2, 3)])}
    for ns in ("vpsc", "Avoid"):
        fn = prog.fn(ns + "::Block::findMinLM")
        bad = None
        n_pts = 0
        n_leaves = 0
        for sname, (n, edges) in sorted(shapes.items()):
            for eqmask in range(1 << len(edges)):
                vs = [mkvar(ns, i, False) for i in range(n)]
                cs = [mkcon(ns, vs[a], vs[b], i, equality=bool(eqmask >> i & 1)) for i, (a, b) in enumerate(edges)]
                b = mkblock(ns, vs, False)
                try:
                    rows = run_all(prog, fn, b, [cs])
                except Unsupported as e:
                    raise AnalysisBroken("%s::Block::findMinLM outside the interpreter subset: %s" % (ns, e))
                n_leaves += len(rows)
                syms = sorted(set().union(*[to_poly(v.f[k]).vars() for v in vs for k in ("weight", "offset", "desiredPosition")]) | {"posn"})
                for _ in range(60 if eqmask in (0, 1, 2) else 15):
                    env = {s_: Fraction(rng.randint(1, 9)) for s_ in syms}
                    for s_ in syms:
                        if s_.startswith("d") or s_ == "posn" or s_.startswith("o"):
                            env[s_] = Fraction(rng.randint(-9, 9))
                    hit = None
                    for val, descr, out in rows:
                        ok = True
                        for k, v in val.items():
                            pl = Poly({m: Fraction(c[0], c[1]) for m, c in k[1]})
                            e = pl.eval_exact(env)
                            if ((e > 0) - (e < 0)) != v:
                                ok = False
                                break
                        if ok:
                            hit = (val, descr, out)
                            break
                    if hit is None:
                        bad = bad or "%s eq=%s: no leaf of the decision tree covers a sampled assignment" % (sname, bin(eqmask))
                        continue
                    n_pts += 1
                    out = hit[2]
                    if out[0] != "ret":
                        continue
                    cc = out[3][0]
                    m = out[1]
                    lms = []
                    for c in cc:
                        n_, d_ = num_den(c.f["lm"])
                        lms.append(n_.eval_exact(env) / d_.eval_exact(env))
                    ineq = [i for i, c in enumerate(cc) if not c.f["equality"]]
                    if not ineq:
                        if m is not None:
                            bad = bad or "%s eq=%s: returns a constraint although the block has only equalities" % (sname, bin(eqmask))
                        continue
                    idx = [i for i, c in enumerate(cc) if c is m]
                    if not idx:
                        bad = bad or "%s eq=%s: returns %s although inequality constraints exist" % (sname, bin(eqmask), "nullptr" if m is None else "a foreign constraint")
                    elif idx[0] not in ineq:
                        bad = bad or "%s eq=%s: returns an equality constraint as the split candidate" % (sname, bin(eqmask))
                    elif lms[idx[0]] != min(lms[i] for i in ineq):
                        bad = bad or "%s eq=%s: returns the constraint with multiplier %s, but an inequality with multiplier %s exists" % (
                            sname, bin(eqmask), lms[idx[0]], min(lms[i] for i in ineq))
        r.count(n_pts)
        (r.bad if bad else r.ok)(ns + "::Block::findMinLM", fn.where(), bad or "%d leaves, %d sampled assignments" % (n_leaves, n_pts))


def rule_refine_rescan(chk, prog):
    from ..astq import norm, strip, calls, literal_value, writes
    from ..rules.guards import path_condition, entails, atoms
    r = chk.rule("REFINE-FIXPOINT", "Solver::refine (static solver): the scan that looks for a constraint with negative multiplier covers all "
                 "blocks [0, bs->size()) afresh in every round of the while loop, the loop only ends when a whole round found none (or the "
                 "iteration bound is hit), and a split restarts the round", floor=1)
    fn = prog.fn("vpsc::Solver::refine")
    bad = None
    fm = [n for n in calls(fn) if n.get("cname") == "vpsc::Block::findMinLM"]
    if len(fm) != 1:
        raise AnalysisBroken("Solver::refine: expected one findMinLM call")
    loop = None
    wl = None
    for a in fn.ancestors(fm[0]):
        if a.get("k") == "ForStmt" and loop is None:
            loop = a
        if a.get("k") == "WhileStmt" and wl is None:
            wl = a
    if loop is None or wl is None:
        bad = "findMinLM is not inside a block scan nested in the refinement loop"
    else:
        d = loop["init"]["decls"][0] if loop.get("init") is not None and loop["init"].get("k") == "DeclStmt" else None
        if d is None or literal_value(d.get("init")) != "0":
            bad = "the block scan does not start at block 0 in every round (init `%s`)" % (norm(d.get("init")) if d else "?")
        elif norm(loop.get("cond")) != "(%s < length)" % d["name"]:
            bad = "the block scan bound is `%s`" % norm(loop.get("cond"))
        else:
            ld = [n for n in fn.nodes() if n.get("k") == "VarDecl" and n.get("name") == "length"]
            if not ld or norm(ld[0].get("init")) != "bs.size()" or not any(x.get("id") == wl["id"] for x in fn.ancestors(ld[0])):
                bad = "`length` is not bs->size() recomputed in every round"
        if norm(wl.get("cond")) != "(!solved && (maxtries > 0))":
            bad = bad or "refinement loop condition is `%s`" % norm(wl.get("cond"))
        sets_false = [node for lhs, node, op in writes(fn) if norm(lhs) == "solved" and literal_value(node["ch"][1]) == "false" and any(x.get("id") == wl["id"] for x in fn.ancestors(node))]
        sets_true = [node for lhs, node, op in writes(fn) if norm(lhs) == "solved" and literal_value(node["ch"][1]) == "true" and any(x.get("id") == wl["id"] for x in fn.ancestors(node))]
        if not sets_true or not sets_false:
            bad = bad or "the `solved` flag is not reset per round / cleared on a split"
        for sf in sets_false:
            pc = path_condition(fn, sf, inline=False)
            if not any("lm <" in a_ for a_ in atoms(pc)):
                bad = bad or "solved=false not tied to a negative multiplier"
    r.count()
    (r.bad if bad else r.ok)("vpsc::Solver::refine", fn.where(), bad or "")


def rule_solve_exit(chk, prog):
    """IncSolver::solve: a pass of satisfy() splits each block at most once (on its minimum multiplier); a split across a degenerate
    constraint is undone by the following merges at unchanged cost, so `cost unchanged` alone does not mean `no negative multiplier`."""
    from ..rules.guards import formula, atoms, evalf
    from ..cfg import CFG
    r = chk.rule("SOLVE-EXIT-KKT", "IncSolver::solve (both copies) keeps iterating while the last pass of splitBlocks() split a block: the "
                 "loop condition holds whenever splitCnt > 0 (up to an iteration bound), not only while the cost changes; splitBlocks "
                 "resets splitCnt on entry and counts every split it performs", floor=4)
    for ns in ("vpsc", "Avoid"):
        fn = prog.fn(ns + "::IncSolver::solve")
        loops = [n for n in fn.nodes() if n.get("k") in ("WhileStmt", "DoStmt") and any(c.get("cname") == ns + "::IncSolver::satisfy" for c in walk(n.get("body") or {}))]
        r.count()
        if len(loops) != 1:
            raise AnalysisBroken("%s::IncSolver::solve: refinement loop not recognised" % ns)
        f = formula(loops[0]["cond"])
        env = {}
        has_split = False
        for a in atoms(f):
            if "splitCnt" in a:
                env[a] = True
                has_split = True
            elif "cost" in a:
                env[a] = False
            else:
                env[a] = True          # iteration bounds and the like
        if not has_split or not evalf(f, env):
            r.bad(ns + "::IncSolver::solve", fn.loc(loops[0]), "the refinement loop `while %s` stops as soon as a pass leaves the cost unchanged, even "
                  "if that pass split a block (a split across a degenerate, zero-gain constraint is re-merged at the same cost): blocks "
                  "whose minimum multiplier is still negative are never split and solve() returns a non-optimal placement" % norm(loops[0]["cond"]))
        else:
            r.ok(ns + "::IncSolver::solve", fn.loc(loops[0]))
        sb = prog.fn(ns + "::IncSolver::splitBlocks")
        g = CFG(sb)
        fld = ns + "::IncSolver::splitCnt"
        resets = [node for lhs, node, op in writes(sb) if written_field(lhs)[0] == fld and op == "=" and literal_value(node["ch"][1]) == "0"]
        incs = [node for lhs, node, op in writes(sb) if written_field(lhs)[0] == fld and op in ("++", "+=")]
        splits = [c for c in calls(sb) if c.get("cname") == ns + "::Block::split"]
        r.count()
        bad = None
        if not resets or g.must_precede([x["id"] for x in resets], splits[0]["id"]) is not None if splits else True:
            bad = "splitCnt is not reset before the blocks are scanned"
        elif not splits:
            bad = "splitBlocks no longer splits"
        else:
            for sp in splits:
                pre = g.search("entry", blocked=[x["id"] for x in incs], targets=[sp["id"]])
                post = g.must_follow(sp["id"], [x["id"] for x in incs])
                lp = [a for a in sb.ancestors(sp) if a.get("k") == "ForStmt"]
                # the increment sits in the same iteration as the split: either before it or after it on every path
                inc_in_iter = lp and any(x["id"] in {w.get("id") for w in walk(lp[0]["body"])} for x in incs)
                if not inc_in_iter:
                    bad = "a split is performed without being counted in splitCnt"
        (r.bad if bad else r.ok)(ns + "::IncSolver::splitBlocks", sb.where(), bad or "")


def rule_split_threshold(chk, prog):
    r = chk.rule("SPLIT-THRESHOLD", "the test that releases an active constraint (Solver::refine, IncSolver::splitBlocks in both solver copies) compares its "
                 "Lagrange multiplier with a CONSTANT small negative tolerance: a threshold that grows with the variables' weights (or any other "
                 "run-time quantity) leaves constraints next to heavy variables active although the objective would drop, and the result is "
                 "feasible but not optimal", floor=3)
    for q in ("vpsc::Solver::refine", "vpsc::IncSolver::splitBlocks", "Avoid::IncSolver::splitBlocks"):
        fn = prog.fn(q)
        tests = []
        for n in fn.nodes():
            if n.get("k") == "BinaryOperator" and n.get("op") in ("<", "<=", ">", ">="):
                l, rr = n["ch"][0], n["ch"][1]
                for side, other in ((l, rr), (rr, l)):
                    t = norm(side)
                    if t.endswith(".lm") or t == "lm":
                        tests.append((n, other))
        r.count()
        if not tests:
            raise AnalysisBroken("%s: the multiplier test was not found" % q)
        bad = None
        for n, other in tests:
            dyn = None
            for x in walk(other):
                if x.get("k") == "DeclRefExpr" and x.get("rk") in ("Var", "ParmVar"):
                    v = prog.vars.get(str(x.get("ref")))
                    if v is None or "const" not in str(v.get("t", "")):
                        dyn = dyn or str(x.get("ref"))
                elif x.get("k") in ("MemberExpr", "CallExpr", "CXXMemberCallExpr", "CXXThisExpr"):
                    dyn = dyn or norm(x)[:40]
            if dyn:
                bad = (n, "the multiplier is compared with `%s`, which depends on `%s`" % (norm(other)[:70], dyn))
        (r.bad(q, fn.loc(bad[0]), bad[1]) if bad else r.ok(q, fn.loc(tests[0][0]), "threshold %s" % norm(tests[0][1])))


def rule_refine_budget(chk, prog):
    from ..rules.guards import path_condition, atoms
    r = chk.rule("REFINE-BUDGET", "Solver::refine's iteration budget guards against cycling, not against large problems: `maxtries` is decremented only "
                 "in an iteration whose split failed to lower the cost (the decrement is guarded by a comparison of block-set costs), so a "
                 "problem that needs more than 100 splits is still refined to the end", floor=1)
    fn = prog.fn("vpsc::Solver::refine")
    decs = [n for n in fn.nodes() if n.get("k") in ("UnaryOperator", "CompoundAssignOperator") and "maxtries" in norm(n) and ("--" in str(n.get("op", "")) or "-=" in str(n.get("op", "")))]
    r.count()
    if not decs:
        raise AnalysisBroken("Solver::refine: the iteration budget was not found")
    bad = None
    for d in decs:
        ats = atoms(path_condition(fn, d, inline=True))
        if not any("cost" in a.lower() for a in ats):
            bad = (d, "the budget is spent in every iteration (condition: %s): a problem with more than 100 independent splits is returned partly refined" % (sorted(ats)[:2] or "none"))
    (r.bad("Solver::refine", fn.loc(bad[0]), bad[1]) if bad else r.ok("Solver::refine", fn.loc(decs[0])))


def rule_split_scale(chk, prog):
    """Blocks::split: where the right half of a split block is left."""
    from ..microai.interp import Interp, Obj, Oracle, Unsupported, default_obj
    from ..microai.poly import Poly, to_poly
    r = chk.rule("SPLIT-SCALE", "Blocks::split (both solver copies): the statement that parks the right half r while the left half is merged leftwards, "
                 "evaluated symbolically: it leaves r's variables where they were, i.e. r.posn * r.ps.scale == b.posn * b.ps.scale as an identity "
                 "in (posn, scales) -- Variable::position() is (block.ps.scale * block.posn + offset) / scale, and the halves of a block of "
                 "scaled variables need not share the block's scale (with `r->posn = b->posn` refine alternates between two splits for ever)", floor=2)
    for ns in ("vpsc", "Avoid"):
        fn = prog.fn(ns + "::Blocks::split")
        st = [(lhs, node) for lhs, node, op in writes(fn) if op == "=" and norm(lhs) == "r.posn"]
        r.count()
        if len(st) != 1:
            raise AnalysisBroken("%s::Blocks::split: the store to r->posn was not found" % ns)
        lhs, node = st[0]
        P, SB, SR = Poly.var("posn"), Poly.var("sb"), Poly.var("sr")
        b = default_obj(prog, ns + "::Block", {"posn": P})
        b.f["ps"] = default_obj(prog, ns + "::PositionStats", {"scale": SB})
        rb = default_obj(prog, ns + "::Block", {"posn": Poly.var("old")})
        rb.f["ps"] = default_obj(prog, ns + "::PositionStats", {"scale": SR})
        env = {}
        for p_ in fn.params:
            if p_["name"] == "b":
                env[p_["did"]] = Box(b)
            elif p_["name"] == "r":
                env[p_["did"]] = Box(rb)
        it = Interp(prog, Oracle([]))
        it.positive = {"sb", "sr"}
        try:
            it.ex(node if node.get("k", "").endswith("Stmt") else {"k": "CompoundStmt", "ch": [node]}, env)
        except Unsupported as e:
            raise AnalysisBroken("%s::Blocks::split outside the interpreter subset: %s" % (ns, e))
        from ..microai.poly import r_mul, r_sub, num_den
        lhs_v = r_mul(rb.f["posn"], SR)
        rhs_v = r_mul(P, SB)
        dn, dd = num_den(r_sub(lhs_v, rhs_v))
        ok = not dn.t
        (r.ok if ok else r.bad)(ns + "::Blocks::split", fn.loc(node), "" if ok else
                                "r->posn = %s: r.posn * r.scale - b.posn * b.scale = %s, not identically 0 -- r's variables jump when its scale differs from b's" % (
                                    norm(node["ch"][1])[:60], dn))


_SOLVER_CLASSES = ("Constraint", "Variable", "Block", "Blocks", "PositionStats", "Solver", "IncSolver")


def rule_double_precision(chk, prog):
    r = chk.rule("DOUBLE-PRECISION", "the solver's numbers (both copies: classes Constraint, Variable, Block, Blocks, PositionStats, Solver, IncSolver) are "
                 "doubles throughout: no member of those classes has type float, and no function of them converts a double to float (implicit "
                 "FloatingCast to `float`, or an explicit cast) -- compute_dfdv stores each child multiplier in Constraint::lm and adds it into "
                 "the parent's sum, so with weights 6 orders of magnitude apart a single-precision store loses the small negative multiplier "
                 "that says `split here`, and solve() returns a feasible but non-optimal placement", floor=14)
    n = 0
    for ns in ("vpsc", "Avoid"):
        for cls in _SOLVER_CLASSES:
            rec = prog.records.get("%s::%s" % (ns, cls))
            if rec is None:
                continue
            n += 1
            r.count()
            fl = [f for f in rec.get("fields", []) if re.search(r"\bfloat\b", str(f.get("t", "")))]
            (r.ok if not fl else r.bad)("%s::%s members" % (ns, cls), "%s:%s" % (os.path.relpath(rec.get("file", "?"), _facts.REPO) if rec.get("file") else "?", rec.get("l", "?")),
                                        "" if not fl else "member `%s` has type %s: the solver's multipliers / positions lose precision when stored there" % (
                                            fl[0]["name"], fl[0]["t"]))
    casts = []
    n_fn = 0
    for f in prog.all_functions():
        if not f.body or not any(str(f.q).startswith("%s::%s::" % (ns, cls)) for ns in ("vpsc", "Avoid") for cls in _SOLVER_CLASSES):
            continue
        n_fn += 1
        for x in f.nodes():
            if x.get("k") in ("ImplicitCastExpr", "CStyleCastExpr", "CXXStaticCastExpr", "CXXFunctionalCastExpr") and str(x.get("t", "")) == "float":
                casts.append((f, x))
    r.count()
    (r.ok if not casts else r.bad)("no conversion to float in the solver's functions", casts[0][0].loc(casts[0][1]) if casts else "cola/libvpsc", "%d functions" % n_fn if not casts else
                                   "%s converts a value to float" % casts[0][0].q)
    if n < 12:
        raise AnalysisBroken("solver classes not found (%d)" % n)


def rule_static_fresh_start(chk, prog):
    from ..cfg import CFG
    from ..astq import calls, writes, written_field, norm
    r = chk.rule("STATIC-SOLVER-FRESH-START", "vpsc::Solver::satisfy (the static solver) places every variable from its CURRENT desired position before the "
                 "left-to-right merge pass: on every path the block set is rebuilt (`bs = new Blocks(vs)`, each Block computes its position "
                 "from its variable's desired position) and every constraint is deactivated before Blocks::totalOrder / mergeLeft run -- "
                 "the counterpart of IncSolver::satisfy's moveBlocks(); without it a second solve(), or targets set after construction, "
                 "work on stale block positions (non-optimal results, or a binding constraint split and UnsatisfiedConstraint)", floor=2)
    fn = prog.fn("vpsc::Solver::satisfy")
    g = CFG(fn)
    tot = [c for c in calls(fn) if c.get("cname") == "vpsc::Blocks::totalOrder"]
    if not tot:
        raise AnalysisBroken("Solver::satisfy: Blocks::totalOrder not found")
    news = [node for lhs, node, op in writes(fn) if op == "=" and written_field(lhs)[0] == "vpsc::Solver::bs" and any(
        x.get("k") == "CXXNewExpr" for x in walk(node["ch"][1]))]
    r.count()
    w = g.must_precede([n_["id"] for n_ in news], tot[0]["id"]) if news else []
    (r.ok if w is None else r.bad)("blocks rebuilt before the merge pass", fn.loc(news[0]) if news else fn.loc(tot[0]), "" if w is None else
                                   "the merge pass can start on the block set of the constructor / an earlier call: block positions computed from "
                                   "desired positions that may have changed since")
    deact = [node for lhs, node, op in writes(fn) if op == "=" and written_field(lhs)[0] == "vpsc::Constraint::active" and literal_value_of(node) == "false"]
    r.count()
    ok = False
    if deact:
        lps = [a for a in fn.ancestors(deact[0]) if a.get("k") == "ForStmt"]
        ok = bool(lps) and "(i < m)" in norm(lps[0].get("cond")) and g.iteration_can_skip(lps[0], [deact[0]["id"]]) is None and \
            g.must_precede([x["id"] for x in walk(lps[0].get("cond") or {}) if x.get("id") in g.pos], tot[0]["id"]) is None
    (r.ok if ok else r.bad)("constraints deactivated before the merge pass", fn.loc(deact[0]) if deact else fn.loc(tot[0]), "" if ok else
                            "the rebuilt blocks are singletons but constraints may still be marked active from an earlier call")


def literal_value_of(node):
    from ..astq import literal_value
    return literal_value(node["ch"][1]) if len(node.get("ch", [])) > 1 else None


def run(chk):
    prog = chk.load()
    PROG[0] = prog
    chk.guard(rule_double_precision, chk, prog)
    chk.guard(rule_static_fresh_start, chk, prog)
    chk.guard(rule_refine_budget, chk, prog)
    chk.guard(rule_split_scale, chk, prog)
    chk.guard(rule_split_threshold, chk, prog)
    chk.guard(rule_block_optimum, chk, prog)
    chk.guard(rule_merge_optimum, chk, prog)
    chk.guard(rule_minlm_argmin, chk, prog)
    chk.guard(rule_refine_rescan, chk, prog)
    chk.guard(rule_solve_exit, chk, prog)
    chk.guard(rule_dfdv_form, chk, prog)
    chk.guard(rule_lm_kkt, chk, prog)
    r = chk.rule("SIBLING", "every function of libavoid's solver copy is structurally identical to its libvpsc counterpart "
                 "(alpha-renaming, assertions/casts dropped, heap ADT unified; deliberate differences in tables/siblings.json)", floor=60)
    vpsc_siblings.check(r, prog, sample=chk.sample)
