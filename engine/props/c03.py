"""C03 -- libavoid: routes join their endpoints and avoid obstacles: the structural clauses.

Decides:
  SETDIST-CALLERS   only the reviewed functions call EdgeInf::setDist (the one place an edge becomes visible)
  VIS-GUARD         in EdgeInf::checkVis and vertexSweep the edge is made visible only under
                    cone(i) && cone(j) && unblocked; the cone tests are inValidRegion(prev(v), v, next(v), other) for the
                    two end vertices in the right roles; the distance stored is the Euclidean distance of the edge's own ends
  BLOCKING-SCAN     Router::newBlockingShape tests every visible edge against every side (i, i+1 mod n) of the new shape with a
                    fresh end-point-touch state per edge and removes the edge iff a side blocks it
  FALLBACK-GUARD    the straight-line fallback (tar->pathNext = src) is taken only when the search returned no path
  ENDPOINTS         the first / last route points are written from the connector's source / destination vertices
Not decided: geometric adequacy of firstBlocker / the sweep / the orthogonal scan; nudging keeping routes outside shapes.
"""
import json
import re
import os

from ..astq import (strip, strip_casts, calls, call_args, call_object, writes, written_field, norm, literal_value, src,
                    single_assignment_locals)
from ..cfg import CFG
from ..facts import AnalysisBroken, VERIF, walk
from ..rules.guards import path_condition, formula, entails, show, atoms

SETDIST = "Avoid::EdgeInf::setDist"


def rule_callers(chk, prog):
    table = json.load(open(os.path.join(VERIF, "tables", "c03_setdist_callers.json")))["callers"]
    r = chk.rule("SETDIST-CALLERS", "EdgeInf::setDist (the only writer of m_visible = true) is called only from the reviewed functions "
                 "(tables/c03_setdist_callers.json)", floor=9)
    # the writer of m_visible
    for f in prog.all_functions():
        for lhs, node, op in writes(f):
            fq, elem, mn = written_field(lhs)
            if fq == "Avoid::EdgeInf::m_visible" and literal_value(node["ch"][1]) == "true" and f.q != SETDIST:
                r.bad("m_visible <- " + f.q, f.loc(node), "sets an edge visible outside EdgeInf::setDist")
    seen = set()
    for f in prog.all_functions():
        for n in calls(f):
            if n.get("cname") == SETDIST:
                r.count()
                seen.add(f.q)
                inst = "%s@%s" % (f.q, src(call_args(n)[0])[:40])
                if f.q in table:
                    r.ok(inst, f.loc(n), table[f.q]["why"])
                else:
                    r.bad(inst, f.loc(n), "new caller of EdgeInf::setDist: makes an edge visible without a reviewed blocking test")
    for q in table:
        if q not in seen:
            raise AnalysisBroken("reviewed caller %s no longer calls setDist" % q)


def cone_calls(fn, sal):
    """{bool local did: [inValidRegion call nodes assigned to it]} and all stores to those locals."""
    out = {}
    for lhs, node, op in writes(fn):
        l = strip(lhs)
        if l is not None and l.get("k") == "DeclRefExpr" and l.get("t") == "bool" and op == "=":
            out.setdefault(l["did"], []).append(strip_casts(node["ch"][1]))
    return out


def check_cone_args(call, centre, other):
    a = [norm(x, None) for x in call_args(call)]
    return a


def rule_vis_guard(chk, prog):
    r = chk.rule("VIS-GUARD", "EdgeInf::checkVis / vertexSweep: the setDist call executes only under cone1 && cone2 && unblocked "
                 "(truth-table entailment over the enclosing conditions); each cone flag is only ever assigned `false`, or "
                 "inValidRegion(IgnoreRegions, v.shPrev.point, v.point, v.shNext.point, other.point) with v/other the edge's two ends "
                 "in opposite roles; the stored distance is euclideanDist of the two ends", floor=2)
    # ---------------- checkVis
    fn = prog.fn("Avoid::EdgeInf::checkVis")
    sal = single_assignment_locals(fn)
    site = [n for n in calls(fn) if n.get("cname") == SETDIST]
    if len(site) != 1:
        raise AnalysisBroken("checkVis: expected one setDist call")
    pc = path_condition(fn, site[0])
    bad = None
    ats = atoms(pc)
    unb = [a for a in ats if "firstBlocker()" in a]
    cones = {}
    for n in fn.nodes():
        if n.get("k") == "VarDecl" and n.get("t") == "bool" and n.get("name", "").startswith("cone"):
            cones[n["name"]] = n["did"]
    if len(cones) != 2:
        raise AnalysisBroken("checkVis: cone flags not found")
    if not unb:
        bad = "the visibility branch no longer depends on firstBlocker()"
    else:
        req = ("and", ("and", ("atom", "cone1"), ("atom", "cone2")), ("atom", unb[0]))
        if not unb[0].replace(" ", "").endswith("==0)"):
            bad = "blocker test `%s` is not `firstBlocker() == 0`" % unb[0]
        elif not entails(pc, req):
            bad = "setDist is reachable under %s, which does not imply cone1 && cone2 && no blocker" % show(pc)
    # cone assignments
    roles = {}
    for lhs, node, op in writes(fn):
        l = strip(lhs)
        if l is None or l.get("k") != "DeclRefExpr" or l.get("did") not in cones.values():
            continue
        rhs = strip_casts(node["ch"][1])
        lit = literal_value(rhs)
        if lit == "false":
            continue
        if rhs.get("k") == "CallExpr" and rhs.get("cname") == "Avoid::inValidRegion":
            a = [norm(x, sal) for x in call_args(rhs)]
            roles.setdefault(l["ref"], []).append(a)
        else:
            bad = bad or "cone flag %s is assigned `%s`" % (l["ref"], src(rhs))
    exp = {"cone1": ("m_vert1", "m_vert2"), "cone2": ("m_vert2", "m_vert1")}
    for cn, (v, o) in exp.items():
        for a in roles.get(cn, []):
            want = ["m_router.IgnoreRegions", "%s.shPrev.point" % v, "%s.point" % v, "%s.shNext.point" % v, "%s.point" % o]
            if a != want:
                bad = bad or "%s = inValidRegion(%s); expected (%s)" % (cn, ", ".join(a), ", ".join(want))
        if not roles.get(cn):
            bad = bad or "%s is never computed with inValidRegion" % cn
    darg = norm(call_args(site[0])[0], sal)
    if darg not in ("Avoid::euclideanDist(m_vert1.point, m_vert2.point)", "Avoid::euclideanDist(m_vert2.point, m_vert1.point)"):
        bad = bad or "stored distance `%s` is not the Euclidean distance between the edge's ends" % darg
    r.count(3 + sum(len(v) for v in roles.values()))
    (r.bad if bad else r.ok)("Avoid::EdgeInf::checkVis", fn.loc(site[0]), bad or show(pc))
    chk.sample({"rule": "VIS-GUARD", "function": "EdgeInf::checkVis", "path_condition": show(pc), "cone_calls": roles})
    # ---------------- vertexSweep
    fn = prog.fn("Avoid::vertexSweep")
    sal = single_assignment_locals(fn)
    site = [n for n in calls(fn) if n.get("cname") == SETDIST]
    if len(site) != 1:
        raise AnalysisBroken("vertexSweep: expected one setDist call")
    pc = path_condition(fn, site[0])
    ats = atoms(pc)
    vis = [a for a in ats if a.startswith("Avoid::sweepVisible(")]
    if not vis:
        # the sweep's verdict may be kept in a local that later checks can only LOWER (store false): the branch then depends on
        # sweepVisible() && (no later check objected)
        for d in fn.nodes():
            if d.get("k") == "VarDecl" and d.get("name") in ats and d.get("init") is not None and norm(d["init"]).startswith("Avoid::sweepVisible("):
                later = [node for lhs, node, op in writes(fn) if norm(lhs) == d["name"]]
                if all(op_ == "=" and literal_value(nd["ch"][1]) == "false" for (l_, nd, op_) in [(None, x, "=") for x in later] if True) and \
                        all(literal_value(x["ch"][1]) == "false" for x in later):
                    vis = [d["name"]]
    bad = None
    if not vis:
        bad = "the visibility branch no longer depends on sweepVisible()"
    else:
        req = ("and", ("and", ("atom", "cone1"), ("atom", "cone2")), ("atom", vis[0]))
        if not entails(pc, req):
            bad = "setDist is reachable under %s, which does not imply cone1 && cone2 && sweepVisible" % show(pc)
    roles = {}
    for n in fn.nodes():
        if n.get("k") == "VarDecl" and n.get("t") == "bool" and n.get("name", "").startswith("cone"):
            if literal_value(n.get("init")) != "true":
                bad = bad or "%s is not initialised to true" % n["name"]
    for lhs, node, op in writes(fn):
        l = strip(lhs)
        if l is None or l.get("k") != "DeclRefExpr" or not str(l.get("ref", "")).startswith("cone"):
            continue
        rhs = strip_casts(node["ch"][1])
        if rhs.get("k") == "CallExpr" and rhs.get("cname") == "Avoid::inValidRegion":
            roles.setdefault(l["ref"], []).append([norm(x, sal) for x in call_args(rhs)])
        elif literal_value(rhs) != "false":
            bad = bad or "cone flag %s is assigned `%s`" % (l["ref"], src(rhs))
    for cn in ("cone1", "cone2"):
        for a in roles.get(cn, []):
            if len(a) != 5 or not a[0].endswith("IgnoreRegions"):
                bad = bad or "%s: unexpected inValidRegion arguments %s" % (cn, a)
                continue
            v = a[2][:-6] if a[2].endswith(".point") else None
            if v is None or a[1] != v + ".shPrev.point" or a[3] != v + ".shNext.point" or a[4] == a[2]:
                bad = bad or "%s = inValidRegion(%s): not (prev(v), v, next(v), other)" % (cn, ", ".join(a))
        if not roles.get(cn):
            bad = bad or "%s is never computed with inValidRegion" % cn
    if roles.get("cone1") and roles.get("cone2"):
        c1, c2 = roles["cone1"][0], roles["cone2"][0]
        if not (c1[2] == c2[4] and c2[2] == c1[4]):
            bad = bad or "the two cone tests do not use the edge's two ends in opposite roles"
    r.count(3 + sum(len(v) for v in roles.values()))
    (r.bad if bad else r.ok)("Avoid::vertexSweep", fn.loc(site[0]), bad or show(pc)[:200])


def rule_blocking_scan(chk, prog):
    r = chk.rule("BLOCKING-SCAN", "Router::newBlockingShape: for every edge with non-zero distance, all sides (poly.ps[i], poly.ps[(i+1) mod n]), "
                 "i in [0,n), are tested with segmentShapeIntersect(e1, e2, side..., seen) where e1,e2 are the edge's end points and `seen` "
                 "is reset per edge; the edge is removed (delete / addBlocker) exactly under `blocked`, which only that test sets", floor=1)
    fn = prog.fn("Avoid::Router::newBlockingShape")
    sal = single_assignment_locals(fn)
    bad = None
    callsites = [n for n in calls(fn) if n.get("cname") == "Avoid::segmentShapeIntersect"]
    if len(callsites) != 1:
        raise AnalysisBroken("newBlockingShape: expected one segmentShapeIntersect call")
    c = callsites[0]
    a = [norm(x, sal) for x in call_args(c)]
    edge_var = a[0][:-len(".points().first")] if a[0].endswith(".points().first") else None
    if edge_var is None or a[1] != edge_var + ".points().second":
        bad = "tested segment is (%s, %s), not the two end points of one edge" % (a[0], a[1])
    else:
        for rm in fn.nodes():
            if rm.get("k") == "CXXDeleteExpr" and norm(rm["ch"][0], sal) != edge_var:
                bad = "the edge deleted (%s) is not the edge tested (%s)" % (norm(rm["ch"][0], sal), edge_var)
            if rm.get("cname") == "Avoid::EdgeInf::addBlocker" and norm(call_object(rm), sal) != edge_var:
                bad = "the edge marked blocked is not the edge tested"
    # side loop
    loop = None
    for anc in fn.ancestors(c):
        if anc.get("k") == "ForStmt":
            loop = anc
            break
    if loop is None:
        bad = bad or "segmentShapeIntersect is not inside a loop over the polygon sides"
    else:
        ivar = None
        if loop.get("init") is not None and loop["init"].get("k") == "DeclStmt":
            d = loop["init"]["decls"][0]
            if literal_value(d.get("init")) == "0":
                ivar = d
        cond = norm(loop.get("cond"))
        inc = norm(loop.get("inc")) if loop.get("inc") is not None else ""
        if ivar is None or cond != "(%s < poly.size())" % ivar["name"] or inc not in ("++%s" % ivar["name"], "%s++" % ivar["name"]):
            bad = bad or "side loop is not  for (i = 0; i < poly.size(); ++i)  (init/cond/inc: %s / %s / %s)" % (
                ivar["name"] if ivar else "?", cond, inc)
        else:
            i = ivar["name"]
            nxt = "((%s == (poly.size() - 1)) ? 0 : (%s + 1))" % (i, i)
            alt = "((%s + 1) %% poly.size())" % i
            if a[2] != "poly.ps[%s]" % i or a[3] not in ("poly.ps[%s]" % nxt, "poly.ps[%s]" % alt):
                bad = bad or "side is (%s, %s), not (poly.ps[i], poly.ps[(i+1) mod n])" % (a[2], a[3])
        # `seen` declared inside the per-edge loop, initialised false, outside the side loop
        seen_arg = strip_casts(call_args(c)[4])
        decl = None
        for n in fn.nodes():
            if n.get("k") == "VarDecl" and n.get("did") == seen_arg.get("did"):
                decl = n
        if decl is None or literal_value(decl.get("init")) != "false":
            bad = bad or "the end-point-touch state is not initialised to false"
        else:
            anc = list(fn.ancestors(decl))
            outer_loops = [x for x in anc if x.get("k") in ("ForStmt", "WhileStmt")]
            if any(x.get("id") == loop["id"] for x in anc) or not outer_loops:
                bad = bad or "the end-point-touch state is not reset once per edge"
    # blocked flag
    blocked = None
    for lhs, node, op in writes(fn):
        l = strip(lhs)
        if l is not None and l.get("k") == "DeclRefExpr" and l.get("t") == "bool" and literal_value(node["ch"][1]) == "true":
            pc = path_condition(fn, node, inline=False)
            if any(x.startswith("Avoid::segmentShapeIntersect(") for x in atoms(pc)):
                blocked = l
                need = [x for x in atoms(pc) if x.startswith("Avoid::segmentShapeIntersect(")][0]
                if not entails(pc, ("atom", need)):
                    bad = bad or "`blocked = true` is not under the segmentShapeIntersect test"
    if blocked is None:
        bad = bad or "no flag is set from the segmentShapeIntersect test"
    else:
        removers = [n for n in fn.nodes() if n.get("k") == "CXXDeleteExpr" or n.get("cname") == "Avoid::EdgeInf::addBlocker"]
        if not removers:
            bad = bad or "the blocked edge is neither deleted nor marked blocked"
        for rm in removers:
            pc = path_condition(fn, rm, inline=False)
            if not entails(pc, ("atom", blocked["ref"])):
                bad = bad or "edge removal at line %s is not guarded by `%s`" % (rm.get("l"), blocked["ref"])
        # every path through the per-edge body after the side loop that has blocked==true reaches a remover: the if(blocked) body
        # contains the removers on both arms of InvisibilityGrph
        g = CFG(fn)
        ifs = [n for n in fn.nodes() if n.get("k") == "IfStmt" and norm(n["cond"]) == blocked["ref"]]
        if not ifs:
            bad = bad or "no `if (%s)` statement" % blocked["ref"]
        else:
            ib = [bid for bid, blk in g.blocks.items() if blk.get("term") == ifs[0]["id"]]
            if ib:
                then_succ = g.blocks[ib[0]]["succ"][0]
                w = g.search([(then_succ, 0)], blocked=[x["id"] for x in removers], to_exit=True)
                if w is not None:
                    bad = bad or "a blocked edge can stay in the visibility graph: %s" % g.describe(w)
    r.count(6)
    (r.bad if bad else r.ok)("Avoid::Router::newBlockingShape", fn.loc(c), bad or "")


def rule_first_blocker(chk, prog):
    r = chk.rule("FIRSTBLOCKER-SCAN", "EdgeInf::firstBlocker walks every obstacle vertex k from vertices.shapesBegin() to end(); an iteration "
                 "reaches the next one only after segmentShapeIntersect(v1.point, v2.point, k.shPrev.point, k.point, seen) or through one of "
                 "the two reviewed skips (orthogonal dummy vertex; shape containing an end point); a hit returns the shape id, the end-point "
                 "state is reset exactly when a new shape starts", floor=1)
    fn = prog.fn("Avoid::EdgeInf::firstBlocker")
    sal = single_assignment_locals(fn)
    g = CFG(fn)
    bad = None
    cs = [n for n in calls(fn) if n.get("cname") == "Avoid::segmentShapeIntersect"]
    if len(cs) != 1:
        raise AnalysisBroken("firstBlocker: expected one segmentShapeIntersect call")
    c = cs[0]
    a = [norm(x, sal) for x in call_args(c)]
    loop = None
    for anc in fn.ancestors(c):
        if anc.get("k") in ("ForStmt", "WhileStmt"):
            loop = anc
            break
    if loop is None:
        raise AnalysisBroken("firstBlocker: scan loop not found")
    kname = None
    if loop.get("init") is not None and loop["init"].get("k") == "DeclStmt":
        d = loop["init"]["decls"][0]
        kname = d["name"]
        if norm(d.get("init"), sal) != "m_router.vertices.shapesBegin()":
            bad = "the scan starts at %s, not at vertices.shapesBegin()" % norm(d.get("init"), sal)
    if kname is None:
        bad = bad or "scan variable not declared in the loop header"
    else:
        if norm(loop.get("cond"), sal) != "(%s != m_router.vertices.end())" % kname:
            bad = bad or "the scan stops at %s, not at vertices.end()" % norm(loop.get("cond"), sal)
        want = ["m_vert1.point", "m_vert2.point", "%s.shPrev.point" % kname, "%s.point" % kname]
        if a[:4] != want and a[:4] != [want[1], want[0], want[2], want[3]]:
            bad = bad or "the test is segmentShapeIntersect(%s), expected (%s, seen)" % (", ".join(a), ", ".join(want))
    # iterations may only skip the test through the reviewed continues
    allowed = ("(k.id == Avoid::dummyOrthogID)", "(ss.find(k.id.objID) != ss.end())")
    conts = [n for n in walk(loop["body"]) if n.get("k") == "ContinueStmt"]
    okc = []
    for ct in conts:
        pc = path_condition(fn, ct)
        ats = atoms(pc)
        if any(x.replace(kname or "k", "k") in allowed for x in ats) and any(
                entails(pc, ("atom", x)) for x in ats if x.replace(kname or "k", "k") in allowed):
            okc.append(ct)
        else:
            bad = bad or "an obstacle vertex is skipped under %s" % show(pc)
    hdr = [bid for bid, blk in g.blocks.items() if blk.get("term") == loop["id"] and len(g.succs(bid, True)) == 2]
    cond_id = strip(loop["cond"])["id"]
    if hdr and cond_id in g.pos:
        body = g.blocks[hdr[0]]["succ"][0]
        w = g.search([(body, 0)], blocked=[c["id"]] + [x["id"] for x in okc], targets=[cond_id])
        if w is not None:
            bad = bad or "an iteration reaches the next vertex without testing this side: %s" % g.describe(w)
    # returns
    for n in fn.nodes():
        if n.get("k") == "ReturnStmt" and n.get("ch"):
            v = norm(n["ch"][0], sal)
            pc = path_condition(fn, n)
            hit = [x for x in atoms(pc) if x.startswith("Avoid::segmentShapeIntersect(")]
            if v == "0":
                if hit and entails(pc, ("atom", hit[0])):
                    bad = bad or "returns 0 (no blocker) although a side intersects"
            else:
                if not hit or not entails(pc, ("atom", hit[0])):
                    bad = bad or "returns blocker `%s` without an intersecting side" % v
    # reset of the end-point state per shape
    seen = strip_casts(call_args(c)[4])
    resets = [node for lhs, node, op in writes(fn) if strip(lhs).get("did") == seen.get("did") and literal_value(node["ch"][1]) == "false"]
    if not resets:
        bad = bad or "the end-point-touch state is never reset between shapes"
    for rs in resets:
        pc = path_condition(fn, rs)
        if not any(x.replace(kname or "k", "k") == "(k.id.objID != lastId)" and entails(pc, ("atom", x)) for x in atoms(pc)):
            bad = bad or "end-point-touch state reset under %s, not when a new shape starts" % show(pc)
    r.count(5 + len(conts))
    (r.bad if bad else r.ok)("Avoid::EdgeInf::firstBlocker", fn.loc(c), bad or "")


def rule_fallback(chk, prog):
    r = chk.rule("FALLBACK-GUARD", "ConnRef::generateStandardPath writes the straight-line fallback tar->pathNext = m_src_vert only under "
                 "pathlen < 2 (search found no path); generateCheckpointsPath appends dst() directly only when the last leg has no path", floor=2)
    fn = prog.fn("Avoid::ConnRef::generateStandardPath")
    sal = single_assignment_locals(fn)
    sites = []
    for lhs, node, op in writes(fn):
        fq, elem, mn = written_field(lhs)
        if fq == "Avoid::VertInf::pathNext" and op == "=":
            sites.append(node)
    if not sites:
        raise AnalysisBroken("generateStandardPath: fallback store to pathNext not found")
    bad = None
    for s in sites:
        pc = path_condition(fn, s, inline=False)
        if not entails(pc, ("atom", "(pathlen < 2)")):
            bad = "pathNext is overwritten under %s, not only when pathlen < 2" % show(pc)
        if norm(s["ch"][1], sal) != "m_src_vert" or norm(s["ch"][0], sal) not in ("m_dst_vert.pathNext", "tar.pathNext"):
            bad = bad or "fallback writes %s = %s, not tar->pathNext = m_src_vert" % (norm(s["ch"][0], sal), norm(s["ch"][1], sal))
    # pathlen is the result of pathLeadsBackTo(src) on dst
    src_ok = False
    for lhs, node, op in writes(fn):
        l = strip(lhs)
        if l is not None and l.get("ref") == "pathlen" and op == "=":
            t = norm(node["ch"][1], sal)
            if t == "dst().pathLeadsBackTo(src())":
                src_ok = True
            elif t not in ("0", "2"):
                bad = bad or "pathlen is assigned `%s`" % t
    if not src_ok:
        bad = bad or "pathlen is not computed by dst()->pathLeadsBackTo(src())"
    r.count(len(sites) + 1)
    (r.bad if bad else r.ok)("Avoid::ConnRef::generateStandardPath", fn.loc(sites[0]), bad or "")
    fn = prog.fn("Avoid::ConnRef::generateCheckpointsPath")
    bad = None
    k = 0
    for n in calls(fn):
        if n.get("cname", "").endswith("::push_back") and norm(call_object(n)) == "path":
            a = norm(call_args(n)[0])
            if a == "dst().point":
                k += 1
                pc = path_condition(fn, n, inline=False)
                if not entails(pc, ("and", ("not", ("atom", "(pathlen >= 2)")), ("atom", "((i + 1) == checkpoints.size())"))):
                    bad = "dst() is appended under %s: not only when the final leg found no path" % show(pc)
    if k == 0:
        raise AnalysisBroken("generateCheckpointsPath: direct dst() append not found")
    r.count(k)
    (r.bad if bad else r.ok)("Avoid::ConnRef::generateCheckpointsPath", fn.where(), bad or "")


def rule_endpoints(chk, prog):
    r = chk.rule("ENDPOINTS", "generateStandardPath: path[0] = m_src_vert->point is stored on every path to the exit, and the fill loop starts "
                 "at tar = m_dst_vert with index pathlen-1; generateCheckpointsPath: the first element pushed is src()->point and the "
                 "checkpoint list is src(), checkpoints..., dst(); generatePath asserts vertices[0]==src(), vertices.back()==dst()", floor=3)
    fn = prog.fn("Avoid::ConnRef::generateStandardPath")
    sal = single_assignment_locals(fn)
    g = CFG(fn)
    first = [node for lhs, node, op in writes(fn) if norm(lhs) == "path[0]" and op == "=" and norm(node.get("ch", [None, None])[-1] if node["k"] == "BinaryOperator" else node["ch"][2], sal) == "m_src_vert.point"]
    bad = None
    if not first:
        bad = "no store path[0] = m_src_vert->point"
    else:
        w = g.exit_reachable_avoiding([x["id"] for x in first])
        if w is not None:
            bad = "the function can return without writing path[0] from the source vertex: %s" % g.describe(w)
    fill = None
    for n in fn.nodes():
        if n.get("k") == "ForStmt" and n.get("init") is not None and n["init"].get("k") == "DeclStmt":
            d = n["init"]["decls"][0]
            if norm(d.get("init"), sal) in ("m_dst_vert", "tar"):
                fill = n
    if fill is None:
        bad = bad or "the fill loop does not start at the destination vertex"
    else:
        it = fill["init"]["decls"][0]["name"]
        ok = False
        for lhs, node, op in writes(fn):
            if any(a.get("id") == fill["id"] for a in fn.ancestors(node)) and norm(lhs) == "path[j]":
                rhs = node["ch"][1] if node["k"] == "BinaryOperator" else node["ch"][2]
                if norm(rhs) == "%s.point" % it:
                    ok = True
        jinit = [n for n in fn.nodes() if n.get("k") == "VarDecl" and n.get("name") == "j"]
        if not ok:
            bad = bad or "the fill loop does not store path[j] = vertex->point"
        if not jinit or norm(jinit[0].get("init")) != "(pathlen - 1)":
            bad = bad or "fill index does not start at pathlen - 1"
    r.count(3)
    (r.bad if bad else r.ok)("Avoid::ConnRef::generateStandardPath", fn.where(), bad or "")
    fn = prog.fn("Avoid::ConnRef::generateCheckpointsPath")
    g = CFG(fn)
    bad = None
    pushes = [n for n in calls(fn) if n.get("cname", "").endswith("::push_back") and norm(call_object(n)) == "path"]
    firstp = [n for n in pushes if norm(call_args(n)[0]) == "src().point"]
    others = [n for n in pushes if n not in firstp] + [n for n in calls(fn) if n.get("cname", "").endswith("::resize") and norm(call_object(n)) == "path"]
    if not firstp:
        bad = "path does not start with src()->point"
    else:
        for o in others:
            if o["id"] in g.pos and g.must_precede([x["id"] for x in firstp], o["id"]) is not None:
                bad = "path can grow before src()->point is pushed"
        if g.exit_reachable_avoiding([x["id"] for x in firstp]) is not None:
            bad = "can return without pushing src()->point"
    cp_ins = [n for n in calls(fn) if n.get("cname", "").endswith("::insert") and norm(call_object(n)) == "checkpoints" and norm(call_args(n)[-1]) == "src()"]
    cp_push = [n for n in calls(fn) if n.get("cname", "").endswith("::push_back") and norm(call_object(n)) == "checkpoints" and norm(call_args(n)[0]) == "dst()"]
    if not cp_ins or not cp_push:
        bad = bad or "the leg list is not src(), checkpoints..., dst()"
    r.count(3)
    (r.bad if bad else r.ok)("Avoid::ConnRef::generateCheckpointsPath", fn.where(), bad or "")
    fn = prog.fn("Avoid::ConnRef::generatePath")
    texts = set()
    for n in fn.nodes():
        if n.get("mac") == "COLA_ASSERT" and n.get("k") == "ConditionalOperator":
            texts.add(norm(n["ch"][0]))
    need = ["(vertices[0] == src())", "(vertices[(vertices.size() - 1)] == dst())", "(vertices.size() >= 2)"]
    miss = [t for t in need if t not in texts]
    r.count(3)
    (r.bad if miss else r.ok)("Avoid::ConnRef::generatePath", fn.where(), "missing end-point assertions: %s" % miss if miss else "")


def rule_sweep_border(chk, prog):
    r = chk.rule("SWEEP-BORDER", "vertexSweep (Lee's algorithm): for at least one polygon neighbour role (shPrev or shNext) of every swept vertex k, "
                 "`centre lies on the edge (neighbour, k)` is recorded in onBorderIDs under no condition other than the neighbour existing, "
                 "not being the centre itself, and pointOnLine(neighbour, k, centre) -- in particular independently of the tests for "
                 "edges crossing the initial ray (every edge is met from both of its ends, so one role covers all edges); sweepVisible "
                 "treats a point at the distance of the closest edge as blocked when the centre lies on that shape's border", floor=2)
    fn = prog.fn("Avoid::vertexSweep")
    sal = single_assignment_locals(fn)
    ins = [c for c in calls(fn) if c.get("cname", "").endswith("::insert") and norm(call_object(c)) == "onBorderIDs"]
    seen = {}
    for c in ins:
        pc = path_condition(fn, c, inline=True)
        ats = [a for a in atoms(pc) if ".end()" not in a and "vend" not in a]
        on = [a for a in ats if a.startswith("Avoid::pointOnLine(")]
        which = None
        for a in on:
            if "shPrev" in a:
                which = "shPrev"
            elif "shNext" in a:
                which = "shNext"
        if which is None:
            continue
        extra = [a for a in ats if not (a.startswith("Avoid::pointOnLine(") or a == "t.*.vInf.%s" % which or
                                        (a.startswith("(t.*.vInf.%s != " % which) and a.count(" ") == 2))]
        good = not extra and entails(_drop_iter(pc), ("atom", on[0]))
        seen.setdefault(which, []).append((good, c, extra))
    # every obstacle edge (a, b = a.shNext) away from the centre is met twice by the loop over the swept vertices: at k = a through shNext
    # and at k = b through shPrev (both ends belong to one shape, so both are in the vertex list or neither is).  One unconditional
    # recording -- for either neighbour role -- therefore covers every edge; a second one is redundant, not required.
    r.count()
    allrec = [(g, c, e, w) for w in ("shPrev", "shNext") for g, c, e in seen.get(w, [])]
    if not allrec:
        r.bad("border recorded for every edge", fn.where(), "the sweep never records that its centre lies on an obstacle edge: a corner resting on "
              "another side of the same shape is then declared visible straight through the shape")
    elif not any(g for g, c, e, w in allrec):
        g, c, e, w = allrec[0]
        r.bad("border recorded for every edge", fn.loc(c), "`centre on the edge to %s` is recorded only under the additional condition(s) %s, and no "
              "recording for the other neighbour is unconditional either: an edge that is collinear with the initial ray is never looked at" % (w, e[:2]))
    else:
        g, c, e, w = [x for x in allrec if x[0]][0]
        r.ok("border recorded for every edge", fn.loc(c), "unconditional for the %s neighbour of every swept vertex" % w)
    fv = prog.fn("Avoid::sweepVisible")
    sets = [node for lhs, node, op in writes(fv) if norm(lhs) == "visible" and literal_value(node["ch"][1]) == "false"]
    touching = 0
    for st in sets:
        pc = path_condition(fv, st, inline=False)
        if any("onBorderIDs.find(" in a for a in atoms(pc)) and any("(point.distance == closestIt.*.angleDist)" in a or "== closestIt" in a for a in atoms(pc)):
            touching += 1
    r.count()
    (r.ok if touching >= 2 else r.bad)("sweepVisible touching case", fv.where(), "" if touching >= 2 else
                                       "a point at exactly the distance of the closest edge is no longer blocked when the centre lies on that shape's border "
                                       "(both the connector-end-point and the shape-vertex branch must test it)")


def _drop_iter(f):
    if f[0] == "atom":
        return ("const", True) if (".end()" in f[1] or "vend" in f[1]) else f
    if f[0] == "const":
        return f
    if f[0] == "not":
        inner = _drop_iter(f[1])
        if f[1][0] == "atom" and inner == ("const", True):
            return ("const", True)
        return ("not", inner)
    return (f[0], _drop_iter(f[1]), _drop_iter(f[2]))


def rule_free_side_lines(chk, prog):
    """Orthogonal visibility: the free line along a shape's side stops at shapes overlapping that side."""
    from ..microai.interp import Interp, Obj, Vec, SetVal, Oracle, AssertFail, Thrown, Unsupported, default_obj
    from fractions import Fraction
    r = chk.rule("FREE-SIDE-LINES", "processEventHori / processEventVert (pass 2, shape side events), interpreted with the limits reported by "
                 "findFirstPointAboveAndBelow: when no shape overlaps the side line (minLimitMax >= maxLimitMin) one visibility line "
                 "[minLimit, maxLimit] through both corners is created; otherwise at most the two pieces [minLimit, minLimitMax] and "
                 "[maxLimitMin, maxLimit], each only if non-empty and containing its shape corner -- no created line enters the blocked "
                 "stretch (minLimitMax, maxLimitMin), and every line lies at the side's own coordinate; the same for processEventVert", floor=2)
    ev_types = {}
    for e in prog.enums.values():
        nm_ = [c["name"] for c in e.get("enumerators", [])]
        if "SegOpen" in nm_ and "ConnPoint" in nm_ and str(e.get("q", "")).startswith("Avoid::"):
            ev_types = {c["name"]: int(c["v"]) for c in e["enumerators"]}
    if "Open" not in ev_types:
        raise AnalysisBroken("Avoid::EventType enumerators not found")
    shape = (40, 60)
    cases = [(0, 100, 100, 0), (0, 100, 70, 30), (0, 100, 30, 70), (0, 100, 45, 55), (0, 100, 30, 55), (0, 100, 45, 70), (0, 100, 0, 70),
             (0, 100, 30, 100), (10, 90, 10, 90), (0, 100, 39, 61), (0, 100, 40, 60)]
    for fname, side_dim in (("Avoid::processEventHori", 0), ("Avoid::processEventVert", 1)):
      fn = prog.fn(fname)
      n = 0
      bad = None
      for et in ("Open", "Close"):
        for (mn, mx, mnmx, mxmn) in cases:
            made = []

            def find_hook(it, nd, env, vals=(mn, mx, mnmx, mxmn)):
                a = call_args(nd)
                for k_, v_ in zip(range(2, 6), vals):
                    it.lv(a[k_], env).set(Fraction(v_))
                return None

            def ins_hook(it, nd, env):
                seg = it.ev(call_args(nd)[0], env)
                made.append(seg)
                return seg

            def seg_ctor(it, o, args, env):
                a = [it.ev(x, env) for x in args]
                o.f["begin"], o.f["finish"], o.f["pos"] = a[0], a[1], a[2]
                o.f["vertInfs"] = SetVal()
            lo = [Fraction(200), Fraction(shape[0])]
            hi = [Fraction(260), Fraction(shape[1])]
            if side_dim == 1:
                lo.reverse()
                hi.reverse()
            node = default_obj(prog, "Avoid::Node", {"min": Vec(lo), "max": Vec(hi)})
            evt = default_obj(prog, "Avoid::Event", {"type": ev_types[et], "v": node, "pos": Fraction(200 if et == "Open" else 260)})
            hooks = {"Avoid::Node::findFirstPointAboveAndBelow": find_hook, "Avoid::SegmentListWrapper::insert": ins_hook}
            it = Interp(prog, Oracle([]), hooks=hooks)
            it.ctor_hooks = {"Avoid::LineSegment": seg_ctor, "Avoid::VertInf": lambda it_, o, args, env: o.f.__setitem__("point", it_.ev(args[2], env))}
            try:
                it.call(fn, None, None, None, arg_values=[default_obj(prog, "Avoid::Router", {}), SetVal(), default_obj(prog, "Avoid::SegmentListWrapper", {}), evt, 2])
            except (Unsupported, AssertFail, Thrown) as e:
                raise AnalysisBroken("%s outside the interpreter subset: %s" % (fname, e))
            n += 1
            got = []
            for a_, b_ in sorted((s_.f["begin"], s_.f["finish"]) for s_ in made):      # touching pieces are one line (the list merges them)
                if got and a_ <= got[-1][1]:
                    got[-1] = (got[-1][0], max(got[-1][1], b_))
                else:
                    got.append((a_, b_))
            linex = Fraction(200 if et == "Open" else 260)
            if mnmx >= mxmn:
                want = [(Fraction(mn), Fraction(mx))]
            else:
                want = []
                if mnmx > mn and mnmx >= shape[0]:
                    want.append((Fraction(mn), Fraction(mnmx)))
                if mxmn < mx and mxmn <= shape[1]:
                    want.append((Fraction(mxmn), Fraction(mx)))
                want.sort()
            inst = "%s side, limits [%d,%d], overlapping stretch (%d,%d)" % (et, mn, mx, mnmx, mxmn)
            if got != want:
                bad = bad or "%s: visibility lines %s, expected %s" % (inst, [(str(a), str(b)) for a, b in got], [(str(a), str(b)) for a, b in want])
            if mnmx < mxmn and any(b_ > mnmx and a_ < mxmn for a_, b_ in got):
                bad = bad or "%s: a created line enters the stretch covered by an overlapping shape" % inst
            if any(s_.f["pos"] != linex for s_ in made):
                bad = bad or "%s: a line is created at %s, the side is at %s" % (inst, [str(s_.f["pos"]) for s_ in made], linex)
      r.count()
      r.evaluations = getattr(r, "evaluations", 0) + n
      (r.bad if bad else r.ok)("%s side lines" % fname.split("::")[-1], fn.where(), bad or "%d limit configurations" % n)


def rule_contains(chk, prog):
    r = chk.rule("CONTAINS-AGREEMENT", "the two producers of Router::contains (which shapes enclose a connector end point: generateContains "
                 "per end point, adjustContainsWithAdd per added shape) test the same polygon -- the obstacle's routingPolygon(), the one "
                 "whose vertices are in the visibility graph -- with inPoly(..., countBorder = false); an end point inside the buffer ring "
                 "of a shape but not recorded as enclosed gets no visibility edges and its connector falls back to a straight line", floor=3)
    fn = prog.fn("Avoid::Router::generateContains")
    sal = single_assignment_locals(fn)
    cs = [c for c in calls(fn) if c.get("cname") == "Avoid::inPoly"]
    r.count()
    if len(cs) != 1:
        raise AnalysisBroken("generateContains: expected one inPoly test")
    a = call_args(cs[0])
    bad = None
    if "routingPolygon()" not in norm(a[0], sal):
        bad = "encloses-test uses `%s`, not the obstacle's routingPolygon()" % norm(a[0], sal)
    elif norm(a[2], sal) not in ("false",):
        bad = "points on the border are counted as inside (countBorder = %s)" % norm(a[2], sal)
    (r.bad if bad else r.ok)("generateContains", fn.loc(cs[0]), bad or "")
    fa = prog.fn("Avoid::Router::adjustContainsWithAdd")
    sal = single_assignment_locals(fa)
    cs = [c for c in calls(fa) if c.get("cname") == "Avoid::inPoly"]
    r.count()
    bad = None
    if len(cs) != 1 or norm(call_args(cs[0])[0]) != fa.params[0]["name"] or norm(call_args(cs[0])[2], sal) != "false":
        bad = "adjustContainsWithAdd no longer tests its polygon parameter with countBorder = false"
    (r.bad if bad else r.ok)("adjustContainsWithAdd", fa.where(), bad or "")
    k = 0
    for f in prog.all_functions():
        if f.tmpl == "pattern" or "/libavoid/" not in f.file:
            continue
        sl = None
        for c in calls(f):
            if c.get("cname") != "Avoid::Router::adjustContainsWithAdd":
                continue
            sl = sl or single_assignment_locals(f)
            k += 1
            r.count()
            a0 = norm(call_args(c)[0], sl)
            (r.ok if "routingPolygon()" in a0 else r.bad)("%s: adjustContainsWithAdd(%s)" % (f.q, a0[:60]), f.loc(c), "" if "routingPolygon()" in a0 else
                                                          "enclosure of end points by an added shape is tested against `%s`, not its routingPolygon()" % a0)
    if k == 0:
        raise AnalysisBroken("no call site of adjustContainsWithAdd")


def rule_sweep_set_total(chk, prog):
    """The Lee sweep keeps its vertices in a std::set<PointPair>: two different vertices must never be equivalent, or one is dropped."""
    from ..microai.interp import Interp, Obj, Oracle, Unsupported, AssertFail, default_obj
    from fractions import Fraction
    r = chk.rule("SWEEP-SET-TOTAL", "PointPair::operator< (the order of the vertex set swept by vertexSweep) interpreted on pairs with equal angle and "
                 "equal distance: two pairs for DIFFERENT vertices (ids differing in the object id or only in the vertex number) are ordered one "
                 "way or the other, never equivalent -- an equivalent pair is silently dropped by std::set::insert and that vertex (e.g. the "
                 "end point of a second connector at the same position) gets no visibility edge from this sweep; equal ids are equivalent; "
                 "different angle / distance decide before the ids", floor=5)
    cands = [f for f in prog.all_functions() if f.q == "Avoid::PointPair::operator<" and f.body is not None]
    if len(cands) != 1:
        raise AnalysisBroken("Avoid::PointPair::operator< not found")
    fn = cands[0]

    def pp(angle, dist, obj, vn):
        vid = default_obj(prog, "Avoid::VertID", {"objID": obj, "vn": vn, "props": 0})
        vi = default_obj(prog, "Avoid::VertInf", {"id": vid})
        return default_obj(prog, "Avoid::PointPair", {"vInf": vi, "angle": Fraction(angle), "distance": Fraction(dist)})
    cases = [("same position, different object ids", pp(1, 5, 3, 1), pp(1, 5, 4, 1), "one"),
             ("same position, same object, different vertex numbers", pp(1, 5, 3, 1), pp(1, 5, 3, 2), "one"),
             ("same vertex id", pp(1, 5, 3, 1), pp(1, 5, 3, 1), "none"),
             ("same angle, different distance", pp(1, 5, 9, 1), pp(1, 7, 3, 1), "first"),
             ("different angle", pp(1, 9, 9, 1), pp(2, 5, 3, 1), "first")]
    for name, a, b, want in cases:
        it = Interp(prog, Oracle([]))
        r.count()
        try:
            ab = bool(it.call(fn, a, None, None, arg_values=[b]))
            ba = bool(it.call(fn, b, None, None, arg_values=[a]))
        except Unsupported as e:
            raise AnalysisBroken("PointPair::operator< outside the interpreter subset: %s" % e)
        bad = None
        if want == "one" and ab == ba:
            bad = "a < b is %s and b < a is %s: %s" % (ab, ba, "the two vertices are equivalent and the set keeps only one of them" if not ab else "not a strict order")
        elif want == "none" and (ab or ba):
            bad = "a pair compares less than itself"
        elif want == "first" and not (ab and not ba):
            bad = "a < b is %s, b < a is %s; expected the first to come first" % (ab, ba)
        (r.bad if bad else r.ok)(name, fn.where(), bad or "")


def rule_path_edges_registered(chk, prog):
    r = chk.rule("PATH-EDGES-REGISTERED", "ConnRef::generatePath registers the connector's reroute flag with EVERY visibility edge of the path it has "
                 "just found (polyline routing with invisibility edges): the call EdgeInf::addConn sits in a loop over all consecutive vertex "
                 "pairs under no condition other than that routing mode and the edge existing -- an edge that is not told about the connector "
                 "cannot flag it when a shape is later added or moved across that stretch, and the connector keeps a route through the shape", floor=1)
    fn = prog.fn("Avoid::ConnRef::generatePath")
    g = CFG(fn)
    cs = [c for c in calls(fn) if c.get("cname") == "Avoid::EdgeInf::addConn"]
    r.count()
    if len(cs) != 1:
        raise AnalysisBroken("generatePath: expected one EdgeInf::addConn call, found %d" % len(cs))
    allowed = {"(i < vertices.size())", "(m_type == Avoid::ConnType_PolyLine)", "edge", "m_router.InvisibilityGrph"}
    ats = set(atoms(path_condition(fn, cs[0], inline=False)))
    extra = sorted(ats - allowed)
    loops = [a for a in fn.ancestors(cs[0]) if a.get("k") == "ForStmt"]
    bad = None
    if extra:
        bad = "the reroute flag is registered with a path edge only under the further condition(s) %s" % extra[:2]
    elif not loops or "1" not in norm(loops[0].get("init")) or "vertices.size()" not in norm(loops[0].get("cond")):
        bad = "the registration loop does not run over all consecutive vertex pairs of the path"
    elif norm(call_args(cs[0])[0]) != "m_reroute_flag_ptr":
        bad = "addConn is given `%s`, not the connector's reroute flag" % norm(call_args(cs[0])[0])
    (r.bad if bad else r.ok)("generatePath", fn.loc(cs[0]), bad or "")


def rule_outside_visibility(chk, prog):
    r = chk.rule("OUTSIDE-VISIBILITY", "fixConnectionPointVisibilityOnOutsideOfVisibilityGraph: every connector end point / pin on the FIRST and on the "
                 "LAST position of a sweep gets the added direction (visDirections |= addedVisibility) whatever directions it already has -- "
                 "both loops, no further condition: an outermost end point that may only leave outwards has no orthogonal visibility "
                 "otherwise and its connector falls back to a straight line through the shapes", floor=2)
    fn = prog.fn("Avoid::fixConnectionPointVisibilityOnOutsideOfVisibilityGraph")
    sts = [(lhs, node, op) for lhs, node, op in writes(fn) if written_field(lhs)[0] == "Avoid::VertInf::visDirections"]
    seen = {"first": False, "last": False}
    for lhs, node, op in sts:
        which = "last" if "revIndex" in norm(lhs, single_assignment_locals(fn)) or "totalEvents - 1" in norm(lhs, single_assignment_locals(fn)) else "first"
        r.count()
        sal = single_assignment_locals(fn)
        obj = norm(lhs, sal).rsplit(".visDirections", 1)[0]
        ats = [a for a in atoms(path_condition(fn, node, inline=True)) if a not in ("(index < totalEvents)", "(totalEvents > 0)")]
        # (a null test of the very vertex that is written is part of the store, not a further condition)
        extra = [a for a in ats if a != obj and not re.fullmatch(r"events\[.*\]\.v\.c", a)]
        bad = None
        if extra:
            bad = "the direction is added only under the further condition(s) %s" % extra[:2]
        elif op != "|=" or norm(node["ch"][1]) != fn.params[2]["name"]:
            bad = "the store is `%s %s`, not `|= %s`" % (op, norm(node["ch"][1]), fn.params[2]["name"])
        else:
            seen[which] = True
        (r.bad if bad else r.ok)("%s sweep position" % which, fn.loc(node), bad or "")
    if not all(seen.values()) and len(sts) < 2:
        raise AnalysisBroken("fixConnectionPointVisibilityOnOutsideOfVisibilityGraph: the two stores were not recognised")


def rule_deleted_obstacle_ends(chk, prog):
    r = chk.rule("DELETED-OBSTACLE-ENDS", "Router::processActions, removal of an obstacle: before the obstacle is made inactive, EVERY connector end attached "
                 "to it (loop over m_following_conns, no iteration skipped) is queued as an end-point change to a free point at the end's current "
                 "position -- a new ConnChange action or an addition to the one already queued for that connector; without it the end vertex "
                 "stays a dummy pin vertex without visibility and the route becomes a straight line to the deleted shape's centre", floor=1)
    fn = prog.fn("Avoid::Router::processActions")
    g = CFG(fn)
    inact = [c for c in calls(fn) if c.get("cname") in ("Avoid::Obstacle::makeInactive", "Avoid::ShapeRef::makeInactive", "Avoid::JunctionRef::makeInactive")]
    loops = [n for n in fn.nodes() if n.get("k") == "ForStmt" and "m_following_conns" in norm(n.get("init")) + norm(n.get("cond"))]
    r.count()
    bad = None
    if not inact:
        raise AnalysisBroken("processActions: makeInactive not found")
    if not loops:
        bad = "no loop over the deleted obstacle's attached connector ends (m_following_conns)"
    else:
        lp = loops[0]
        pushes = [c for c in walk(lp["body"]) if c.get("k") == "CXXMemberCallExpr" and (
            (str(c.get("cname", "")).endswith("::push_back") and norm(call_object(c)) == "actionList") or c.get("cname") == "Avoid::ActionInfo::addConnEndUpdate")]
        if len(pushes) < 2 or g.iteration_can_skip(lp, [c["id"] for c in pushes]) is not None:
            bad = "an attached end can pass the loop without an end-point change being queued for it"
        elif not any(n.get("k") == "CXXConstructExpr" and n.get("cname") == "Avoid::ConnEnd" and any("position()" in norm(a) for a in n.get("ch", []))
                     for n in walk(lp["body"])):
            bad = "the queued end is not a free point at the attached end's current position()"
        else:
            same_iter = [a for a in fn.ancestors(lp) if a.get("k") in ("ForStmt", "WhileStmt") and any(x.get("id") == inact[0].get("id") for x in walk(a.get("body") or {}))]
            if not same_iter or not (lp.get("l", 0) < inact[0].get("l", 0)):
                bad = "the obstacle is made inactive (which disconnects the ends) before their updates are queued"
            pc = path_condition(fn, lp, inline=False)
            if not any("isMove" in a or "Remove" in a or "remove" in a.lower() for a in atoms(pc)):
                bad = bad or "the loop is not on the removal branch (%s)" % show(pc)[:100]
    (r.bad if bad else r.ok)("processActions (obstacle removal)", fn.loc(loops[0]) if loops else fn.where(), bad or "")


def rule_sweep_chord(chk, prog):
    r = chk.rule("SWEEP-CHORD", "vertexSweep (Lee's algorithm): a sweep centre that coincides with a vertex of an obstacle is recorded as lying on that "
                 "obstacle's border (besides centres on the open sides, SWEEP-BORDER), and a target that sweepVisible() accepts is still rejected "
                 "when chordThroughBorderObstacle() says the line is a chord through one of the recorded obstacles -- checked for every recorded "
                 "obstacle; the verdict can only be lowered", floor=2)
    fn = prog.fn("Avoid::vertexSweep")
    ins = [c for c in calls(fn) if str(c.get("cname", "")).endswith("::insert") and norm(call_object(c)) == "onBorderIDs"]
    r.count()
    corner = False
    for c in ins:
        pc_ = path_condition(fn, c, inline=True)
        if entails(pc_, ("const", False)):
            continue            # unreachable (e.g. `if (false && ...)`)
        ats = atoms(pc_)
        if any(re.search(r"\.point == (centerInf|vert)\.point\)$", a) or re.search(r"^\((centerInf|vert)\.point == .*\.point\)$", a) for a in ats) \
                and not any("pointOnLine" in a or "vecDir" in a for a in ats):
            corner = True
    (r.ok if corner else r.bad)("centre on an obstacle corner recorded", fn.where(), "" if corner else
                                "a centre that coincides with an obstacle vertex is not recorded in onBorderIDs (pointOnLine tests the open sides only): a "
                                "chord from that corner through the obstacle is then accepted")
    r.count()
    ch = [c for c in calls(fn) if c.get("cname") == "Avoid::chordThroughBorderObstacle"]
    bad = None
    if not ch:
        bad = "no chord test after sweepVisible()"
    else:
        lp = [a for a in fn.ancestors(ch[0]) if a.get("k") == "ForStmt"]
        if not lp or "onBorderVerts" not in norm(lp[0].get("init")) + norm(lp[0].get("cond")):
            bad = "the chord test is not applied to every obstacle the centre lies on"
        else:
            lowered = [node for lhs, node, op in writes(fn) if norm(lhs) == "currVisible" and literal_value(node["ch"][1]) == "false"
                       and any(x.get("id") == node.get("id") for x in walk(lp[0]["body"]))]
            if not lowered:
                bad = "a chord through an obstacle does not lower the visibility verdict"
    (r.bad if bad else r.ok)("chord test after the sweep's verdict", fn.loc(ch[0]) if ch else fn.where(), bad or "")


def rule_enclosing_ignored(chk, prog):
    from ..sibling.mirror import mirror_blocks_equal
    r = chk.rule("ENCLOSING-SHAPES-IGNORED", "EdgeInf::firstBlocker leaves out the shapes that enclose EITHER end of the edge when that end is a connector "
                 "end point: the two statements (for m_vert1 and for m_vert2) are mirror images and neither depends on the other -- with an "
                 "`else`, an edge from an end point inside a shape to an end point inside another shape stays `blocked` by the second shape", floor=1)
    fn = prog.fn("Avoid::EdgeInf::firstBlocker")
    blocks = {}
    for n in fn.nodes():
        if n.get("k") == "IfStmt" and norm(n["cond"]) in ("iID.isConnPt()", "jID.isConnPt()"):
            if any("::insert" in str(c.get("cname", "")) and norm(call_object(c)) == "ss" for c in walk(n.get("then") or {}) if c.get("k") == "CXXMemberCallExpr"):
                blocks[norm(n["cond"])[0]] = n
    r.count()
    if set(blocks) != {"i", "j"}:
        raise AnalysisBroken("firstBlocker: the two `enclosing shapes` statements were not found")
    bad = None
    for nm, n in blocks.items():
        other = "jID.isConnPt()" if nm == "i" else "iID.isConnPt()"
        if other in atoms(path_condition(fn, n["then"], inline=False)):
            bad = bad or "the shapes enclosing end %s are ignored only when the other end is not a connector end point" % nm
    ok, where = mirror_blocks_equal(blocks["i"]["then"], blocks["j"]["then"], "i/j")
    if not ok:
        bad = bad or "the two statements are not mirror images: ...%s... vs ...%s..." % (where[0][-60:], where[1][-60:])
    (r.bad if bad else r.ok)("firstBlocker", fn.loc(blocks["j"]), bad or "")


def rule_hyperedge_foreign_points(chk, prog):
    from ..rules.guards import path_condition, atoms
    r = chk.rule("HYPEREDGE-AVOIDS-FOREIGN-POINTS", "MinimumTerminalSpanningTree::constructInterleaved: the shortest-path forest grows into an unexplored vertex "
                 "(the vertex is given the tree root pointer of the vertex the search stands on) only past a test that names isConnPt() together "
                 "with the terminal sets: a connector end point / connection pin vertex of the orthogonal visibility graph, which may lie inside "
                 "a shape, is entered only when it is one of the hyperedge's own terminals or from a terminal's dummy pin vertex.  The test "
                 "belongs HERE and not in getOrthogonalEdgesFromVertex, which rewriteRestOfHyperedge also walks the committed tree with (a "
                 "filter there orphans committed pins: the first repair did that and was corrected)", floor=1)
    fn = prog.fn("Avoid::MinimumTerminalSpanningTree::constructInterleaved")
    grows = [c for c in calls(fn) if str(c.get("cname", "")).endswith("VertInf::setTreeRootPointer") and literal_value(call_args(c)[0]) != "null"
             and "treeRootPointer()" in norm(call_args(c)[0])]
    if not grows:
        raise AnalysisBroken("constructInterleaved: the statement that attaches an unexplored vertex to a tree was not found")
    for c in grows:
        r.count()
        pc = path_condition(fn, c, inline=False, early=True)
        ats = atoms(pc)
        a_conn = [a for a in ats if a.endswith(".isConnPt()")]
        a_dummy = [a for a in ats if a.endswith(".isDummyPinHelper()")]
        a_find = [a for a in ats if "erminals.find(" in a and "==" in a]
        benign = [a for a in ats if re.match(r"^\w+$", a) or re.match(r"^\(\w+ != \w+\)$", a)]       # null / identity tests of the two vertices
        want = ("const", False)
        for a in a_conn[:1] + a_find + benign:
            want = ("or", want, ("not", ("atom", a)))
        for a in a_dummy:
            want = ("or", want, ("atom", a))
        ok = bool(a_conn) and bool(a_find) and entails(pc, want)
        (r.ok if ok else r.bad)("forest growth at line %s" % c.get("l"), fn.loc(c), "" if ok else
                                "the forest grows into any unexplored vertex, also a connector end point / pin that is not a terminal of this hyperedge")
    # the walk over the committed tree must see every edge: no terminal-set test in the shared edge enumeration
    fe = prog.fn("Avoid::MinimumTerminalSpanningTree::getOrthogonalEdgesFromVertex")
    r.count()
    filt = [a for c in calls(fe) if str(c.get("cname", "")).endswith("::push_back") for a in atoms(path_condition(fe, c, inline=False, early=True)) if "erminals.find(" in a]
    (r.bad if filt else r.ok)("edge enumeration shared with rewriteRestOfHyperedge", fe.where(), "" if not filt else
                              "getOrthogonalEdgesFromVertex filters by the terminal sets (%s): rewriteRestOfHyperedge no longer reaches committed pins, "
                              "whose tree root pointer is nulled afterwards (assertion in constructInterleaved)" % sorted(set(filt))[0])


def rule_hyperedge_segments_all(chk, prog):
    r = chk.rule("HYPEREDGE-SEGMENTS-ALL", "HyperedgeImprover::buildHyperedgeSegments collects the shift segments of EVERY hyperedge tree into "
                 "m_all_shift_segments (buildOrthogonalChannelInfo gives only the segments in that list their obstacle limits; the others keep "
                 "+-CHANNEL_MAX and are shifted through shapes): inside the loop over the tree roots the list is only added to "
                 "(insert / push_back), never assigned, cleared or swapped, and no iteration can end without the addition", floor=1)
    fn = prog.fn("Avoid::HyperedgeImprover::buildHyperedgeSegments")
    g = CFG(fn)
    loops = [n for n in fn.nodes() if n.get("k") in ("ForStmt", "CXXForRangeStmt") and "m_hyperedge_tree_roots" in (norm(n.get("init")) + norm(n.get("cond")) + norm(n.get("range")))]
    if not loops:
        raise AnalysisBroken("buildHyperedgeSegments: loop over the hyperedge tree roots not found")
    lp = loops[0]
    uses = [c for c in walk(lp["body"]) if c.get("k") in ("CXXMemberCallExpr", "CXXOperatorCallExpr") and call_object(c) is not None
            and norm(call_object(c)) == "m_all_shift_segments"]
    adds = [c for c in uses if re.search(r"::(insert|push_back|emplace_back|splice|merge)(<|$)", str(c.get("cname", "")))]
    other = [c for c in uses if c not in adds and not re.search(r"::(begin|end|size|empty|cbegin|cend)$", str(c.get("cname", "")))]
    r.count()
    bad = None
    if other:
        bad = "inside the loop over the hyperedge trees m_all_shift_segments is subjected to %s: the segments of the trees handled before are dropped" % (
            re.sub(r"<.*$", "", str(other[0].get("cname")).split("(")[0]).split("::")[-1])
    elif not adds:
        bad = "the segments of a hyperedge tree are no longer added to m_all_shift_segments"
    elif g.iteration_can_skip(lp, [c["id"] for c in adds]) is not None:
        bad = "an iteration over a hyperedge tree can end without adding its segments to m_all_shift_segments"
    (r.bad if bad else r.ok)("segments of every tree collected", fn.loc((other or adds or [lp])[0]), bad or "")


def rule_fixed_route_cleared(chk, prog):
    from ..rules.guards import path_condition, atoms
    r = chk.rule("FIXED-ROUTE-CLEARED", "while a connector has a fixed route ConnRef::updateEndPoint returns before computing visibility for its end "
                 "vertices; ConnRef::clearFixedRoute therefore queues both end points again (setEndpoints / setSourceEndpoint + setDestEndpoint "
                 "/ updateEndPoint for both), under no condition other than the end vertices existing -- otherwise the search finds no path "
                 "and the connector is drawn straight through the obstacles from then on", floor=2)
    up = prog.fn("Avoid::ConnRef::updateEndPoint")
    ret = [n for n in up.nodes() if n.get("k") == "ReturnStmt" and any("m_has_fixed_route" in a for a in atoms(path_condition(up, n, inline=False)))]
    r.count()
    if not ret:
        r.ok("updateEndPoint shortcut", up.where(), "updateEndPoint no longer returns early for fixed routes (clause vacuous)")
        return
    r.ok("updateEndPoint shortcut", up.loc(ret[0]), "returns early under m_has_fixed_route")
    fn = prog.fn("Avoid::ConnRef::clearFixedRoute")
    g = CFG(fn)
    both = [c for c in calls(fn) if c.get("cname") == "Avoid::ConnRef::setEndpoints"]
    srcs = [c for c in calls(fn) if c.get("cname") in ("Avoid::ConnRef::setSourceEndpoint",)]
    dsts = [c for c in calls(fn) if c.get("cname") in ("Avoid::ConnRef::setDestEndpoint",)]
    r.count()
    bad = None
    groups = [both] if both else ([srcs, dsts] if srcs and dsts else [])
    if not groups:
        bad = "the end points are not queued again: their vertices keep having no visibility edges"
    else:
        for grp in groups:
            c = grp[0]
            ats = atoms(path_condition(fn, c, inline=False))
            extra = [a for a in ats if a.strip("()! ") not in ("m_src_vert", "m_dst_vert", "true") and "m_src_vert" not in a and "m_dst_vert" not in a]
            if extra:
                bad = bad or "the end points are queued again only under %s" % sorted(extra)
    (r.bad if bad else r.ok)("clearFixedRoute re-queues the end points", fn.where(), bad or "")


def rule_bounding_box(chk, prog):
    from ..microai.interp import Interp, Vec, Oracle, Unsupported, AssertFail, default_obj
    from fractions import Fraction as F
    r = chk.rule("BOUNDING-BOX-ENCLOSES", "PolygonInterface::offsetBoundingBox interpreted on polygons whose vertex ORDER makes one vertex a new extreme in x "
                 "and in y at once (a triangle, a hexagon listed from an inner vertex, a rectangle, a single point): the box is exactly "
                 "[min x - offset, max x + offset] x [min y - offset, max y + offset] -- orthogonal routing treats this box, not the polygon, "
                 "as the obstacle, so a box that loses an extreme lets routes through the shape", floor=4)
    fn = prog.fn("Avoid::PolygonInterface::offsetBoundingBox")
    cases = [("triangle", [(100, 100), (-100, 200), (0, 0)]), ("hexagon listed from an inner vertex", [(0, 50), (40, 90), (90, 100), (130, 40), (90, -20), (30, -10)]),
             ("rectangle", [(0, 0), (10, 0), (10, 5), (0, 5)]), ("single point", [(3, 4)]), ("descending diagonal", [(5, 5), (4, 4), (6, 6), (3, 7)])]
    for name, pts in cases:
        for off in (F(0), F(2)):
            r.count()
            poly = default_obj(prog, "Avoid::Polygon", {"ps": Vec([default_obj(prog, "Avoid::Point", {"x": F(x), "y": F(y)}) for x, y in pts], "Avoid::Point")})
            it = Interp(prog, Oracle([]))
            bad = None
            try:
                b = it.call(fn, poly, None, None, arg_values=[off])
            except Unsupported as e:
                raise AnalysisBroken("offsetBoundingBox outside the interpreter subset: %s" % e)
            except AssertFail as e:
                bad = "assertion fails: %s" % e
            if not bad:
                got = (F(b.f["min"].f["x"]), F(b.f["min"].f["y"]), F(b.f["max"].f["x"]), F(b.f["max"].f["y"]))
                want = (min(x for x, y in pts) - off, min(y for x, y in pts) - off, max(x for x, y in pts) + off, max(y for x, y in pts) + off)
                if got != want:
                    bad = "box (%s, %s)-(%s, %s), the polygon reaches (%s, %s)-(%s, %s)" % tuple(str(v) for v in got + want)
            (r.bad if bad else r.ok)("%s, offset %s" % (name, off), fn.where(), bad or "")


def rule_naive_visibility_covers(chk, prog):
    r = chk.rule("NAIVE-VISIBILITY-COVERS-ALL", "Obstacle::computeVisibilityNaive (UseLeesAlgorithm = false) tests every corner of the shape against every "
                 "other vertex of the router -- connector end points included: they compute their own visibility only when THEY are set, so "
                 "a shape added or moved later gets its edges to the existing end points here or never; the only vertices either loop may "
                 "skip are those whose id equals a constant (the orthogonal dummy id)", floor=2)
    fn = prog.fn("Avoid::Obstacle::computeVisibilityNaive")
    cs_ = [c for c in calls(fn) if (c.get("cname") or "").endswith("EdgeInf::checkEdgeVisibility")]
    if len(cs_) < 2:
        raise AnalysisBroken("computeVisibilityNaive: the two checkEdgeVisibility loops were not found")
    for c in cs_:
        r.count()
        loops = [a for a in fn.ancestors(c) if a.get("k") in ("ForStmt", "WhileStmt")]
        conds = {norm(l_.get("cond")) for l_ in loops if l_.get("cond") is not None}
        extra = [a for a in atoms(path_condition(fn, c, inline=False, early=True)) if a not in conds and not re.match(r"^\(\w+\.id == [\w:]+\)$", a)]
        (r.bad if extra else r.ok)("checkEdgeVisibility at line %s" % c.get("l"), fn.loc(c), "" if not extra else
                                   "vertices are left out under %s: a later shape never gets edges to them" % sorted(extra))


def run(chk):
    prog = chk.load()
    chk.guard(rule_bounding_box, chk, prog)
    chk.guard(rule_naive_visibility_covers, chk, prog)
    chk.guard(rule_fixed_route_cleared, chk, prog)
    chk.guard(rule_hyperedge_segments_all, chk, prog)
    chk.guard(rule_hyperedge_foreign_points, chk, prog)
    from .c10 import rule_fixed_stays
    chk.guard(rule_fixed_stays, chk, prog)           # nudging keeps every written position inside the segment's channel (both passes)
    chk.guard(rule_callers, chk, prog)
    chk.guard(rule_vis_guard, chk, prog)
    chk.guard(rule_blocking_scan, chk, prog)
    chk.guard(rule_first_blocker, chk, prog)
    chk.guard(rule_enclosing_ignored, chk, prog)
    chk.guard(rule_fallback, chk, prog)
    chk.guard(rule_endpoints, chk, prog)
    chk.guard(rule_contains, chk, prog)
    chk.guard(rule_sweep_border, chk, prog)
    chk.guard(rule_sweep_set_total, chk, prog)
    chk.guard(rule_path_edges_registered, chk, prog)
    chk.guard(rule_outside_visibility, chk, prog)
    chk.guard(rule_deleted_obstacle_ends, chk, prog)
    chk.guard(rule_sweep_chord, chk, prog)
    from .c16 import rule_shape_blocking
    chk.guard(rule_shape_blocking, chk, prog, ("square",))      # which segments a convex obstacle blocks
    chk.guard(rule_free_side_lines, chk, prog)
    from .c10 import rule_limits_narrow
    chk.guard(rule_limits_narrow, chk, prog)
    from ..rules import mirrors
    r = chk.rule("MIRROR", "scan-line helpers that bound the space a nudged segment may move in (firstObstacleAbove/Below, "
                 "markShiftSegmentsAbove/Below, NudgingShiftSegment::lowC/highC) stay exact mirror images of each other "
                 "(tables/mirrors.json): an asymmetric edit lets a segment be pushed into a shape on one side only", floor=3)
    mirrors.check(r, prog, ["Avoid::Node::", "Avoid::NudgingShiftSegment::"], sample=chk.sample)
