"""C04 -- libavoid polyline routes are Euclidean shortest paths: the structure of the A* search.

Decides:
  EUCLID-FORM      euclideanDist(a,b) / dist(a,b) return sqrt((a.x-b.x)^2 + (a.y-b.y)^2) (symbolic radicand)
  HEURISTIC-FORM   (shared with C05) the polyline estimate is exactly euclideanDist(curr, target): admissible and consistent
  ASTAR-STRUCTURE  in AStarPathPrivate::search every store to ANode::f is g + h of the same node; g is 0, the parent's g, or the
                   parent's g + cost(lineRef, edge length, ...); h is 0 or estimatedCost(...); the best node is PENDING.front() of a
                   heap ordered by ANodeCmp; an entry already on PENDING is replaced only when the new g is smaller
  NODE-ORDER       ANodeCmp is "greater f first, tolerance 1e-7, then lower time stamp" (decision table): a min-heap on f
  COST-FORM        cost(): with all penalties zero the result is exactly the edge length; with only a segment penalty P it is
                   length + {0,1,2}*P for straight / bend / double-back (decision table over the angle classes)
  EDGE-LENGTH      the length stored on a polyline visibility edge is the Euclidean distance of its two ends (checkVis), and
                   the search uses exactly the stored length
Not decided: that the visibility graph contains a shortest path and that pruning never removes all of them.
"""
import copy
import re
from fractions import Fraction

from ..astq import strip, strip_casts, calls, call_args, call_object, writes, written_field, norm, literal_value, src, single_assignment_locals
from ..facts import AnalysisBroken, walk
from ..microai.interp import Interp, Obj, Vec, Box, enumerate_paths, AssertFail, Thrown, Unsupported
from ..microai.poly import Poly, to_poly
from .c05 import pt, tree, rule_heuristic


def rule_euclid(chk, prog):
    r = chk.rule("EUCLID-FORM", "euclideanDist(a,b) and dist(a,b) are sqrt of exactly (a.x-b.x)^2 + (a.y-b.y)^2", floor=2)
    for q in ("Avoid::euclideanDist", "Avoid::dist"):
        fn = prog.fn(q)
        rad = []

        def h_sqrt(it, n, env):
            rad.append(to_poly(it.ev(n["ch"][1], env)))
            return Poly.var("SQRT")
        rows = tree(prog, fn, [pt("a"), pt("b")], hooks={"sqrt": h_sqrt, "std::sqrt": h_sqrt})
        ax, ay, bx, by = (Poly.var(v) for v in ("a.x", "a.y", "b.x", "b.y"))
        want = (ax - bx) * (ax - bx) + (ay - by) * (ay - by)
        bad = None
        if len(rows) != 1 or rows[0][2] != ("ret", Poly.var("SQRT")):
            bad = "does not return a single square root: %s" % [x[2] for x in rows]
        elif len(rad) != 1 or rad[0] != want:
            bad = "radicand is %r, expected %r" % (rad, want)
        r.count()
        (r.bad if bad else r.ok)(q, fn.where(), bad or "")


G_FORMS = ("0", "bestNode.g")


def rule_astar(chk, prog):
    r = chk.rule("ASTAR-STRUCTURE", "AStarPathPrivate::search: f := g + h of the same node at every store; g := 0 | parent.g | parent.g + "
                 "cost(lineRef, <edge length>, parent vertex, this vertex, grandparent node); h := 0 | estimatedCost(lineRef, .., this point); "
                 "best := PENDING.front() with make/push/pop_heap all using the ANodeCmp object; PENDING entries are replaced only under "
                 "node.g < existing.g; the search ends when best vertex == target", floor=6)
    fn = prog.fn("Avoid::AStarPathPrivate::search")
    sal = single_assignment_locals(fn)
    fs = gs = hs = 0
    bad = {}
    for lhs, node, op in writes(fn):
        fq, elem, mn = written_field(lhs)
        if fq not in ("Avoid::ANode::f", "Avoid::ANode::g", "Avoid::ANode::h") or op != "=":
            continue
        obj = norm(strip(lhs)["ch"][0])
        rhs = norm(node["ch"][1], None)
        if fq.endswith("::f"):
            fs += 1
            if rhs != "(%s.g + %s.h)" % (obj, obj):
                bad["f"] = (node, "f is assigned `%s`, not g + h of the same node" % rhs)
        elif fq.endswith("::g"):
            gs += 1
            ok = rhs in G_FORMS
            if not ok and rhs.startswith("(bestNode.g + Avoid::cost(lineRef, "):
                rn = strip_casts(node["ch"][1])
                c = strip_casts(rn["ch"][1])
                a = [norm(x, None) for x in call_args(c)]
                # edge length: the stored distance of the edge, or dist(parent point, this point) for the rubber-band prefix
                if a[1] in ("edgeDist",) and a[3] == "%s.inf" % obj and a[4] == "bestNode.prevNode" and a[2] in ("bestNodeInf", "bestNode.inf"):
                    ok = True
            if not ok:
                bad["g"] = (node, "g is assigned `%s`" % rhs)
        else:
            hs += 1
            ok = rhs == "0"
            if rhs.startswith("estimatedCost(lineRef, "):
                a = [norm(x, None) for x in call_args(strip_casts(node["ch"][1]))]
                if a[2] == "%s.inf.point" % obj and a[1] in ("nullptr", "NULL", "&bestNodeInf.point", "&bestNode.inf.point", "__null"):
                    ok = True
            if not ok:
                bad["h"] = (node, "h is assigned `%s`" % rhs)
    for kind, cnt in (("f", fs), ("g", gs), ("h", hs)):
        r.count(cnt)
        if cnt == 0:
            raise AnalysisBroken("search: no store to ANode::%s found" % kind)
        if kind in bad:
            r.bad("store " + kind, fn.loc(bad[kind][0]), bad[kind][1])
        else:
            r.ok("store " + kind, fn.where(), "%d stores" % cnt)
    # edgeDist provenance
    ed = [n for n in fn.nodes() if n.get("k") == "VarDecl" and n.get("name") == "edgeDist"]
    forms = sorted(set(norm(n.get("init"), None) for n in ed))
    okf = {"edge.*.getDist()", "dist(bestNode.inf.point, curr.point)"}
    dist_ptr = [n for n in fn.nodes() if n.get("k") == "VarDecl" and n.get("name") == "dist"]
    dist_ok = any(norm(d.get("init")).replace("(const Avoid::Point &,const Avoid::Point &)", "") ==
                  "(isOrthogonal ? Avoid::manhattanDist : Avoid::euclideanDist)" for d in dist_ptr)
    if not set(forms) <= okf or "edge.*.getDist()" not in forms or not dist_ok:
        r.bad("edge length", fn.where(), "edgeDist is initialised from %s, expected the edge's stored length" % forms)
    else:
        r.ok("edge length", fn.where(), str(forms))
    # heap discipline
    heap_calls = [n for n in calls(fn) if n.get("cname", "").split("<")[0] in ("std::make_heap", "std::push_heap", "std::pop_heap")]
    cmpvars = set(norm(call_args(n)[-1]) for n in heap_calls)
    cmpdecl = [n for n in fn.nodes() if n.get("k") == "VarDecl" and n.get("name") in cmpvars]
    if len(heap_calls) < 3 or len(cmpvars) != 1 or not cmpdecl or "ANodeCmp" not in cmpdecl[0].get("t", ""):
        r.bad("heap order", fn.where(), "heap operations do not consistently use one ANodeCmp comparator: %s" % sorted(cmpvars))
    else:
        r.ok("heap order", fn.where(), "%d heap operations with %s" % (len(heap_calls), cmpdecl[0]["t"]))
    repl = [node for lhs, node, op in writes(fn) if norm(lhs) == "currInd.*.*" and norm(node["ch"][-1]) == "node"]
    best = [node for lhs, node, op in writes(fn) if norm(lhs) == "bestNode" and op == "=" and norm(node["ch"][1]) == "PENDING.front()"]
    if not best:
        r.bad("best node", fn.where(), "the node expanded next is not PENDING.front()")
    else:
        r.ok("best node", fn.loc(best[0]))
    # replacement only when cheaper
    from ..rules.guards import path_condition, entails, show
    repl = [node for lhs, node, op in writes(fn) if norm(lhs) == "currInd.*.*" and norm(node["ch"][-1]) == "node"]
    if not repl:
        r.bad("relaxation", fn.where(), "no replacement of an existing PENDING entry found")
    else:
        pc = path_condition(fn, repl[0], inline=False)
        if entails(pc, ("atom", "(node.g < ati.g)")):
            r.ok("relaxation", fn.loc(repl[0]))
        else:
            r.bad("relaxation", fn.loc(repl[0]), "an existing PENDING entry is replaced under %s, not only when node.g < ati.g" % show(pc)[:200])
    # heap discipline: an element appended to PENDING is sifted with push_heap; an element overwritten in place invalidates
    # the heap property at an arbitrary position and must be followed by make_heap; pop_heap is followed by pop_back
    from ..cfg import CFG
    g = CFG(fn)
    mk = [n["id"] for n in heap_calls if n.get("cname", "").startswith("std::make_heap")]
    ph = [n["id"] for n in heap_calls if n.get("cname", "").startswith("std::push_heap")]
    popb = [n["id"] for n in calls(fn) if n.get("cname", "").endswith("::pop_back") and norm(call_object(n)) == "PENDING"]
    main_loop = [n for n in fn.nodes() if n.get("k") == "WhileStmt" and norm(n.get("cond")) == "!PENDING.empty()"]
    hd_bad = None
    if not main_loop:
        hd_bad = "main loop `while (!PENDING.empty())` not found"
    else:
        nxt = strip(main_loop[0]["cond"])["id"]
        for rp in repl:
            w = g.search([g.after(rp["id"])], blocked=mk, targets=[nxt])
            if w is not None:
                hd_bad = "after overwriting a queued node in place the heap is not rebuilt with make_heap before the next pop (%s): the " \
                         "cheaper entry can stay buried and a more expensive path be expanded first" % g.describe(w)
        for pb in [n for n in calls(fn) if n.get("cname", "").endswith("::push_back") and norm(call_object(n)) == "PENDING"
                   and any(x.get("id") == main_loop[0]["id"] for x in fn.ancestors(n))]:
            w = g.search([g.after(pb["id"])], blocked=ph + mk, targets=[nxt])
            if w is not None:
                hd_bad = hd_bad or "a node appended to PENDING inside the search loop is not sifted into the heap (%s)" % g.describe(w)
        for pp in [n for n in heap_calls if n.get("cname", "").startswith("std::pop_heap")]:
            w = g.search([g.after(pp["id"])], blocked=popb, targets=[nxt])
            if w is not None:
                hd_bad = hd_bad or "pop_heap is not followed by PENDING.pop_back()"
    (r.bad if hd_bad else r.ok)("heap discipline", fn.where(), hd_bad or "")
    # termination test
    term = [n for n in fn.nodes() if n.get("k") == "IfStmt" and norm(n["cond"]) in ("(bestNodeInf == tar)", "(bestNode.inf == tar)")
            and any(x.get("k") == "BreakStmt" for x in walk(n["then"]))]
    (r.ok if term else r.bad)("termination", fn.where(), "" if term else "the search does not stop when the expanded vertex is the target")


def rule_node_order(chk, prog):
    r = chk.rule("NODE-ORDER", "decision table of ANodeCmp::operator()(a,b) over f and timeStamp: true iff a.f > b.f + 1e-7, or |a.f-b.f| <= 1e-7 "
                 "and a.timeStamp < b.timeStamp (std heap with this order pops the smallest f; ties: highest time stamp)", floor=1)
    fn = prog.fn("Avoid::ANodeCmp::operator()")
    F1, F2 = Poly.var("F1"), Poly.var("F2")
    bad = None
    n_rows = 0
    lits = [Fraction(n["v"]) for n in fn.nodes() if n.get("k") == "FloatingLiteral"]
    if len(lits) != 1 or not (Fraction(1, 10 ** 8) <= lits[0] <= Fraction(1, 10 ** 6)):
        r.bad("Avoid::ANodeCmp::operator()", fn.where(), "tolerance literal(s) %s: expected one value near 1e-7" % [float(x) for x in lits])
        return
    eps = lits[0]
    cands = [Fraction(0), eps / 2, eps, eps * 2, Fraction(1)]
    for ta, tb in ((1, 2), (2, 1), (3, 3)):
        from ..microai.interp import default_obj
        a = default_obj(prog, "Avoid::ANode", {"inf": None, "g": Fraction(0), "h": Fraction(0), "f": F1, "prevNode": None, "timeStamp": ta})
        b = default_obj(prog, "Avoid::ANode", {"inf": None, "g": Fraction(0), "h": Fraction(0), "f": F2, "prevNode": None, "timeStamp": tb})

        def run(o):
            it = Interp(prog, o, lattice=False)
            try:
                return ("ret", it.call(fn, Obj("Avoid::ANodeCmp", {}), None, None, arg_values=[a, b]))
            except AssertFail as e:
                return ("assert", str(e))
        rows = enumerate_paths(run, limit=200)
        n_rows += len(rows)
        for val, descr, out in rows:
            # find concrete f values in this sign class
            wit = None
            for x in cands:
                for y in cands:
                    ok = True
                    for k, v in val.items():
                        pl = Poly({m: Fraction(c[0], c[1]) for m, c in k[1]})
                        e = pl.eval_exact({"F1": x, "F2": y})
                        if ((e > 0) - (e < 0)) != v:
                            ok = False
                            break
                    if ok:
                        wit = (x, y)
                        break
                if wit:
                    break
            if wit is None:
                continue
            x, y = wit
            want = True if x - y > eps else False if y - x > eps else (ta < tb)
            if out != ("ret", want):
                bad = "for a.f=%s b.f=%s a.t=%d b.t=%d returns %s, expected %s" % (float(x), float(y), ta, tb, out, want)
    r.count(n_rows)
    (r.bad if bad else r.ok)("Avoid::ANodeCmp::operator()", fn.where(), bad or "%d paths" % n_rows)


def rule_cost(chk, prog):
    r = chk.rule("COST-FORM", "decision table of cost(lineRef, dist, v2, v3, prev): all penalties 0 -> exactly dist; only segmentPenalty P>0 -> "
                 "dist + 0/1/2 * P for a straight / bent / doubled-back continuation (angle classes), dist for the first segment; with an angle "
                 "penalty set as well, the cost of an ORTHOGONAL step does not depend on it", floor=4)
    fn = prog.fn("Avoid::cost")
    rp = prog.enums.get("Avoid::RoutingParameter")
    ct = prog.enums.get("Avoid::ConnType")
    if rp is None or ct is None:
        raise AnalysisBroken("routing enums not found")
    RP = {e["name"]: int(e["v"]) for e in rp["enumerators"]}
    CT = {e["name"]: int(e["v"]) for e in ct["enumerators"]}
    PI = Fraction("3.14159265358979323846")
    D = Poly.var("DIST")
    P = Poly.var("P")
    A = Poly.var("ANGLE")

    def mk_hooks(params, kind, post=False):
        def rparam(it, n, env):
            pv = it.ev(call_args(n)[0], env)
            return params.get(pv, Fraction(0))
        return {
            "Avoid::ConnRef::routingType": lambda it, n, env: kind,
            "Avoid::Router::routingParameter": rparam,
            "Avoid::Router::isInCrossingPenaltyReroutingStage": lambda it, n, env: post,
            "Avoid::angleBetween": lambda it, n, env: A,
            "log10": lambda it, n, env: Poly.var("LOG10"),
            "std::log10": lambda it, n, env: Poly.var("LOG10"),
        }
    from ..microai.interp import default_obj
    router = default_obj(prog, "Avoid::Router", {"ClusteredRouting": False, "clusterRefs": None})
    def vert(nm):
        return Obj("Avoid::VertInf", {"point": pt(nm), "_router": router, "id": None})
    line = Obj("Avoid::ConnRef", {})
    for kind_name in ("ConnType_PolyLine", "ConnType_Orthogonal"):
        kind = CT[kind_name]
        # --- all penalties zero
        bad = None
        n_rows = 0
        for prev in (None, Obj("Avoid::ANode", {"inf": vert("p1"), "prevNode": None, "g": 0, "h": 0, "f": 0, "timeStamp": 0})):
            for post in (False, True):
                try:
                    rows = tree(prog, fn, [line, D, vert("p2"), vert("p3"), prev], hooks=mk_hooks({}, kind, post))
                except Unsupported as e:
                    raise AnalysisBroken("cost() outside the interpreter subset: %s" % e)
                n_rows += len(rows)
                for val, descr, out in rows:
                    if out != ("ret", D):
                        bad = "with all penalties zero cost() returns %r, not the edge length" % (out[1],)
        r.count(n_rows)
        (r.bad if bad else r.ok)("%s/zero-penalties" % kind_name, fn.where(), bad or "")
        # --- segment penalty only
        bad = None
        n_rows = 0
        seen_k = set()
        params = {RP["segmentPenalty"]: P}
        for prev in (None, Obj("Avoid::ANode", {"inf": vert("p1"), "prevNode": None, "g": 0, "h": 0, "f": 0, "timeStamp": 0})):
            rows = tree(prog, fn, [line, D, vert("p2"), vert("p3"), prev], hooks=mk_hooks(params, kind, False))
            n_rows += len(rows)
            for val, descr, out in rows:
                if out[0] != "ret":
                    bad = "assertion/throw path: %s" % (out,)
                    continue
                # realisable angle class?  ANGLE in [0, pi], P > 0
                wit = None
                for ang in (Fraction(0), Fraction(1, 1000), Fraction(1), Fraction(2), Fraction(3), Fraction(314, 100), PI):
                    ok = True
                    for k, v in val.items():
                        pl = Poly({m: Fraction(c[0], c[1]) for m, c in k[1]})
                        e = pl.eval_exact({"ANGLE": ang, "P": Fraction(3), "DIST": Fraction(7)}) if pl.vars() <= {"ANGLE", "P", "DIST"} else None
                        if e is None:
                            continue
                        if ((e > 0) - (e < 0)) != v:
                            ok = False
                            break
                    if ok:
                        wit = ang
                        break
                if wit is None:
                    continue
                if prev is None:
                    k = 0
                else:
                    k = 0 if wit == PI else 2 if wit == 0 else 1     # every angle strictly between is one bend
                seen_k.add(k)
                rest = to_poly(out[1]) - D - k * P
                if rest != Poly.const(0):
                    bad = "for angle class %s (prev=%s) cost() = %r, expected DIST + %d*P" % (
                        "straight" if wit == PI else "double-back" if wit == 0 else "bend", "yes" if prev else "none", out[1], k)
        r.count(n_rows)
        if kind_name == "ConnType_Orthogonal" and seen_k != {0, 1, 2}:
            bad = bad or "angle classes reached: %s (expected straight, bend, double-back)" % sorted(seen_k)
        (r.bad if bad else r.ok)("%s/segment-penalty" % kind_name, fn.where(), bad or "classes %s" % sorted(seen_k))
        # --- segment and angle penalty together: the angle penalty is a polyline notion (orthogonal bends are all 90 degrees and are
        # already charged the segment penalty): an orthogonal route's cost must not depend on it
        if kind_name == "ConnType_Orthogonal":
            Q = Poly.var("Q")
            params = {RP["segmentPenalty"]: P, RP["anglePenalty"]: Q}
            bad = None
            n_rows = 0
            prev = Obj("Avoid::ANode", {"inf": vert("p1"), "prevNode": None, "g": 0, "h": 0, "f": 0, "timeStamp": 0})
            rows = tree(prog, fn, [line, D, vert("p2"), vert("p3"), prev], hooks=mk_hooks(params, kind, False))
            for val, descr, out in rows:
                n_rows += 1
                if out[0] != "ret":
                    continue
                if to_poly(out[1]).vars() & {"Q", "LOG10"}:
                    bad = bad or "cost() of an orthogonal step = %r depends on the angle penalty: the search then minimises another cost than " \
                                 "length + segmentPenalty * bends" % (out[1],)
            r.count(n_rows)
            (r.bad if bad else r.ok)("%s/angle-penalty-ignored" % kind_name, fn.where(), bad or "%d paths" % n_rows)


def rule_angle_exact(chk, prog):
    """cost() charges a bend when angleBetween() != pi exactly... so `straight` must come out exact for exactly collinear points."""
    r = chk.rule("ANGLE-FROM-CROSS-DOT", "angleBetween(p1, p2, p3), symbolic: the angle is |atan2(cross, dot)| of the two vectors leaving p2 -- ONE "
                 "inverse tangent whose first argument is the cross product (x1-x2)(y3-y2)-(y1-y2)(x3-x2) and whose second is the dot product: "
                 "for exactly collinear points the cross product is exactly 0 and the angle exactly 0 or pi, so a straight pass through a "
                 "shape corner is never charged a bend; an angle formed as the difference of two separately rounded headings is not", floor=1)
    fn = prog.fn("Avoid::angleBetween")
    seen = []

    def h_atan2(it, n, env):
        a = call_args(n)
        seen.append((to_poly(it.ev(a[0], env)), to_poly(it.ev(a[1], env))))
        return Poly.var("ATAN2")
    v = {k: Poly.var(k) for k in ("x1", "y1", "x2", "y2", "x3", "y3")}
    P = lambda a, b: Obj("Avoid::Point", {"x": v[a], "y": v[b], "id": 0, "vn": 8})
    hooks = {"atan2": h_atan2, "std::atan2": h_atan2}

    def run(o):
        it = Interp(prog, o, hooks=hooks)
        try:
            return ("ret", it.call(fn, None, None, None, arg_values=[P("x1", "y1"), P("x2", "y2"), P("x3", "y3")]))
        except AssertFail as e:
            return ("assert", str(e))
    try:
        rows = enumerate_paths(run, limit=200)
    except Unsupported as e:
        raise AnalysisBroken("angleBetween outside the interpreter subset: %s" % e)
    cross = (v["x1"] - v["x2"]) * (v["y3"] - v["y2"]) - (v["y1"] - v["y2"]) * (v["x3"] - v["x2"])
    dot = (v["x1"] - v["x2"]) * (v["x3"] - v["x2"]) + (v["y1"] - v["y2"]) * (v["y3"] - v["y2"])
    r.count()
    pairs = {(str(a), str(b)) for a, b in seen}
    ok = bool(seen) and all((a == to_poly(cross) or a == to_poly(cross) * -1) and b == to_poly(dot) for a, b in seen)
    (r.ok if ok else r.bad)("angleBetween", fn.where(), "atan2(cross, dot) on %d path(s)" % len(rows) if ok else
                            "the angle is not computed as atan2(cross product, dot product): inverse tangents taken of %s -- exactly collinear points "
                            "no longer give exactly 0 / pi" % sorted(pairs))


def rule_sweep_candidates(chk, prog):
    """Which vertices the rotational sweep from a vertex looks at: a pair that is never looked at never gets its edge (re)built."""
    from ..rules.guards import path_condition, atoms, entails
    r = chk.rule("SWEEP-CANDIDATES", "vertexSweep's candidate list: a vertex `inf` (other than the centre, orthogonal dummies and the sides of shapes "
                 "containing a connector end) is swept iff it is a shape vertex, or the centre is a shape vertex, or one of the two is a "
                 "connection pin, or both are end points / checkpoints of the SAME connector -- exactly that and nothing narrower: the direct "
                 "source-target edge of a connector is rebuilt by the sweep of whichever end moved", floor=1)
    fn = prog.fn("Avoid::vertexSweep")
    ins = [c for c in calls(fn) if "::insert" in str(c.get("cname", "")) and call_object(c) is not None and norm(call_object(c)) == "v"]
    if len(ins) < 3:
        raise AnalysisBroken("vertexSweep: candidate insertions not found")
    from ..rules.guards import map_atoms
    # names of the loop variable, the end sentinel and the centre id are the function's own business: normalise them
    loops = [a for a in fn.ancestors(ins[0]) if a.get("k") == "ForStmt"]
    lv = None
    if loops and loops[0].get("init") is not None:
        ds = [d for d in walk(loops[0]["init"]) if d.get("k") == "VarDecl"]
        lv = ds[0].get("name") if ds else None
    if not lv:
        raise AnalysisBroken("vertexSweep: loop variable of the candidate loop not found")
    raw = [path_condition(fn, c, inline=False) for c in ins]
    names = set()
    for pc in raw:
        for a in atoms(pc):
            for m_ in re.finditer(r"\b(\w+)\.isConn(Pt|ectionPin)\(\)", a):
                if m_.group(1) != "id":
                    names.add(m_.group(1))
            m2 = re.search(r"== (\w+)\.objID\)", a)
            if m2:
                names.add(m2.group(1))
    centre = sorted(n_ for n_ in names if n_ != lv)
    if len(centre) != 1:
        raise AnalysisBroken("vertexSweep: centre id variable not identified (%s)" % centre)

    def canon(a):
        a = re.sub(r"\b%s\b" % re.escape(lv), "inf", a)
        a = re.sub(r"\b%s\b" % re.escape(centre[0]), "centerID", a)
        a = re.sub(r"\(inf != \w+\)", "(inf != endVert)", a)
        return a
    pcs = [map_atoms(pc, canon) for pc in raw]
    got = pcs[0]
    for pc in pcs[1:]:
        got = ("or", got, pc)
    A = lambda s_: ("atom", s_)
    want = ("and", A("(inf != endVert)"),
            ("or", ("not", A("inf.id.isConnPt()")),
             ("or", ("not", A("centerID.isConnPt()")),
              ("or", A("inf.id.isConnectionPin()"), ("or", A("centerID.isConnectionPin()"), A("(inf.id.objID == centerID.objID)"))))))
    r.count()
    extra = atoms(got) - atoms(want)
    if extra:
        r.bad("candidate condition", fn.loc(ins[0]), "the candidate test depends on %s, which the sweep's contract does not mention" % sorted(extra))
    elif not (entails(want, got) and entails(got, want)):
        r.bad("candidate condition", fn.loc(ins[0]), "the union of the conditions under which a vertex is added to the sweep is not the reviewed one "
              "(shape vertex | centre is a shape vertex | either is a pin | same connector)")
    else:
        r.ok("candidate condition", fn.loc(ins[0]), "%d insertion sites" % len(ins))


def rule_edge_length(chk, prog):
    r = chk.rule("EDGE-LENGTH", "EdgeInf::getDist returns the stored m_dist; EdgeInf::setDist stores its argument; checkVis passes "
                 "euclideanDist(v1.point, v2.point)", floor=2)
    fn = prog.fn("Avoid::EdgeInf::getDist")
    rets = [norm(n["ch"][0]) for n in fn.nodes() if n.get("k") == "ReturnStmt" and n.get("ch")]
    (r.ok if rets == ["m_dist"] else r.bad)("Avoid::EdgeInf::getDist", fn.where(), "" if rets == ["m_dist"] else "returns %s" % rets)
    fn = prog.fn("Avoid::EdgeInf::setDist")
    st = [norm(node["ch"][1]) for lhs, node, op in writes(fn) if written_field(lhs)[0] == "Avoid::EdgeInf::m_dist"]
    pname = fn.params[0]["name"] if fn.params else "?"
    (r.ok if st == [pname] else r.bad)("Avoid::EdgeInf::setDist", fn.where(), "" if st == [pname] else "stores %s to m_dist" % st)


def rule_bend_symmetry(chk, prog, tier):
    """validateBendPoint prunes zig-zag bends during the polyline search.  Whatever its exact definition, validity of a bend
    cannot depend on the direction in which the path is traversed: V(a,b,c) == V(c,b,a) for the same corner d-b-e.
    Decided on the extracted decision tree over every realisable sign class of an integer grid."""
    import numpy as np
    from ..microai.geom import sym_point, interpret_tree, grid_env, orient
    r = chk.rule("BEND-SYMMETRY", "decision tree of validateBendPoint(a,b,c) with corner neighbours d=b.shPrev, e=b.shNext (convex corner, "
                 "vecDir(d,b,e) > 0): the verdict is the same for (a,b,c) and (c,b,a) on every realisable sign class -- otherwise the "
                 "route P->Q and the route Q->P prune different bends and one of them is not shortest", floor=1)
    fn = prog.fn("Avoid::validateBendPoint")
    vid = Obj("Avoid::VertID", {"objID": 1, "vn": 0, "props": 0})

    def vert(nm, prev=None, nxt=None):
        return Obj("Avoid::VertInf", {"point": sym_point(nm), "id": copy.deepcopy(vid), "shPrev": prev, "shNext": nxt})

    def mk(first, last):
        d, e = vert("d"), vert("e")
        b = vert("b", d, e)
        return [vert(first), b, vert(last)]
    names = [x + "." + y for x in "abcde" for y in "xy"]
    side = 3
    try:
        rows1 = interpret_tree(prog, fn, mk("a", "c"), lattice=True, grid=(names, side))
        rows2 = interpret_tree(prog, fn, mk("c", "a"), lattice=True, grid=(names, side))
    except Unsupported as e:
        raise AnalysisBroken("validateBendPoint outside the interpreter subset: %s" % e)
    env = grid_env(names, side)
    n = len(env[names[0]])

    def evaltree(rows):
        out = np.full(n, -5, dtype=np.int64)
        cache = {}
        for val, descr, o in rows:
            m = np.ones(n, dtype=bool)
            for k, v in val.items():
                if k not in cache:
                    cache[k] = np.sign(Poly({mm: Fraction(c[0], c[1]) for mm, c in k[1]}).eval_np(env))
                m &= (cache[k] == v)
            out[m] = int(bool(o[1])) if o[0] == "ret" else -1
        return out
    o1, o2 = evaltree(rows1), evaltree(rows2)
    pre = orient(env, "d", "b", "e") > 0
    asserts = pre & ((o1 < 0) | (o2 < 0))
    diff = pre & (o1 != o2) & (o1 >= 0) & (o2 >= 0)
    r.count(len(rows1) + len(rows2))
    if asserts.any():
        i = int(np.argmax(asserts))
        r.bad("Avoid::validateBendPoint", fn.where(), "assertion failure on a convex corner: %s" % {v: int(env[v][i]) for v in names})
    elif diff.any():
        i = int(np.argmax(diff))
        r.bad("Avoid::validateBendPoint", fn.where(), "bend a=%s b=%s c=%s at corner d=%s e=%s is %s forwards but %s backwards (%d grid tuples)" % (
            (int(env["a.x"][i]), int(env["a.y"][i])), (int(env["b.x"][i]), int(env["b.y"][i])), (int(env["c.x"][i]), int(env["c.y"][i])),
            (int(env["d.x"][i]), int(env["d.y"][i])), (int(env["e.x"][i]), int(env["e.y"][i])),
            "valid" if o1[i] else "invalid", "valid" if o2[i] else "invalid", int(diff.sum())))
    else:
        r.ok("Avoid::validateBendPoint", fn.where(), "%d+%d paths, %d convex-corner tuples" % (len(rows1), len(rows2), int(pre.sum())))
    chk.extra["bend_symmetry_tuples"] = int(pre.sum())


def rule_blocker_recorded(chk, prog):
    """Invisibility-graph bookkeeping that the incremental polyline router relies on to re-discover shorter paths."""
    from ..cfg import CFG
    r = chk.rule("BLOCKER-RECORDED", "EdgeInf::addBlocker(b) stores m_blocker = b and m_dist = 0 on every path; Router::checkAllBlockedEdges(pid) "
                 "re-tests every invisibility edge whose recorded blocker is pid or -1: a stale blocker id leaves an edge invisible after "
                 "its last blocker moved away (routes stay longer than necessary)", floor=2)
    fn = prog.fn("Avoid::EdgeInf::addBlocker")
    g = CFG(fn)
    bad = None
    pname = fn.params[0]["name"]
    for field, want in (("Avoid::EdgeInf::m_blocker", pname), ("Avoid::EdgeInf::m_dist", "0")):
        st = [node for lhs, node, op in writes(fn) if written_field(lhs)[0] == field and op == "=" and norm(node["ch"][1]) == want]
        if not st:
            bad = bad or "no store %s = %s" % (field.split("::")[-1], want)
        elif g.exit_reachable_avoiding([x["id"] for x in st]) is not None:
            bad = bad or "%s = %s is skipped on the path %s" % (field.split("::")[-1], want, g.describe(g.exit_reachable_avoiding([x["id"] for x in st])))
    r.count(2)
    (r.bad if bad else r.ok)("Avoid::EdgeInf::addBlocker", fn.where(), bad or "")
    fn = prog.fn("Avoid::Router::checkAllBlockedEdges")
    from ..rules.guards import path_condition, atoms, entails
    cv = [n for n in calls(fn) if n.get("cname") == "Avoid::EdgeInf::checkVis"]
    conds = set()
    for c in cv:
        pc = path_condition(fn, c)
        for a_ in atoms(pc):
            if "blocker()" in a_ and entails(pc, ("atom", a_)):
                conds.add(a_.replace("iter", "tmp"))
    want = {"(tmp.blocker() == -1)", "(tmp.blocker() == pid)"}
    bad = None
    if not want <= conds:
        bad = "edges are re-tested only under %s; expected both blocker == pid and blocker == -1" % sorted(conds)
    lp = [n for n in fn.nodes() if n.get("k") == "ForStmt"]
    if not lp or "invisGraph.begin()" not in norm(lp[0]["init"]["decls"][0].get("init")) or "invisGraph.end()" not in norm(lp[0].get("cond")):
        bad = bad or "does not scan the whole invisibility graph"
    r.count(len(cv))
    (r.bad if bad else r.ok)("Avoid::Router::checkAllBlockedEdges", fn.where(), bad or "")


def rule_missing_edges(chk, prog):
    """Router::checkAllMissingEdges (visibility graph without invisibility edges): which vertex pairs are (re)tested after a change."""
    from ..microai.interp import Interp, Obj, Oracle, Unsupported, AssertFail, default_obj
    r = chk.rule("MISSING-EDGES-PAIRS", "Router::checkAllMissingEdges interpreted on a vertex list with the end points of two connectors followed by "
                 "the corners of two shapes (no edge exists yet): EdgeInf::checkEdgeVisibility is asked for every pair of vertices except two end "
                 "points of DIFFERENT connectors -- in particular for every (end point, shape corner) pair, which is how an edge that a moved or "
                 "deleted obstacle used to block comes back", floor=1)
    fn = prog.fn("Avoid::Router::checkAllMissingEdges")
    CONN = 1          # VertID::PROP_ConnPoint
    spec = [("c1.src", 1, 1, CONN), ("c1.dst", 1, 2, CONN), ("c2.src", 2, 1, CONN), ("c2.dst", 2, 2, CONN),
            ("s5.v0", 5, 0, 0), ("s5.v1", 5, 1, 0), ("s6.v0", 6, 0, 0)]
    props = None
    for q, v in prog.vars.items():
        if q == "Avoid::VertID::PROP_ConnPoint":
            props = v
    verts = []
    for name, obj, vn, pr in spec:
        vid = default_obj(prog, "Avoid::VertID", {"objID": obj, "vn": vn, "props": pr})
        verts.append(default_obj(prog, "Avoid::VertInf", {"id": vid, "_name": name, "lstNext": None}))
    for a, b in zip(verts, verts[1:]):
        a.f["lstNext"] = b
    router = default_obj(prog, "Avoid::Router", {"InvisibilityGrph": False})
    asked = []
    it = Interp(prog, Oracle([]), globals={"Avoid::VertID::PROP_ConnPoint": None} if False else None)
    it.vhooks["Avoid::VertInfList::connsBegin"] = lambda it_, recv, args: verts[0]
    it.vhooks["Avoid::VertInfList::end"] = lambda it_, recv, args: None
    it.vhooks["Avoid::EdgeInf::existingEdge"] = lambda it_, recv, args: None
    it.vhooks["Avoid::EdgeInf::checkEdgeVisibility"] = lambda it_, recv, args: asked.append(frozenset((args[0].f["_name"], args[1].f["_name"])))
    it.vhooks["Avoid::VertID::isConnPt"] = lambda it_, recv, args: bool(recv.f["props"] & CONN)
    it.vhooks["Avoid::VertID::isConnectionPin"] = lambda it_, recv, args: False
    r.count()
    try:
        it.call(fn, router, None, None, arg_values=[])
    except Unsupported as e:
        raise AnalysisBroken("checkAllMissingEdges outside the interpreter subset: %s" % e)
    except AssertFail as e:
        r.bad("pairs examined", fn.where(), "assertion fails: %s" % e)
        return
    names = [x[0] for x in spec]
    conn_of = {x[0]: x[1] for x in spec if x[3]}
    want = set()
    for i in range(len(names)):
        for j in range(i):
            a, b = names[i], names[j]
            if a in conn_of and b in conn_of and conn_of[a] != conn_of[b]:
                continue
            want.add(frozenset((a, b)))
    got = set(asked)
    bad = None
    if got != want:
        miss = sorted(tuple(sorted(x)) for x in want - got)
        extra = sorted(tuple(sorted(x)) for x in got - want)
        bad = "pairs never tested: %s; pairs tested although they are end points of different connectors: %s" % (miss[:4], extra[:4])
    elif len(asked) != len(got):
        bad = "a pair is tested twice"
    (r.bad if bad else r.ok)("pairs examined", fn.where(), bad or "%d pairs" % len(got))


def rule_list_walk_saves_next(chk, prog):
    from ..cfg import CFG
    from ..callgraph import CallGraph
    r = chk.rule("LIST-WALK-SAVES-NEXT", "libavoid's edge and vertex lists are intrusive (lstNext / lstPrev in the element).  In every loop that walks "
                 "one by `x = x->lstNext` (38 loops), a call on the current element -- directly or through a local copy of the pointer -- "
                 "whose call-graph closure reaches EdgeList::removeEdge / VertInfList::removeVertex (checkVis moves an edge that is no "
                 "longer blocked to the visibility list; makeInactive, setDist, ...) comes AFTER the step to the next element within the "
                 "iteration: once the element has moved, its lstNext belongs to the other list (null at its end), and the rest of the "
                 "walked list -- e.g. the other edges a deleted shape was blocking -- is never re-examined", floor=30)
    cg = CallGraph(prog)
    rem = [f.key for f in prog.all_functions() if f.q in ("Avoid::EdgeList::removeEdge", "Avoid::VertInfList::removeVertex")]
    if len(rem) != 2:
        raise AnalysisBroken("EdgeList::removeEdge / VertInfList::removeVertex not found")
    memo = {}

    def moves(key):
        if key not in memo:
            memo[key] = any(k in rem for k in cg.reachable([key]))
        return memo[key]
    for fn in prog.all_functions():
        if not fn.body or "/libavoid/" not in fn.file:
            continue
        g = None
        for lhs, node, op in writes(fn):
            l_ = strip(lhs)
            rhs = strip(node["ch"][1]) if op == "=" else None
            if not (l_ and l_.get("k") == "DeclRefExpr" and rhs is not None and rhs.get("k") == "MemberExpr"
                    and str(rhs.get("ref", "")).endswith("::lstNext") and rhs.get("ch") and norm(rhs["ch"][0]) == norm(l_)):
                continue
            loops = [a for a in fn.ancestors(node) if a.get("k") in ("ForStmt", "WhileStmt", "DoStmt")]
            if not loops or loops[0].get("cond") is None:
                continue
            L = loops[0]
            r.count()
            g = g or CFG(fn)
            inside = {x.get("id") for x in walk(L)}
            # local copies of the walking pointer made inside the loop
            alias = {norm(l_)}
            for d in walk(L):
                if d.get("k") == "VarDecl" and d.get("init") is not None and norm(d["init"]) == norm(l_):
                    alias.add(d.get("name"))
            for lh2, nd2, op2 in writes(fn):
                if nd2.get("id") in inside and op2 == "=" and norm(nd2["ch"][1]) == norm(l_) and strip(lh2) is not None and strip(lh2).get("k") == "DeclRefExpr":
                    alias.add(norm(lh2))
            bad = None
            cond_id = strip(L["cond"])["id"]
            for c in calls(fn):
                if c.get("k") != "CXXMemberCallExpr" or c.get("id") not in inside or not c.get("callee"):
                    continue
                o = call_object(c)
                if o is None or norm(o) not in alias or not moves(c["callee"]):
                    continue
                try:
                    w = g.search([g.after(c)], blocked=[cond_id], targets=[node["id"]])
                except AnalysisBroken:
                    continue
                if w:
                    bad = "%s() may move the element to another list, and the walk then continues from its lstNext (line %s)" % (
                        (c.get("cname") or "").split("::")[-1], node.get("l"))
                    break
            (r.bad if bad else r.ok)("walk by %s in %s" % (norm(l_), fn.q), fn.loc(L), bad or "")


def run(chk):
    prog = chk.load()
    chk.guard(rule_list_walk_saves_next, chk, prog)
    from .c16 import run_subjects
    # the predicates that decide which visibility edges exist (valid-region wedge, blocking test)
    run_subjects(chk, prog, chk.tier, rule_id="VIS-PREDICATES", only=["inValidRegion", "cornerSide", "vecDir"], floor=3)
    chk.guard(rule_bend_symmetry, chk, prog, chk.tier)
    chk.guard(rule_blocker_recorded, chk, prog)
    chk.guard(rule_euclid, chk, prog)
    chk.guard(rule_heuristic, chk, prog)
    chk.guard(rule_astar, chk, prog)
    chk.guard(rule_node_order, chk, prog)
    chk.guard(rule_cost, chk, prog)
    chk.guard(rule_edge_length, chk, prog)
    chk.guard(rule_angle_exact, chk, prog)
    chk.guard(rule_sweep_candidates, chk, prog)
    chk.guard(rule_missing_edges, chk, prog)
    from .c16 import rule_shape_blocking
    chk.guard(rule_shape_blocking, chk, prog, ("square",))      # which segments a convex obstacle blocks
    from .c03 import rule_sweep_set_total
    chk.guard(rule_sweep_set_total, chk, prog)
