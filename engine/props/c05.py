"""C05 -- libavoid orthogonal routing: the admissibility of the search heuristic.

Decides (symbolic / finite-table interpretation of makepath.cpp):
  BENDS-ADMISSIBLE  bends(curr, currDir, dest, destDir): over all 8 x 4 x 4 abstract inputs (sign pattern of dest-curr, the two
                    directions) the estimate never exceeds the true minimum number of bends of a rectilinear path in the free
                    plane (0-1 BFS reference) and never reaches its COLA_ASSERT(false)
  DIR-TABLES        dirRight / dirLeft / dirReverse are the rotations of the 4-cycle N->E->S->W; orthogonalDirection is the
                    sign pattern of b-a; orthogonalDirectionsCount is the population count
  HEURISTIC-FORM    estimatedCostSpecific: polyline branch returns exactly euclideanDist(curr, target); orthogonal branch returns
                    manhattanDist(curr,target) + k*segmentPenalty with k <= the free-plane minimum bend count over the allowed
                    arrival directions (so the estimate is admissible), for every abstract input incl. last == nullptr
  TURN-PRUNE-GUARD  the orthogonal search skips a turning edge only under a condition that also exempts end points
  TURN-PRUNE-MIRROR the horizontal and vertical turn-pruning blocks are mirror images (orientation independence)
Not decided: completeness of the scan-line visibility graph; that every produced segment is axis-parallel; optimality of the search.
"""
import copy
import itertools
from collections import deque
from fractions import Fraction

from ..astq import strip, strip_casts, norm, calls, src, call_object, call_args
from ..cfg import CFG
from ..facts import AnalysisBroken, walk
from ..microai.interp import Interp, Obj, Vec, Box, enumerate_paths, AssertFail, Thrown, Unsupported
from ..microai.poly import Poly, to_poly

N, E, S, W = 1, 2, 4, 8
DIRS = {N: (0, -1), E: (1, 0), S: (0, 1), W: (-1, 0)}     # screen coordinates: south is +y
NAMES = {N: "N", E: "E", S: "S", W: "W"}


def minbends(cx, cy, cd, dx, dy, dd, R=4):
    """Exact minimum number of bends of a rectilinear path in the free plane from (cx,cy) leaving in direction cd
    to (dx,dy) arriving in direction dd; the path may not pass through the destination before its end and has no
    zero-length segment (at least one step between two turns)."""
    INF = 99
    dist = {}
    dq = deque()
    st = (cx, cy, cd, False)
    dist[st] = 0
    dq.append(st)
    while dq:
        x, y, h, jt = dq.popleft()
        d = dist[(x, y, h, jt)]
        if (x, y, h) == (dx, dy, dd) and not jt:
            return d
        if (x, y) == (dx, dy):
            continue
        vx, vy = DIRS[h]
        nx, ny = x + vx, y + vy
        ns = (nx, ny, h, False)
        if abs(nx) <= R and abs(ny) <= R and dist.get(ns, INF) > d:
            dist[ns] = d
            dq.appendleft(ns)
        if not jt:
            for nh in DIRS:
                if nh != h and DIRS[nh] != (-vx, -vy):
                    ns = (x, y, nh, True)
                    if dist.get(ns, INF) > d + 1:
                        dist[ns] = d + 1
                        dq.append(ns)
    return None


def pt(nm):
    return Obj("Avoid::Point", {"x": Poly.var(nm + ".x"), "y": Poly.var(nm + ".y"), "id": 0, "vn": 8})


def sign_of(val, descr, a, b):
    """Sign of (b - a) recovered from a path's atom valuation; None when the path never compared them."""
    want = repr(Poly.var(b) - Poly.var(a))
    neg = repr(Poly.var(a) - Poly.var(b))
    for k, v in val.items():
        d = descr[k]
        if d == want:
            return v
        if d == neg:
            return -v
    return None


def tree(prog, fn, args, hooks=None):
    def run(o):
        it = Interp(prog, o, lattice=False, hooks=hooks)
        a = copy.deepcopy(args)
        try:
            return ("ret", it.call(fn, None, None, None, arg_values=a))
        except AssertFail as e:
            return ("assert", str(e))
        except Thrown as e:
            return ("throw", str(e))
    return enumerate_paths(run, limit=20000)


def rule_bends(chk, prog):
    r = chk.rule("BENDS-ADMISSIBLE", "decision table of Avoid::bends over (sign dx, sign dy) in 3x3 minus (0,0), currDir, destDir in {N,E,S,W} "
                 "(128 rows, extracted by symbolic interpretation): every row returns a value <= the free-plane minimum bend count "
                 "(0-1 BFS over headings, no zero-length segments) and no row reaches COLA_ASSERT(false)", floor=128)
    fn = prog.fn("Avoid::bends")
    rows_total = 0
    bad = []
    under = 0
    table = {}
    for cd in (N, E, S, W):
        for dd in (N, E, S, W):
            try:
                rows = tree(prog, fn, [pt("c"), cd, pt("d"), dd])
            except Unsupported as e:
                raise AnalysisBroken("Avoid::bends outside the interpreter subset: %s" % e)
            for val, descr, out in rows:
                sx = sign_of(val, descr, "c.x", "d.x")
                sy = sign_of(val, descr, "c.y", "d.y")
                if sx is None or sy is None:
                    raise AnalysisBroken("bends() path did not compare both coordinates: %s" % descr)
                if (sx, sy) == (0, 0):
                    continue     # excluded by the caller's `dist > 0` guard (checked in HEURISTIC-FORM)
                rows_total += 1
                inst = "bends(d-c=(%+d,%+d), curr=%s, dest=%s)" % (sx, sy, NAMES[cd], NAMES[dd])
                ref = minbends(-sx, -sy, cd, 0, 0, dd)
                if out[0] != "ret":
                    bad.append(inst)
                    r.bad(inst, fn.where(), "reaches an assertion failure (%s)" % out[1])
                elif ref is None or out[1] > ref or out[1] < 0:
                    bad.append(inst)
                    r.bad(inst, fn.where(), "returns %s but a path with %s bend(s) exists: the estimate is not admissible" % (out[1], ref))
                else:
                    if out[1] < ref:
                        under += 1
                    table[inst] = (out[1], ref)
                    r.ok(inst, fn.where(), "estimate %s <= true %s" % (out[1], ref))
    r.count(rows_total)
    chk.extra["bends_rows"] = rows_total
    chk.extra["bends_strict_underestimates"] = under
    if table:
        k = sorted(table)[0]
        chk.sample({"rule": "BENDS-ADMISSIBLE", "row": k, "estimate": table[k][0], "free_plane_minimum": table[k][1]})


def rule_dir_tables(chk, prog):
    r = chk.rule("DIR-TABLES", "finite tables: dirRight is the 4-cycle N->E->S->W->N, dirLeft its inverse, dirReverse its square (no assertion "
                 "on a valid direction); orthogonalDirection(a,b) is the N/S,E/W sign pattern of b-a; orthogonalDirectionsCount is popcount", floor=5)
    cyc = {N: E, E: S, S: W, W: N}
    inv = {v: k for k, v in cyc.items()}
    rev = {d: cyc[cyc[d]] for d in cyc}
    for q, want in (("Avoid::dirRight", cyc), ("Avoid::dirLeft", inv), ("Avoid::dirReverse", rev)):
        fn = prog.fn(q)
        bad = None
        for d in (N, E, S, W):
            rows = tree(prog, fn, [d])
            if len(rows) != 1 or rows[0][2] != ("ret", want[d]):
                bad = "%s(%s) = %s, expected %s" % (q.split("::")[-1], NAMES[d], rows[0][2], NAMES[want[d]])
        r.count(4)
        (r.bad if bad else r.ok)(q, fn.where(), bad or "")
    fn = prog.fn("Avoid::orthogonalDirection")
    rows = tree(prog, fn, [pt("a"), pt("b")])
    bad = None
    for val, descr, out in rows:
        sx = sign_of(val, descr, "a.x", "b.x")
        sy = sign_of(val, descr, "a.y", "b.y")
        want = (S if sy > 0 else N if sy < 0 else 0) | (E if sx > 0 else W if sx < 0 else 0)
        if out != ("ret", want):
            bad = "for sign(b-a)=(%s,%s) returns %s, expected %s" % (sx, sy, out, want)
    r.count(len(rows))
    (r.bad if bad or len(rows) != 9 else r.ok)("Avoid::orthogonalDirection", fn.where(), bad or ("%d paths" % len(rows)))
    fn = prog.fn("Avoid::orthogonalDirectionsCount")
    bad = None
    for m in range(16):
        rows = tree(prog, fn, [m])
        if rows[0][2] != ("ret", bin(m).count("1")):
            bad = "count(%d) = %s" % (m, rows[0][2])
    r.count(16)
    (r.bad if bad else r.ok)("Avoid::orthogonalDirectionsCount", fn.where(), bad or "")


def rule_heuristic(chk, prog):
    r = chk.rule("HEURISTIC-FORM", "estimatedCostSpecific, symbolic over (last, curr, target, allowed arrival directions): PolyLine -> exactly "
                 "euclideanDist(curr, target); Orthogonal -> manhattanDist(curr,target) + k*segmentPenalty with 0 <= k <= free-plane minimum "
                 "bends over the allowed arrival directions (k <= 1 iff misaligned when there is no previous point)", floor=3)
    fn = prog.fn("Avoid::estimatedCostSpecific")
    ct = prog.enums.get("Avoid::ConnType")
    if ct is None:
        raise AnalysisBroken("enum Avoid::ConnType not found")
    CT = {e["name"]: int(e["v"]) for e in ct["enumerators"]}
    seg = Poly.var("segPen")
    euclid_calls = []

    def h_euclid(it, n, env):
        args = n.get("ch", [])[1:]
        vals = [it.bind_ref(a, env).get() for a in args]
        euclid_calls.append(vals)
        return Poly.var("EUCLID")

    def mk_hooks(kind):
        return {
            "Avoid::ConnRef::routingType": lambda it, n, env: kind,
            "Avoid::ConnRef::router": lambda it, n, env: Obj("Avoid::Router", {}),
            "Avoid::Router::routingParameter": lambda it, n, env: seg,
            "Avoid::euclideanDist": h_euclid,
        }
    tar = Obj("Avoid::VertInf", {"point": pt("t")})
    line = Obj("Avoid::ConnRef", {})
    # ---- polyline
    bad = None
    n_rows = 0
    for last in (None, pt("l")):
        for dirs in (1, 15):
            del euclid_calls[:]
            rows = tree(prog, fn, [line, last, pt("c"), tar, dirs], hooks=mk_hooks(CT["ConnType_PolyLine"]))
            n_rows += len(rows)
            for val, descr, out in rows:
                if out != ("ret", Poly.var("EUCLID")):
                    bad = "polyline estimate is %r, not euclideanDist(curr, target)" % (out[1],)
            for a, b in euclid_calls:
                names = (repr(to_poly(a.f["x"])), repr(to_poly(b.f["x"])))
                if set(names) != {"c.x", "t.x"}:
                    bad = "euclideanDist is applied to (%s, %s), not (curr, target)" % names
            if not euclid_calls:
                bad = bad or "polyline branch does not call euclideanDist"
    r.count(n_rows)
    (r.bad if bad else r.ok)("PolyLine", fn.where(), bad or "")
    # ---- orthogonal
    for last_kind in ("none", "point"):
        bad = None
        n_rows = 0
        n_checked = 0
        for dirs in range(1, 16):
            last = None if last_kind == "none" else pt("l")
            try:
                rows = tree(prog, fn, [line, last, pt("c"), tar, dirs], hooks=mk_hooks(CT["ConnType_Orthogonal"]))
            except Unsupported as e:
                raise AnalysisBroken("estimatedCostSpecific outside the interpreter subset: %s" % e)
            n_rows += len(rows)
            for val, descr, out in rows:
                if out[0] == "assert":
                    # the only legitimate one: segmentPenalty > 0 violated
                    sp = None
                    for k, v in val.items():
                        if descr[k] == "segPen":
                            sp = v
                    if sp is not None and sp <= 0:
                        continue
                    bad = "assertion failure on a valid input: %s with %s" % (out[1], {descr[k]: v for k, v in val.items()})
                    continue
                if out[0] != "ret":
                    bad = "unexpected outcome %s" % (out,)
                    continue
                sx = sign_of(val, descr, "c.x", "t.x")
                sy = sign_of(val, descr, "c.y", "t.y")
                if sx is None or sy is None:
                    bad = "estimate does not depend on both coordinate differences"
                    continue
                man = sx * (Poly.var("t.x") - Poly.var("c.x")) + sy * (Poly.var("t.y") - Poly.var("c.y"))
                rest = to_poly(out[1]) - man
                if sx == 0:
                    rest = rest.subst("t.x", Poly.var("c.x"))     # on this sign class the coordinates coincide
                if sy == 0:
                    rest = rest.subst("t.y", Poly.var("c.y"))
                kq = rest.t.get((("segPen", 1),), Fraction(0))
                if rest != kq * seg or kq.denominator != 1:
                    bad = "estimate %r is not manhattanDist + k*segmentPenalty" % (out[1],)
                    continue
                k = int(kq)
                if last is None:
                    ref = 1 if (sx != 0 and sy != 0) else 0
                else:
                    lx = sign_of(val, descr, "l.x", "c.x")
                    ly = sign_of(val, descr, "l.y", "c.y")
                    if (sx, sy) == (0, 0):
                        ref = 0
                    elif lx is None or ly is None:
                        ref = 0 if k == 0 else -1
                    else:
                        cd = (S if ly > 0 else N if ly < 0 else 0) | (E if lx > 0 else W if lx < 0 else 0)
                        if cd in (N, E, S, W):
                            ref = min(minbends(-sx, -sy, cd, 0, 0, d) for d in (N, E, S, W) if dirs & d)
                        else:
                            ref = 0     # diagonal or zero-length previous segment: no direction known, nothing may be charged
                n_checked += 1
                if k < 0 or k > ref:
                    bad = "charges %d bend(s) where %d suffice (d=(%+d,%+d), allowed arrival dirs mask %d, last=%s)" % (
                        k, ref, sx, sy, dirs, last_kind)
        r.count(n_rows)
        (r.bad if bad else r.ok)("Orthogonal/last=%s" % last_kind, fn.where(), bad or "%d paths, %d classified" % (n_rows, n_checked))
    chk.extra["heuristic_paths"] = r.evaluations


def rule_heuristic_consistent(chk, prog):
    r = chk.rule("HEURISTIC-CONSISTENT", "the bend estimate of estimatedCostSpecific (orthogonal, previous point known), extracted symbolically as a table "
                 "k(allowed arrival directions, heading, sign dx, sign dy), is CONSISTENT: for every state and every step (straight on or a "
                 "right-angle turn, to any sign class the step can lead to short of the target) k(state) <= [turn] + k(successor).  The "
                 "search closes a (vertex, heading) state when it is first expanded and never re-opens it, so an estimate that is merely "
                 "admissible (a drop of more than the step's own bend) lets a state be closed through an expensive prefix and the cheaper "
                 "arrival be discarded: the route found is valid but not minimal", floor=400)
    fn = prog.fn("Avoid::estimatedCostSpecific")
    ct = prog.enums.get("Avoid::ConnType")
    if ct is None:
        raise AnalysisBroken("enum Avoid::ConnType not found")
    CT = {e["name"]: int(e["v"]) for e in ct["enumerators"]}
    seg = Poly.var("segPen")
    hooks = {"Avoid::ConnRef::routingType": lambda it, n, env: CT["ConnType_Orthogonal"],
             "Avoid::ConnRef::router": lambda it, n, env: Obj("Avoid::Router", {}),
             "Avoid::Router::routingParameter": lambda it, n, env: seg}
    tar = Obj("Avoid::VertInf", {"point": pt("t")})
    line = Obj("Avoid::ConnRef", {})
    K = {}
    for dirs in range(1, 16):
        try:
            rows = tree(prog, fn, [line, pt("l"), pt("c"), tar, dirs], hooks=hooks)
        except Unsupported as e:
            raise AnalysisBroken("estimatedCostSpecific outside the interpreter subset: %s" % e)
        for val, descr, out in rows:
            if out[0] != "ret":
                continue
            sx, sy = sign_of(val, descr, "c.x", "t.x"), sign_of(val, descr, "c.y", "t.y")
            lx, ly = sign_of(val, descr, "l.x", "c.x"), sign_of(val, descr, "l.y", "c.y")
            if None in (sx, sy, lx, ly):
                continue
            man = sx * (Poly.var("t.x") - Poly.var("c.x")) + sy * (Poly.var("t.y") - Poly.var("c.y"))
            rest = to_poly(out[1]) - man
            if sx == 0:
                rest = rest.subst("t.x", Poly.var("c.x"))
            if sy == 0:
                rest = rest.subst("t.y", Poly.var("c.y"))
            kq = rest.t.get((("segPen", 1),), Fraction(0))
            if rest != kq * seg or kq.denominator != 1:
                continue            # (HEURISTIC-FORM reports this)
            cd = (S if ly > 0 else N if ly < 0 else 0) | (E if lx > 0 else W if lx < 0 else 0)
            if cd in (N, E, S, W):
                K[(dirs, cd, sx, sy)] = int(kq)
    MV = {N: (0, -1), S: (0, 1), E: (1, 0), W: (-1, 0)}
    REV = {N: S, S: N, E: W, W: E}

    def after(sg, d):
        # sg = sign(target - current) in one coordinate; the current point moves by d
        if d == 0:
            return [sg]
        if d > 0:
            return {1: [1, 0, -1], 0: [-1], -1: [-1]}[sg]
        return {-1: [-1, 0, 1], 0: [1], 1: [1]}[sg]
    for (dirs, cd, sx, sy), k in sorted(K.items()):
        r.count()
        bad = None
        for d2 in (N, E, S, W):
            if d2 == REV[cd]:
                continue
            dx, dy = MV[d2]
            for sx2 in after(sx, dx):
                for sy2 in after(sy, dy):
                    if (sx2, sy2) == (0, 0):
                        continue        # the target itself: reached only along an allowed arrival direction
                    k2 = K.get((dirs, d2, sx2, sy2))
                    if k2 is None:
                        continue
                    c = 0 if d2 == cd else 1
                    if k > c + k2 and bad is None:
                        bad = "k = %d here, but after %s %s to the sign class (%+d,%+d) the estimate is %d: a drop of more than the step's %d bend(s)" % (
                            k, "going on" if c == 0 else "turning", NAMES[d2], sx2, sy2, k2, c)
        inst = "arrival mask %d, heading %s, target at (%+d,%+d)" % (dirs, NAMES[cd], sx, sy)
        (r.bad if bad else r.ok)(inst, fn.where(), bad or "")


def rule_pass_through_at_endpoint(chk, prog):
    from ..microai.interp import Oracle, default_obj, SetVal, Box
    r = chk.rule("PASS-THROUGH-AT-FREE-ENDPOINT", "the connection-point branch of processEventVert interpreted as a fragment for an end point outside "
                 "all shapes that sees to the left only, to the right only, and both ways (with and without vertical directions): the "
                 "horizontal scan segment that survives (the right one when there is one -- the list merges the left one into it -- else "
                 "the left one) carries, besides the end point's own vertex, an ordinary vertex AT the end point's position.  Searches do "
                 "not pass THROUGH end-point vertices of other connectors, so without it every other connector is barred from that "
                 "grid point and detours; the same is demanded for an end point that sees only up / down (a known finding)", floor=8)
    fn = prog.fn("Avoid::processEventVert")
    ev_types = {}
    for e in prog.enums.values():
        nm_ = [c["name"] for c in e.get("enumerators", [])]
        if "SegOpen" in nm_ and "ConnPoint" in nm_ and str(e.get("q", "")).startswith("Avoid::"):
            ev_types = {c["name"]: int(c["v"]) for c in e["enumerators"]}
    br = [n for n in fn.nodes() if n.get("k") == "IfStmt" and "ConnPoint" in norm(n.get("cond")) and "pass" not in norm(n.get("cond"))
          and any((c.get("cname") or "").endswith("Node::firstPointAbove") for c in walk(n.get("then") or {}))]
    vd = [d for d in fn.nodes() if d.get("k") == "VarDecl" and "Node *" in d.get("t", "") and not d.get("parm")]
    if len(br) != 1 or not vd or "ConnPoint" not in ev_types or len(fn.params) != 5:
        raise AnalysisBroken("processEventVert: connection-point branch / locals not found")
    F = Fraction
    UP, DOWN, LEFT, RIGHT = 1, 2, 4, 8
    for dirs in (LEFT, RIGHT, LEFT | RIGHT, LEFT | UP, RIGHT | DOWN, LEFT | RIGHT | UP | DOWN, UP, UP | DOWN):
        r.count()
        made = []

        def ins_hook(it, nd, env):
            seg = it.ev(call_args(nd)[0], env)
            made.append(seg)
            return seg

        def seg_ctor(it, o, args, env):
            a = [it.ev(x, env) for x in args]
            o.f["vertInfs"] = SetVal()
            if len(a) >= 4:
                o.f["begin"], o.f["finish"], o.f["pos"] = a[0], a[1], a[2]
            else:
                o.f["begin"], o.f["finish"], o.f["pos"] = a[0], a[0], a[1]

        def vi_ctor(it_, o, args, env):
            o.f["point"] = it_.ev(args[2], env)
        cp = default_obj(prog, "Avoid::Point", {"x": F(50), "y": F(70)})
        cv = default_obj(prog, "Avoid::VertInf", {"point": cp, "visDirections": dirs})
        node = default_obj(prog, "Avoid::Node", {"c": cv})
        evt = default_obj(prog, "Avoid::Event", {"type": ev_types["ConnPoint"], "v": node, "pos": F(70)})
        hooks = {"Avoid::Node::firstPointAbove": lambda it, nd, env: F(0), "Avoid::Node::firstPointBelow": lambda it, nd, env: F(100),
                 "Avoid::Node::isInsideShape": lambda it, nd, env: False, "Avoid::SegmentListWrapper::insert": ins_hook}
        it = Interp(prog, Oracle([]), hooks=hooks)
        it.ctor_hooks = {"Avoid::LineSegment": seg_ctor, "Avoid::VertInf": vi_ctor}
        env = {fn.params[0]["did"]: Box(default_obj(prog, "Avoid::Router", {})), fn.params[2]["did"]: Box(default_obj(prog, "Avoid::SegmentListWrapper", {})),
               fn.params[3]["did"]: Box(evt), fn.params[4]["did"]: Box(2), vd[0]["did"]: Box(node)}
        bad = None
        try:
            it.ex(br[0]["then"], env)
        except Unsupported as e:
            raise AnalysisBroken("connection-point branch of processEventVert outside the interpreter subset: %s" % e)
        except AssertFail as e:
            bad = "assertion fails: %s" % e
        if not bad:
            right = [s_ for s_ in made if s_.f["begin"] == F(50) and s_.f["finish"] == F(100)]
            left = [s_ for s_ in made if s_.f["begin"] == F(0) and s_.f["finish"] == F(50)]
            if bool(right) != bool(dirs & RIGHT) or bool(left) != bool(dirs & LEFT):
                bad = "scan segments %s for visibility mask %d" % ([(str(s_.f["begin"]), str(s_.f["finish"])) for s_ in made], dirs)
            elif not (dirs & (LEFT | RIGHT)):
                # no horizontal visibility: the point segment at the end point is all there is on this scan line
                point = [s_ for s_ in made if s_.f["begin"] == F(50) and s_.f["finish"] == F(50)]
                through = [v_ for s_ in point for v_ in s_.f["vertInfs"].items if v_ is not cv and v_.f["point"].f["x"] == F(50) and v_.f["point"].f["y"] == F(70)]
                if not through:
                    bad = "an end point without horizontal visibility gets only its own vertex at its position: no other connector can bend at or run through that point"
            else:
                keep = right[0] if right else left[0]
                through = [v_ for v_ in keep.f["vertInfs"].items if v_ is not cv and v_.f["point"].f["x"] == F(50) and v_.f["point"].f["y"] == F(70)]
                if not through:
                    bad = "the %s scan segment of the end point gets no pass-through vertex at the end point's position" % ("right" if right else "left")
        names = "+".join(n_ for b_, n_ in ((LEFT, "left"), (RIGHT, "right"), (UP, "up"), (DOWN, "down")) if dirs & b_)
        (r.bad if bad else r.ok)("end point seeing %s" % names, fn.loc(br[0]), bad or "")


def rule_turn_prune(chk, prog):
    """In AStarPathPrivate::search the orthogonal 'only turn beside a shape edge / end point' pruning:
    every `continue` that skips an edge because of orthogVisPropFlags must be under a condition that also
    mentions pointAlignedWithOneOf(...) (the end-point exemption)."""
    r = chk.rule("TURN-PRUNE-GUARD", "in AStarPathPrivate::search every edge-skip that tests VertInf::orthogVisPropFlags also tests "
                 "pointAlignedWithOneOf(..endPoints..) in the same condition: turns at the level of an end point are never pruned", floor=2)
    fn = prog.fn("Avoid::AStarPathPrivate::search")
    k = 0
    for n in fn.nodes():
        if n.get("k") != "IfStmt":
            continue
        t = n.get("then")
        has_continue = t is not None and any(x.get("k") == "ContinueStmt" for x in walk(t))
        if not has_continue:
            continue
        flagged = any(x.get("k") == "MemberExpr" and str(x.get("ref", "")).endswith("orthogVisPropFlags") for x in walk(n["cond"]))
        if not flagged:
            continue
        k += 1
        exempt = any(str(x.get("cname", "")).endswith("pointAlignedWithOneOf") for x in walk(n["cond"]))
        inst = "search: prune#%d" % k
        if exempt:
            r.ok(inst, fn.loc(n))
        else:
            r.bad(inst, fn.loc(n), "edge is skipped on orthogVisPropFlags alone (`%s`): turns beside an end point would be pruned" % norm(n["cond"])[:160])
    if k == 0:
        raise AnalysisBroken("no turn-pruning condition found in AStarPathPrivate::search")


def rule_turn_prune_mirror(chk, prog):
    from ..sibling.mirror import mirror_blocks_equal
    r = chk.rule("TURN-PRUNE-MIRROR", "the two turn-pruning blocks of AStarPathPrivate::search (turn onto a vertical edge / onto a horizontal "
                 "edge) are mirror images of each other under x<->y, XDIM<->YDIM, X?_EDGE<->Y?_EDGE: transposing a scene prunes the "
                 "transposed set of edges, so route costs do not depend on the orientation of the drawing", floor=1)
    fn = prog.fn("Avoid::AStarPathPrivate::search")
    inner = [n for n in fn.nodes() if n.get("k") == "IfStmt" and
             any(str(x.get("ref", "")).endswith("orthogVisPropFlags") for x in walk(n["cond"]))]
    ids = {n["id"] for n in inner}
    tops = [n for n in fn.nodes() if n.get("k") == "IfStmt" and n.get("then") is not None and
            sum(1 for x in walk(n["then"]) if x.get("id") in ids) == 2]
    if len(tops) != 2:
        raise AnalysisBroken("expected two turn-pruning blocks in AStarPathPrivate::search, found %d" % len(tops))
    ok, diff = mirror_blocks_equal(tops[0], tops[1], "x/y+dims")
    r.count()
    if ok:
        r.ok("search: turn pruning x/y", fn.loc(tops[0]))
    else:
        r.bad("search: turn pruning x/y", fn.loc(tops[0]), "the blocks at %s and %s are not mirror images: `...%s` vs `...%s`" % (
            fn.loc(tops[0]), fn.loc(tops[1]), diff[0][-100:], diff[1][-100:]))


def rule_flags_mirror(chk, prog):
    from ..sibling.mirror import mirror_blocks_equal
    r = chk.rule("VIS-FLAGS-MIRROR", "LineSegment::setLongRangeVisibilityFlags: the low-to-high pass (X?/Y? L flags, begin..end) and the "
                 "high-to-low pass (H flags, rbegin..rend) are mirror images over the whole breakpoint set: a shape edge or connector "
                 "point anywhere ahead of a vertex -- the outermost one included -- is recorded in its orthogVisPropFlags (the turn "
                 "pruning of the search relies on these flags)", floor=1)
    fn = prog.fn("Avoid::LineSegment::setLongRangeVisibilityFlags")
    loops = [n for n in fn.nodes() if n.get("k") == "ForStmt"]
    if len(loops) != 2:
        raise AnalysisBroken("setLongRangeVisibilityFlags: expected two passes, found %d" % len(loops))
    ok, diff = mirror_blocks_equal(loops[0], loops[1], "scan fwd/rev", abstract_std=True)
    r.count()
    if ok:
        r.ok("setLongRangeVisibilityFlags passes", fn.loc(loops[0]))
    else:
        r.bad("setLongRangeVisibilityFlags passes", fn.loc(loops[1]), "the two passes are no longer mirror images: `...%s` vs `...%s`" % (diff[0][-110:], diff[1][-110:]))
    # the resets between the passes
    g_ids = {x.get("id") for x in walk(loops[1])}
    from ..astq import writes, literal_value
    resets = {norm(lhs) for lhs, node, op in writes(fn) if node["l"] > loops[0]["l"] and node["id"] not in g_ids and node["id"] not in {x.get("id") for x in walk(loops[0])}
              and literal_value(node["ch"][1]) == "false"}
    r.count()
    (r.ok if {"seenConnPt", "seenShapeEdge"} <= resets else r.bad)("state reset between the passes", fn.loc(loops[1]),
                                                                   "" if {"seenConnPt", "seenShapeEdge"} <= resets else "seen-flags are not reset before the reverse pass")


def rule_endpoint_dirs(chk, prog):
    """Orthogonal visibility edges respect the permitted directions of connector end points on the scan line."""
    from ..microai.interp import default_obj, Oracle
    import itertools
    r = chk.rule("ENDPOINT-DIRS", "LineSegment::generateVisibilityEdgesFromBreakpointSet interpreted on a visibility line with the breakpoints "
                 "shape-side, connector end point c1, connector end point c2, shape-side, for all 16 combinations of the end points' "
                 "permitted directions: an edge between a lower and an upper breakpoint is created exactly when the lower one (if an end "
                 "point) may be left upwards and the upper one (if an end point) may be reached from below -- for consecutive "
                 "breakpoints and for the shape-side links of two end points inside one shape; edge lengths are position differences", floor=1)
    fn = prog.fn("Avoid::LineSegment::generateVisibilityEdgesFromBreakpointSet")
    UP, DOWN = 1, 2
    n = 0
    bad = None
    for dim in (0, 1):
        for d1, d2 in itertools.product(range(4), repeat=2):
            made = []

            def edge_ctor(it, o, args, env):
                a = [it.ev(x, env) for x in args]
                o.f["_ends"] = (a[0].f["_name"], a[1].f["_name"])
                made.append(o)

            def set_dist(it, nd, env):
                from ..astq import call_object as co, call_args as ca
                it.ev(co(nd), env).f["_dist"] = it.ev(ca(nd)[0], env)
                return None

            def vert(name, pos, conn):
                pt = default_obj(prog, "Avoid::Point", {"x": Fraction(pos if dim == 0 else 0), "y": Fraction(pos if dim == 1 else 0)})
                v = default_obj(prog, "Avoid::VertInf", {"point": pt})
                v.f["_name"] = name
                v.f["_conn"] = conn
                return v
            hooks = {"Avoid::LineSegment::setLongRangeVisibilityFlags": lambda it, nd, env: None,
                     "Avoid::VertID::isConnPt": lambda it, nd, env: it.ev(call_object_(nd), env).f.get("_isconn", False),
                     "Avoid::EdgeInf::setDist": set_dist}
            specs = [("E0", 0, False, 0), ("C1", 2, True, d1), ("C2", 5, True, d2), ("E3", 9, False, 0)]
            bps = []
            for name, pos, conn, dirs in specs:
                v = vert(name, pos, conn)
                v.f["id"] = default_obj(prog, "Avoid::VertID", {"_isconn": conn})
                bps.append(default_obj(prog, "Avoid::PosVertInf", {"pos": Fraction(pos), "vert": v, "dirs": dirs}))
            seg = default_obj(prog, "Avoid::LineSegment", {"begin": Fraction(0), "finish": Fraction(9), "pos": Fraction(0),
                                                           "breakPoints": Vec(bps, "Avoid::PosVertInf")})
            it = Interp(prog, Oracle([]), hooks=hooks)
            it.ctor_hooks = {"Avoid::EdgeInf": edge_ctor}
            try:
                it.call(fn, seg, None, None, arg_values=[default_obj(prog, "Avoid::Router", {}), dim])
            except (Unsupported, AssertFail, Thrown) as e:
                raise AnalysisBroken("generateVisibilityEdgesFromBreakpointSet outside the interpreter subset: %s" % e)
            n += 1
            got = sorted(e.f["_ends"] for e in made)
            posn = {s_[0]: s_[1] for s_ in specs}
            dirs = {"C1": d1, "C2": d2}

            def allowed(lo, hi):
                return (lo not in dirs or dirs[lo] & UP) and (hi not in dirs or dirs[hi] & DOWN)
            want = sorted(p_ for p_ in (("E0", "C1"), ("C1", "C2"), ("C2", "E3"), ("E0", "C2"), ("C1", "E3")) if allowed(*p_))
            if got != want:
                bad = bad or "dimension %s, permitted directions c1=%s c2=%s: edges %s, expected %s" % (
                    "xy"[dim], _dirs(d1), _dirs(d2), got, want)
            for e in made:
                lo, hi = e.f["_ends"]
                if e.f.get("_dist") != Fraction(posn[hi] - posn[lo]):
                    bad = bad or "edge %s-%s has length %s, expected %d" % (lo, hi, e.f.get("_dist"), posn[hi] - posn[lo])
    r.count(n)
    (r.bad if bad else r.ok)("generateVisibilityEdgesFromBreakpointSet", fn.where(), bad or "%d direction combinations" % n)


def _dirs(d):
    return "+".join(x for x, b in (("up", 1), ("down", 2)) if d & b) or "none"


def call_object_(nd):
    from ..astq import call_object
    return call_object(nd)


def rule_inside_strict(chk, prog):
    """Node::isInsideShape decides whether a connector end point gets pass-through vertices in the orthogonal visibility graph."""
    from ..microai.interp import default_obj
    r = chk.rule("INSIDE-STRICT", "Avoid::Node::isInsideShape(dim), interpreted on a scan line with one obstacle node below and one above (symbolic "
                 "extents): true iff the position lies *strictly* between min and max of one of them -- a point on an obstacle's side is not "
                 "inside it (otherwise the end point loses its vertex and routes along that side detour)", floor=1)
    fn = prog.fn("Avoid::Node::isInsideShape")
    bad = None
    n_rows = 0
    for dim in (0, 1):
        def mknode(tag):
            return default_obj(prog, "Avoid::Node", {"min": Vec([Poly.var(tag + "min0"), Poly.var(tag + "min1")]), "max": Vec([Poly.var(tag + "max0"), Poly.var(tag + "max1")]),
                                                   "pos": Poly.var(tag + "pos"), "firstAbove": None, "firstBelow": None})
        me = mknode("m")
        lo, hi = mknode("b"), mknode("a")
        me.f["firstBelow"] = lo
        me.f["firstAbove"] = hi
        me.f["pos"] = Poly.var("p")

        def run(o, me=me):
            it = Interp(prog, o)
            try:
                return ("ret", it.call(fn, copy.deepcopy(me), None, None, arg_values=[dim]))
            except AssertFail as e:
                return ("assert", str(e))
        try:
            rows = enumerate_paths(run, limit=500)
        except Unsupported as e:
            raise AnalysisBroken("Node::isInsideShape outside the interpreter subset: %s" % e)
        n_rows += len(rows)
        vals = (0, 1, 2)
        for pv in vals:
            for bmin in vals:
                for bmax in vals:
                    for amin in vals:
                        for amax in vals:
                            env = {"p": Fraction(pv), "bmin%d" % dim: Fraction(bmin), "bmax%d" % dim: Fraction(bmax),
                                   "amin%d" % dim: Fraction(amin), "amax%d" % dim: Fraction(amax)}
                            hit = None
                            for val, descr, out in rows:
                                ok = True
                                for k_, v_ in val.items():
                                    pl = Poly({m: Fraction(c[0], c[1]) for m, c in k_[1]})
                                    if not pl.vars() <= set(env):
                                        ok = False
                                        break
                                    e = pl.eval_exact(env)
                                    if ((e > 0) - (e < 0)) != v_:
                                        ok = False
                                        break
                                if ok:
                                    hit = out
                                    break
                            if hit is None:
                                bad = bad or "no path of the decision tree covers %s (reads the wrong dimension?)" % env
                                continue
                            want = (bmin < pv < bmax) or (amin < pv < amax)
                            if hit != ("ret", want):
                                bad = bad or "dim %d, position %d, below [%d,%d], above [%d,%d]: returns %s, expected %s" % (
                                    dim, pv, bmin, bmax, amin, amax, hit, want)
    r.count(n_rows)
    (r.bad if bad else r.ok)("Avoid::Node::isInsideShape", fn.where(), bad or "%d paths" % n_rows)


def rule_segment_list(chk, prog):
    """SegmentListWrapper::insert: the list of visibility lines of one sweep loses neither extent nor vertices when lines are merged."""
    from ..microai.interp import Interp, Obj, Vec, SetVal, Oracle, Unsupported, AssertFail, default_obj
    from fractions import Fraction
    r = chk.rule("SEGMENT-LIST-MERGE", "SegmentListWrapper::insert interpreted on lists of collinear and parallel lines (new line disjoint, overlapping "
                 "one line, nested, BRIDGING two or three disjoint lines, equal to an existing one): afterwards the union of the extents on the "
                 "new line's coordinate is the union of the old extents and the new one, merged into one line wherever they touch; every "
                 "vertex of every merged line and of the new line is on the surviving line; lines at other coordinates are untouched; the "
                 "returned pointer is the line that now contains the inserted one", floor=6)
    fn = prog.fn("Avoid::SegmentListWrapper::insert")

    def seg(b, f, pos, names):
        vs = SetVal()
        for n in names:
            vs.items.add(n)
        return default_obj(prog, "Avoid::LineSegment", {"begin": Fraction(b), "finish": Fraction(f), "pos": Fraction(pos), "shapeSide": False,
                                                         "vertInfs": vs, "breakPoints": SetVal()})
    scenes = {
        "disjoint from all": ([(0, 4, 10, [1]), (6, 9, 10, [2])], (12, 15, 10, [3])),
        "overlaps one line": ([(0, 4, 10, [1]), (6, 9, 10, [2])], (3, 5, 10, [3])),
        "nested in one line": ([(0, 9, 10, [1, 2])], (3, 5, 10, [3])),
        "bridges two disjoint lines": ([(0, 4, 10, [1]), (6, 9, 10, [2]), (0, 9, 20, [7])], (4, 6, 10, [3])),
        "bridges three disjoint lines": ([(0, 2, 10, [1]), (4, 5, 10, [2]), (7, 9, 10, [4]), (20, 30, 10, [5])], (2, 7, 10, [3])),
        "equal to an existing line": ([(0, 4, 10, [1]), (6, 9, 10, [2])], (6, 9, 10, [3])),
        "same extent, other coordinate": ([(0, 4, 10, [1])], (0, 4, 11, [3])),
    }
    for name, (old, new_) in scenes.items():
        w = default_obj(prog, "Avoid::SegmentListWrapper", {})
        w.f["_list"] = Vec([seg(*o) for o in old], "Avoid::LineSegment")
        it = Interp(prog, Oracle([]))
        r.count()
        try:
            res = it.call(fn, w, None, None, arg_values=[seg(*new_)])
        except Unsupported as e:
            raise AnalysisBroken("SegmentListWrapper::insert outside the interpreter subset (%s): %s" % (name, e))
        except AssertFail as e:
            r.bad(name, fn.where(), "assertion fails: %s" % e)
            continue
        # reference: merge closed intervals per coordinate
        allsegs = [tuple(o) for o in old] + [tuple(new_)]
        want = {}
        for pos in sorted({s_[2] for s_ in allsegs}):
            ivs = sorted((s_[0], s_[1], set(s_[3])) for s_ in allsegs if s_[2] == pos)
            if pos != new_[2]:
                want[pos] = [(a, b, v) for a, b, v in ivs]          # other coordinates: untouched, not even merged among themselves
                continue
            # only lines that (transitively) touch the NEW line are merged with it
            cur = [new_[0], new_[1], set(new_[3])]
            rest = [list(x) for x in ivs if (x[0], x[1], x[2]) != (new_[0], new_[1], set(new_[3]))] if False else [list(x) for x in sorted((o[0], o[1], set(o[3])) for o in old if o[2] == pos)]
            changed = True
            while changed:
                changed = False
                for x in list(rest):
                    if x[0] <= cur[1] and cur[0] <= x[1]:
                        cur = [min(cur[0], x[0]), max(cur[1], x[1]), cur[2] | x[2]]
                        rest.remove(x)
                        changed = True
            want[pos] = sorted([tuple(cur)] + [tuple(x) for x in rest], key=lambda t: (t[0], t[1]))
        got = {}
        for s_ in w.f["_list"].items:
            got.setdefault(int(s_.f["pos"]), []).append((int(s_.f["begin"]), int(s_.f["finish"]), set(s_.f["vertInfs"].items)))
        for k_ in got:
            got[k_].sort(key=lambda t: (t[0], t[1]))
        bad = None
        if got != want:
            bad = "lines afterwards %s, expected %s" % ({k_: [(a, b, sorted(v)) for a, b, v in v_] for k_, v_ in got.items()},
                                                       {k_: [(a, b, sorted(v)) for a, b, v in v_] for k_, v_ in want.items()})
        elif not isinstance(res, Obj) or not (res.f["begin"] <= new_[0] and res.f["finish"] >= new_[1] and res.f["pos"] == new_[2]):
            bad = "the returned line does not contain the inserted one"
        (r.bad if bad else r.ok)(name, fn.where(), bad or "")


def rule_cost_targets(chk, prog):
    r = chk.rule("COST-TARGETS-COMPLETE", "AStarPathPrivate::determineEndPointLocation records EVERY candidate arrival point it is given: on every "
                 "path to its exit the point, its directions and its displacement are appended to m_cost_targets / _directions / "
                 "_displacements (kept in lock-step) -- the heuristic is the minimum over the recorded candidates, so a candidate that is "
                 "dropped makes it over-estimate for routes arriving from that side (inadmissible: A* returns a costlier route)", floor=3)
    fn = prog.fn("Avoid::AStarPathPrivate::determineEndPointLocation")
    g = CFG(fn)
    for vec in ("m_cost_targets", "m_cost_targets_directions", "m_cost_targets_displacements"):
        pb = [c for c in calls(fn) if str(c.get("cname", "")).endswith("::push_back") and norm(call_object(c)) == vec]
        r.count()
        if len(pb) != 1:
            r.bad(vec, fn.where(), "expected exactly one append to %s, found %d" % (vec, len(pb)))
            continue
        w = g.exit_reachable_avoiding([pb[0]["id"]])
        if w is not None:
            r.bad(vec, fn.loc(pb[0]), "the function can return without recording the candidate (%s)" % g.describe(w))
        else:
            r.ok(vec, fn.loc(pb[0]))


def rule_final_step(chk, prog):
    from ..astq import writes
    from ..rules.guards import path_condition, atoms, entails, show
    r = chk.rule("FINAL-STEP-CHARGED", "AStarPathPrivate::search copies a node's cost unchanged (`node.g = bestNode->g`, no cost of the step) only for "
                 "connection-pin bookkeeping vertices -- under a condition that entails isConnectionPin() or isDummyPinHelper() -- never for the "
                 "step into the target itself: routes that differ in the length of, or the bend into, their last segment must be compared with "
                 "it; the turn pruning is skipped (`pruneTurns`) when a free end point has restricted directions", floor=3)
    fn = prog.fn("Avoid::AStarPathPrivate::search")
    k = 0
    for lhs, node, op in writes(fn):
        if op != "=" or norm(lhs) != "node.g" or norm(node["ch"][1]) not in ("bestNode.g",):
            continue
        k += 1
        r.count()
        pc = path_condition(fn, node, inline=False)
        ok = entails(pc, ("atom", "node.inf.id.isConnectionPin()")) or entails(pc, ("atom", "node.inf.id.isDummyPinHelper()"))
        (r.ok if ok else r.bad)("free step at line %s" % node.get("l"), fn.loc(node), "" if ok else
                                "a step is taken at no cost under %s, which does not require the vertex to be a connection-pin vertex" % show(pc)[-160:])
    if k < 2:
        raise AnalysisBroken("search: the zero-cost steps for connection pins were not recognised")
    # turn pruning is guarded by pruneTurns, which is cleared when src or tar has restricted directions
    r.count()
    bad = None
    prune_ifs = []
    for n in fn.nodes():
        if n.get("k") == "IfStmt" and any(x.get("k") == "MemberExpr" and str(x.get("ref", "")).endswith("orthogVisPropFlags") for x in walk(n["cond"])):
            prune_ifs.append(n)
    if not prune_ifs:
        raise AnalysisBroken("search: turn-pruning tests not found")
    for n in prune_ifs:
        pc = path_condition(fn, n, inline=False)
        if not entails(pc, ("atom", "pruneTurns")):
            bad = bad or (n, "a turn-pruning test is reached without `pruneTurns`")
    clears = [node for lhs, node, op in writes(fn) if norm(lhs) == "pruneTurns" and norm(node["ch"][1]) == "false"]
    if not clears:
        bad = bad or (prune_ifs[0], "`pruneTurns` is never cleared")
    else:
        ats = " ".join(atoms(path_condition(fn, clears[0], inline=False)))
        if "visDirections" not in ats or "Avoid::ConnDirAll" not in ats:
            bad = bad or (clears[0], "`pruneTurns` is cleared under a condition that does not look at the end point's permitted directions")
        init = [x for x in fn.nodes() if x.get("k") == "VarDecl" and x.get("name") == "ends"]
        if not init or not ("src" in norm(init[0].get("init")) and "tar" in norm(init[0].get("init"))):
            bad = bad or (clears[0], "the restricted-direction test does not cover both src and tar")
    (r.bad("turn pruning off for restricted end points", fn.loc(bad[0]), bad[1]) if bad else r.ok("turn pruning off for restricted end points", fn.loc(clears[0])))


def rule_segment_completion(chk, prog):
    """When the scan reaches the end of a horizontal candidate segment: who may finish it."""
    from ..rules.guards import path_condition, atoms, entails
    from ..cfg import CFG
    r = chk.rule("SEGMENT-COMPLETION", "intersectSegments (building the orthogonal visibility graph): a horizontal candidate segment is taken off the "
                 "list only when the sweep is strictly past its end, or exactly at its end AND the current vertical segment covers its y (so "
                 "that the junction at its end has been inserted) -- several disjoint vertical segments may share that x, and one that does not "
                 "reach the line must leave it for the one that does; on both paths the segment's edges are generated before it is erased", floor=2)
    fn = prog.fn("Avoid::intersectSegments")
    g = CFG(fn)
    ers = [c for c in calls(fn) if str(c.get("cname", "")).endswith("::erase") and call_object(c) is not None and norm(call_object(c)) == "segments"]
    if len(ers) < 2:
        raise AnalysisBroken("intersectSegments: the two erase sites were not found")
    A = lambda s_: ("atom", s_)
    want = ("or", A("(vertLine.pos > horiLine.finish)"),
            ("and", A("(vertLine.pos == horiLine.finish)"), ("and", A("(vertLine.begin <= horiLine.pos)"), A("(vertLine.finish >= horiLine.pos)"))))
    from ..rules.guards import map_atoms
    import re as _re
    vname = fn.params[2]["name"] if len(fn.params) >= 3 else "vertLine"
    hd = [d for d in fn.nodes() if d.get("k") == "VarDecl" and "LineSegment &" in str(d.get("t", "")) and d.get("init") is not None]
    hname = hd[0].get("name") if hd else "horiLine"

    def canon(a):
        a = _re.sub(r"\b%s\b" % _re.escape(vname), "vertLine", a)
        return _re.sub(r"\b%s\b" % _re.escape(hname), "horiLine", a)
    for c in ers:
        r.count()
        pc = map_atoms(path_condition(fn, c, inline=True, early=True), canon)
        bad = None
        if not entails(pc, want):
            bad = "the segment is erased under %s: at its end x it may be finished by a vertical segment that does not reach its y, before the one " \
                  "that does has inserted the junction" % show_short(pc)
        else:
            gen = [x for x in calls(fn) if x.get("cname") == "Avoid::LineSegment::generateVisibilityEdgesFromBreakpointSet"]
            blk = [a for a in fn.ancestors(c) if a.get("k") == "CompoundStmt"][0]
            if not any(any(y is x for y in walk(blk)) for x in gen):
                bad = "the segment is erased without its visibility edges having been generated in that branch"
        (r.bad if bad else r.ok)("erase at line %s" % c.get("l"), fn.loc(c), bad or "")


def rule_visdirs_temporary(chk, prog):
    """The widening of an end point's directions on the outside of the scene belongs to ONE graph construction."""
    from ..astq import writes, written_field
    r = chk.rule("WIDENED-DIRS-TEMPORARY", "generateStaticOrthogonalVisGraph: fixConnectionPointVisibilityOnOutsideOfVisibilityGraph ORs extra directions "
                 "into the visDirections of connector end vertices that lie on the outermost scan positions; the vertices outlive the graph, so "
                 "the caller records every end vertex's requested directions before the first such call (a loop over all connector vertices) and "
                 "assigns them back on every path to its end -- otherwise an end point restricted to one direction keeps the extra directions "
                 "in all later transactions and routes differently from a fresh router on the same scene", floor=2)
    fn = prog.fn("Avoid::generateStaticOrthogonalVisGraph")
    g = CFG(fn)
    fixes = [c for c in calls(fn) if c.get("cname") == "Avoid::fixConnectionPointVisibilityOnOutsideOfVisibilityGraph"]
    if not fixes:
        r.count()
        r.ok("no widening", fn.where(), "the graph construction no longer widens end-point directions (clause vacuous)")
        return
    fld = "Avoid::VertInf::visDirections"
    saves = []
    for n in fn.nodes():
        if n.get("k") == "MemberExpr" and n.get("ref") == fld:
            lps = [a for a in fn.ancestors(n) if a.get("k") == "ForStmt"]
            if lps and "connsBegin()" in norm(lps[0].get("init")) and not any(strip(lhs) is n for lhs, node, op in writes(fn)):
                saves.append((n, lps[0]))
    restores = [node for lhs, node, op in writes(fn) if written_field(lhs)[0] == fld and op == "="]
    r.count()
    bad = None
    if not saves:
        bad = "the requested directions of the connector end vertices are not recorded before they are widened"
    else:
        heads = [x["id"] for x in walk(saves[0][1].get("cond") or {}) if x.get("id") in g.pos]
        for c in fixes:
            if g.must_precede(heads, c["id"]) is not None:
                bad = bad or "a widening call at line %s can be reached before the directions were recorded" % c.get("l")
    (r.bad if bad else r.ok)("directions recorded first", fn.loc(saves[0][0]) if saves else fn.loc(fixes[0]), bad or "")
    r.count()
    bad = None
    if not restores:
        bad = "the widened directions are never assigned back"
    else:
        lps = [a for a in fn.ancestors(restores[0]) if a.get("k") == "ForStmt"]
        heads = [x["id"] for x in walk((lps[0].get("cond") if lps else None) or {}) if x.get("id") in g.pos] or [restores[0]["id"]]
        for c in fixes:
            w = g.must_follow(c["id"], heads)
            if w is not None:
                bad = bad or "after the widening call at line %s a path leaves the function without restoring the directions (%s)" % (c.get("l"), g.describe(w))
        if lps and g.iteration_can_skip(lps[0], [restores[0]["id"]]) is not None:
            bad = bad or "the restoring loop can skip a vertex"
    (r.bad if bad else r.ok)("directions restored", fn.loc(restores[0]) if restores else fn.where(), bad or "")


def show_short(pc):
    from ..rules.guards import show
    return show(pc)[:220]


def run(chk):
    prog = chk.load()
    from .c04 import rule_astar, rule_cost
    chk.guard(rule_segment_completion, chk, prog)
    chk.guard(rule_visdirs_temporary, chk, prog)
    chk.guard(rule_cost, chk, prog)               # the cost the orthogonal search minimises: length + segmentPenalty * bends, nothing else
    chk.guard(rule_final_step, chk, prog)
    chk.guard(rule_cost_targets, chk, prog)
    chk.guard(rule_segment_list, chk, prog)
    chk.guard(rule_astar, chk, prog)
    chk.guard(rule_inside_strict, chk, prog)
    chk.guard(rule_bends, chk, prog)
    chk.guard(rule_dir_tables, chk, prog)
    chk.guard(rule_heuristic, chk, prog)
    chk.guard(rule_heuristic_consistent, chk, prog)
    chk.guard(rule_pass_through_at_endpoint, chk, prog)
    chk.guard(rule_turn_prune, chk, prog)
    chk.guard(rule_turn_prune_mirror, chk, prog)
    chk.guard(rule_flags_mirror, chk, prog)
    chk.guard(rule_endpoint_dirs, chk, prog)
