"""C06 -- libavoid: incremental transactions give what routing from scratch gives: the bookkeeping clauses.

The property itself (equal cost after an arbitrary edit history) is a statement about run-time graph contents and is NOT decided.
Decided are the structural clauses without which it cannot hold -- each found (or confirmed) by a defect or a seeded change:

  ROUTE-DIST-CACHED    the route length that the selective-reroute test compares against (ConnRef::m_route_dist) is recomputed on
                       every path of ConnRef::generatePath after the new route is stored; nobody else writes it
  EDGE-TEST-STATELESS  Router::markPolylineConnectorsNeedingReroutingForDeletedObstacle: the per-edge estimate has no loop-carried
                       state -- every local that is written inside the per-edge loop is written before it is read in the same
                       iteration (the connector's end points are the same for every edge of the obstacle)
  CROSSING-POINT       the point of the obstacle edge through which the estimate is taken: x = (|b| c + a |d|) / (|b| + |d|) clipped
                       to the edge (symbolic: for end points on the same side and on opposite sides of the edge line)
  TRANSACTION-PHASES   Router::processActions: every removed / moved obstacle is taken out of the graph, its blocked edges are
                       re-tested (checkAllBlockedEdges for every moved and every deleted id, or checkAllMissingEdges), connectors
                       that may profit are marked whenever SelectiveReroute is on and the obstacle is deleted; every added / moved
                       obstacle is re-activated, given its new geometry, tested against all visible edges and gets visibility; all
                       queued end-point changes are applied; the queue is cleared
  TRANSACTION-ENTRY    Router::processTransaction returns early only when nothing is queued (or SimpleRouting); otherwise
                       processActions, invalidation of the orthogonal graph and rerouteAndCallbackConnectors run on every path
  REROUTE-ALL-FLAGGED  rerouteAndCallbackConnectors first transfers the pending flags, then offers every connector to generatePath
                       except hyperedge members and fixed routes; generatePath declines only when neither m_false_path nor
                       m_needs_reroute_flag is set (or the connector has no end points)
  BLOCKER-RECORDED     (shared with C04) blocker ids are stored and re-tested
  BLOCKING-SCAN        (shared with C03) newly blocked edges alert the connectors that use them
Not decided: equality of costs with a fresh router for all histories; validity of every route.
"""
from fractions import Fraction

from ..astq import strip, strip_casts, calls, call_args, call_object, writes, written_field, norm, literal_value, single_assignment_locals
from ..cfg import CFG
from ..facts import AnalysisBroken, walk
from ..rules.guards import path_condition, atoms, entails, show, formula


def rule_route_dist(chk, prog):
    r = chk.rule("ROUTE-DIST-CACHED", "ConnRef::m_route_dist (read by the selective-reroute test) is written only by calcRouteDist and the "
                 "constructors; ConnRef::generatePath calls it on every path after storing the new route, and the test reads it", floor=3)
    fld = "Avoid::ConnRef::m_route_dist"
    wr = {}
    for f in prog.all_functions():
        if f.tmpl == "pattern":
            continue
        for lhs, node, op in writes(f):
            if written_field(lhs)[0] == fld:
                wr.setdefault(f.q, f)
    nonctor = sorted(q for q, f in wr.items() if f.kind != "ctor")
    r.count()
    if nonctor != ["Avoid::ConnRef::calcRouteDist"]:
        r.bad("writers of m_route_dist", "", "m_route_dist is written by %s (expected: calcRouteDist only)" % nonctor)
    else:
        r.ok("writers of m_route_dist", wr[nonctor[0]].where())
    gp = prog.fn("Avoid::ConnRef::generatePath")
    g = CFG(gp)
    sal = single_assignment_locals(gp)
    stores = [node for lhs, node, op in writes(gp) if norm(lhs, sal).replace("this.", "") in ("m_route.ps", "output_route.ps") and op == "="]
    if not stores:
        raise AnalysisBroken("generatePath: store of the new route (m_route.ps = ...) not found")
    upd = [n["id"] for n in calls(gp) if n.get("cname") == "Avoid::ConnRef::calcRouteDist"]
    for s_ in stores:
        r.count()
        w = g.must_follow(s_["id"], upd) if upd else []
        if w is not None:
            r.bad("generatePath: route length cached", gp.loc(s_), "after storing the new route the cached route length is not recomputed%s: the "
                  "selective-reroute test compares its lower bound with a stale length (0 after construction), so connectors that could "
                  "take a shorter path after an obstacle is removed are never rerouted" % ((" on " + g.describe(w)) if w else ""))
        else:
            r.ok("generatePath: route length cached", gp.loc(s_))
    mk = prog.fn("Avoid::Router::markPolylineConnectorsNeedingReroutingForDeletedObstacle")
    reads = [n for n in mk.nodes() if n.get("k") == "MemberExpr" and n.get("ref") == fld]
    r.count()
    (r.ok if reads else r.bad)("selective test reads m_route_dist", mk.where(), "" if reads else "the test no longer compares against the cached route length")


def rule_cost_bound(chk, prog):
    """Routes are chosen by cost: the test that decides whether a removed obstacle can matter must bound the COST of the current route."""
    from ..microai.interp import Interp, Obj, Vec, Box, Oracle, Unsupported, AssertFail, default_obj
    from ..microai.poly import Poly, to_poly
    r = chk.rule("REROUTE-COST-BOUND", "markPolylineConnectorsNeedingReroutingForDeletedObstacle: the value the lower bound for a path through the freed "
                 "region is compared with (`conndist`), computed by interpreting the statements that define it for routes of 2, 3 and 5 points "
                 "with symbolic route length D, segment penalty P and angle penalty Q: it is at least D + (points - 2) * (P + Q), an upper "
                 "bound on the COST of the current route -- with a bare length a longer path with fewer bends, cheaper under a penalty, is "
                 "never tried after the obstacle in its way has gone", floor=3)
    fn = prog.fn("Avoid::Router::markPolylineConnectorsNeedingReroutingForDeletedObstacle")
    decl = [n for n in fn.nodes() if n.get("k") == "VarDecl" and n.get("name") == "conndist"]
    est = [n for n in fn.nodes() if n.get("k") == "VarDecl" and n.get("name") == "estdist"]
    cv = [n for n in fn.nodes() if n.get("k") == "VarDecl" and n.get("name") == "conn"]
    if len(decl) != 1 or len(est) != 1 or not cv:
        raise AnalysisBroken("selective-reroute test: locals conndist / estdist / conn not found")
    blk = [a for a in fn.ancestors(decl[0]) if a.get("k") == "CompoundStmt"][0]
    stmts = blk.get("ch", [])
    i0 = [k for k, st in enumerate(stmts) if any(x is decl[0] for x in walk(st))]
    i1 = [k for k, st in enumerate(stmts) if any(x is est[0] for x in walk(st))]
    if not i0 or not i1 or i1[0] <= i0[0]:
        raise AnalysisBroken("selective-reroute test: the statements defining conndist were not located")
    rp = prog.enums.get("Avoid::RoutingParameter")
    RP = {e["name"]: int(e["v"]) for e in rp["enumerators"]} if rp else {}
    D, P, Q = Poly.var("D"), Poly.var("P"), Poly.var("Q")

    def rparam(it, n, env):
        v = it.ev(call_args(n)[0], env)
        return {RP.get("segmentPenalty"): P, RP.get("anglePenalty"): Q}.get(v, Fraction(0))
    for npts in (2, 3, 5):
        route = default_obj(prog, "Avoid::Polygon", {"ps": Vec([default_obj(prog, "Avoid::Point", {"x": Fraction(k), "y": Fraction(0), "id": 0, "vn": 8})
                                                                 for k in range(npts)], "Avoid::Point")})
        conn = default_obj(prog, "Avoid::ConnRef", {"m_route": route, "m_route_dist": D})
        it = Interp(prog, Oracle([]), hooks={"Avoid::Router::routingParameter": rparam})
        it.positive = {"D", "P", "Q"}
        env = {cv[0]["did"]: Box(conn), "this": default_obj(prog, "Avoid::Router", {})}
        r.count()
        try:
            for st in stmts[i0[0]:i1[0]]:
                it.ex(st, env)
        except (Unsupported, AssertFail) as e:
            raise AnalysisBroken("statements defining conndist outside the interpreter subset: %s" % e)
        got = to_poly(env[decl[0]["did"]].get())
        want = to_poly(D) + (to_poly(P) + to_poly(Q)) * (npts - 2)
        diff = got - want
        ok = all(c >= 0 for c in diff.t.values())          # D, P, Q >= 0: every surplus term is non-negative
        (r.ok if ok else r.bad)("route of %d points" % npts, fn.loc(decl[0]), "" if ok else
                                "conndist = %s, which is below the route's cost bound %s" % (got, want))


def rule_stateless(chk, prog):
    r = chk.rule("EDGE-TEST-STATELESS", "markPolylineConnectorsNeedingReroutingForDeletedObstacle: inside the loop over the obstacle's edges, "
                 "every local variable declared outside that loop and stored inside it is stored before it is read in each iteration (no "
                 "value flows from one edge's computation into the next)", floor=3)
    fn = prog.fn("Avoid::Router::markPolylineConnectorsNeedingReroutingForDeletedObstacle")
    g = CFG(fn)
    loops = [n for n in fn.nodes() if n.get("k") == "ForStmt"]
    inner = [lp for lp in loops if any(a.get("k") == "ForStmt" for a in fn.ancestors(lp))]
    if len(inner) != 1:
        raise AnalysisBroken("per-edge loop not recognised (%d nested loops)" % len(inner))
    lp = inner[0]
    body_ids = {n["id"] for n in walk(lp["body"]) if "id" in n}
    declared_inside = {n.get("did") for n in walk(lp) if n.get("k") == "VarDecl"}
    stores = {}
    for lhs, node, op in writes(fn):
        if node["id"] not in body_ids:
            continue
        e = strip_casts(lhs)
        while e is not None and e.get("k") == "MemberExpr" and e.get("ch"):
            e = strip_casts(e["ch"][0])       # start.x = ...  -> start
        if e is not None and e.get("k") == "DeclRefExpr" and e.get("rk") == "Var" and e.get("did") not in declared_inside:
            whole = strip_casts(lhs).get("k") == "DeclRefExpr" and op == "="
            stores.setdefault(e["did"], {"name": e.get("ref"), "all": [], "whole": []})
            stores[e["did"]]["all"].append(node)
            if whole:
                stores[e["did"]]["whole"].append(node)
    if not stores:
        r.count()
        r.ok("no outer local is stored in the per-edge loop", fn.loc(lp))
        return
    hdr, body = g.loop_header(lp)
    for did, info in sorted(stores.items(), key=lambda kv: str(kv[1]["name"])):
        r.count()
        lhs_ids = set()
        for node in info["all"]:
            for x in walk(node["ch"][0]):
                if "id" in x:
                    lhs_ids.add(x["id"])
        reads = [n for n in walk(lp["body"]) if n.get("k") == "DeclRefExpr" and n.get("did") == did and n.get("id") not in lhs_ids and n.get("id") in g.pos]
        kill = [n["id"] for n in info["whole"]]
        bad = None
        for rd in reads:
            w = g.search([(body, 0)], blocked=kill, targets=[rd["id"]])
            if w is not None:
                bad = "`%s` (declared per connector) is modified inside the per-edge loop and read at line %s before being re-initialised in " \
                      "that iteration: the edges after the first are tested with values left over from the previous edge" % (info["name"], rd.get("l"))
                break
        (r.bad if bad else r.ok)("per-edge local %s" % info["name"], fn.loc(info["all"][0]), bad or "")


def rule_crossing_point(chk, prog):
    """Symbolic check of the crossing-point formula on an axis-parallel edge."""
    from ..microai.interp import Interp, Obj, Vec, Box, Oracle, enumerate_paths, AssertFail, Thrown, Unsupported, default_obj
    from ..microai.poly import Poly, to_poly
    r = chk.rule("CROSSING-POINT", "markPolylineConnectorsNeedingReroutingForDeletedObstacle interpreted for one connector and one horizontal "
                 "obstacle edge y = 0 from (0,0) to (10,0) with integer end points on a grid: the point handed to euclideanDist is "
                 "clip((|b| c + a |d|) / (|b| + |d|), 0, 10) -- the point of the edge minimising start -> x -> end -- for end points on the "
                 "same side and on opposite sides of the edge", floor=1)
    fn = prog.fn("Avoid::Router::markPolylineConnectorsNeedingReroutingForDeletedObstacle")
    rows = 0
    bad = None
    pts = [(-4, 3), (2, 5), (14, 2), (5, -4), (-3, -2), (12, -6), (3, 1), (7, -1)]
    if chk.tier == "thorough":
        pts += [(x, y) for x in (-6, 0, 5, 10, 16) for y in (-7, -1, 1, 4, 9)]
    for (sx, sy) in pts:
        for (ex, ey) in pts:
            if (sx, sy) == (ex, ey):
                continue
            seen = []

            def dist_hook(it, n, env):
                a = [it.ev(x, env) for x in n["ch"][1:]]
                seen.append(a)
                return Fraction(10 ** 6)        # never below conndist: all edges are looked at

            def P(x, y):
                return default_obj(prog, "Avoid::Point", {"x": Fraction(x), "y": Fraction(y), "id": 0, "vn": 8})
            v1 = default_obj(prog, "Avoid::VertInf", {"point": P(0, 0)})
            v2 = default_obj(prog, "Avoid::VertInf", {"point": P(10, 0)})
            v1.f["shNext"] = v2
            v1.f["lstNext"] = None
            v2.f["shNext"] = v1
            obst = default_obj(prog, "Avoid::ShapeRef", {"m_first_vert": v1, "m_last_vert": v1})
            route = default_obj(prog, "Avoid::Polygon", {"ps": Vec([P(sx, sy), P(ex, ey)], "Avoid::Point")})
            conn = default_obj(prog, "Avoid::ConnRef", {"m_route": route, "m_needs_reroute_flag": False, "m_route_dist": Fraction(1), "m_type": 1})
            router = default_obj(prog, "Avoid::Router", {"RubberBandRouting": False, "SelectiveReroute": True, "connRefs": Vec([conn], "Avoid::ConnRef *")})
            it = Interp(prog, Oracle([]), hooks={"Avoid::euclideanDist": dist_hook,
                                                 "Avoid::ConnRef::routingType": lambda it_, n, env: 1})
            try:
                it.call(fn, router, None, None, arg_values=[obst])
            except (Unsupported, AssertFail, Thrown) as e:
                if "division by" in str(e):
                    rows += 1
                    bad = bad or "start (%d,%d), end (%d,%d), edge (0,0)-(10,0): the crossing point is computed by a division by zero" % (sx, sy, ex, ey)
                    continue
                raise AnalysisBroken("selective-reroute test outside the interpreter subset: %s" % e)
            rows += 1
            b_, d_ = abs(Fraction(sy)), abs(Fraction(ey))
            if b_ == 0 and d_ == 0:
                continue
            x = (b_ * ex + sx * d_) / (b_ + d_)
            x = min(max(x, Fraction(0)), Fraction(10))
            if not seen:
                bad = bad or "start (%d,%d) end (%d,%d): the edge is not evaluated" % (sx, sy, ex, ey)
                continue
            xp = seen[0][1]
            got = (to_poly(xp.f["x"]).const_value(), to_poly(xp.f["y"]).const_value())
            if got != (x, Fraction(0)):
                bad = bad or "start (%d,%d), end (%d,%d), edge (0,0)-(10,0): estimate taken through (%s, %s), the shortest path via the edge " \
                             "passes (%s, 0)" % (sx, sy, ex, ey, got[0], got[1], x)
    r.count(rows)
    (r.bad if bad else r.ok)("crossing point on an axis-parallel edge", fn.where(), bad or "%d end-point pairs" % rows)


TYPES_RM = ("(curr.*.type == Avoid::ShapeRemove)", "(curr.*.type == Avoid::ShapeMove)", "(curr.*.type == Avoid::JunctionRemove)",
            "(curr.*.type == Avoid::JunctionMove)")
TYPES_ADD = ("(curr.*.type == Avoid::ShapeAdd)", "(curr.*.type == Avoid::ShapeMove)", "(curr.*.type == Avoid::JunctionAdd)",
             "(curr.*.type == Avoid::JunctionMove)")


def _disj(names):
    f = ("const", False)
    for n in names:
        f = ("or", f, ("atom", n))
    return f


def _pc(fn, node):
    return _drop_loop_atoms(path_condition(fn, node, inline=True, early=True))


def rule_phases(chk, prog):
    r = chk.rule("TRANSACTION-PHASES", "Router::processActions, per phase: which actions are handled (path condition of each step incl. early "
                 "`continue`s), that no handled action skips a step, and that the re-test / marking / blocking steps run under conditions no "
                 "stronger than the reviewed ones", floor=14)
    fn = prog.fn("Avoid::Router::processActions")
    g = CFG(fn)
    sal = single_assignment_locals(fn)
    loops = [n for n in fn.nodes() if n.get("k") == "ForStmt" and not any(a.get("k") == "ForStmt" for a in fn.ancestors(n))
             and "actionList.begin()" in norm(n.get("init"))]
    if len(loops) < 3:
        # `curr = actionList.begin()` is an assignment in the for-init, not a declaration
        loops = [n for n in fn.nodes() if n.get("k") == "ForStmt" and "actionList.begin()" in norm(n.get("init"))
                 and len([a for a in fn.ancestors(n) if a.get("k") == "ForStmt"]) == 0]
    # the four phases walk the list with the function's own iterator `curr`; a nested helper pass with its own iterator (e.g. the
    # rewrite of queued ends before an obstacle is freed) is not a phase
    top = [n for n in fn.nodes() if n.get("k") == "ForStmt" and "actionList.begin()" in norm(n.get("init"))
           and not any(a.get("k") == "ForStmt" for a in fn.ancestors(n))]
    if len(top) != 4:
        raise AnalysisBroken("processActions: expected four scans of the action list, found %d" % len(top))
    top.sort(key=lambda n: n["l"])
    ph_remove, ph_retest, ph_add, ph_conn = top

    def step(loop, cname, what, required=None, allowed_extra=(), arg=None):
        """the call `cname` inside `loop`: present, not skippable for handled actions, path condition == handled [&& required]"""
        cs = [c for c in walk(loop["body"]) if c.get("cname") == cname]
        r.count()
        inst = "%s: %s" % (what, cname.split("::")[-1])
        if not cs:
            r.bad(inst, fn.loc(loop), "step missing: %s is no longer called in this phase" % cname)
            return None
        return cs

    def handled_formula(names):
        return _disj(names)

    # ---- phase 1: removals and moves
    H1 = handled_formula(TYPES_RM)
    for cname, extra in (("Avoid::Obstacle::removeFromGraph", None), ("Avoid::Router::adjustContainsWithDel", None), ("Avoid::Obstacle::makeInactive", None)):
        cs = step(ph_remove, cname, "remove/move phase")
        if cs:
            pc = _pc(fn, cs[0])
            inst = "remove/move phase: %s" % cname.split("::")[-1]
            if not entails(H1, pc):
                r.bad(inst, fn.loc(cs[0]), "not executed for every removed / moved obstacle: runs only under %s" % show(pc)[:200])
            else:
                r.ok(inst, fn.loc(cs[0]))
    cs = step(ph_remove, "Avoid::Router::markPolylineConnectorsNeedingReroutingForDeletedObstacle", "remove/move phase")
    if cs:
        pc = _pc(fn, cs[0])
        isdel = ("and", ("atom", "SelectiveReroute"), ("and", H1, ("not", ("or", ("atom", "(curr.*.type == Avoid::ShapeMove)"),
                                                                           ("atom", "(curr.*.type == Avoid::JunctionMove)")))))
        inst = "remove/move phase: selective marking"
        if not entails(isdel, pc):
            r.bad(inst, fn.loc(cs[0]), "connectors that may take a shorter path are not marked for every deleted obstacle when "
                  "SelectiveReroute is on: the call runs under %s" % show(pc)[:220])
        else:
            r.ok(inst, fn.loc(cs[0]))
    for cname, tag in (("Avoid::ShapeRef::moveAttachedConns", "shape"), ("Avoid::JunctionRef::moveAttachedConns", "junction")):
        cs = step(ph_remove, cname, "remove/move phase")
        if cs:
            pc = _pc(fn, cs[0])
            mv = ("atom", "(curr.*.type == Avoid::%sMove)" % ("Shape" if tag == "shape" else "Junction"))
            obj = ("atom", "curr.*.%s()" % tag)
            need = ("and", mv, obj) if tag == "shape" else ("and", mv, ("and", obj, ("not", ("atom", "curr.*.shape()"))))
            inst = "remove/move phase: %s" % cname.split("::", 1)[1]
            (r.ok if entails(need, pc) else r.bad)(inst, fn.loc(cs[0]), "" if entails(need, pc) else
                                                   "attached connector ends are not moved for every moved %s: runs under %s" % (tag, show(pc)[:200]))
    seen = [node for lhs, node, op in writes(fn) if norm(lhs) == "seenShapeMovesOrDeletes" and norm(node["ch"][1]) == "true"]
    r.count()
    if not seen or not entails(H1, _pc(fn, seen[0])):
        r.bad("remove/move phase: seenShapeMovesOrDeletes", fn.loc(ph_remove), "the flag that triggers the re-test of blocked edges is not set for every removed / moved obstacle")
    else:
        r.ok("remove/move phase: seenShapeMovesOrDeletes", fn.loc(seen[0]))
    dl = [c for c in walk(ph_remove["body"]) if c.get("k") == "CXXDeleteExpr"]
    pb = [c for c in walk(ph_remove["body"]) if c.get("cname", "").endswith("::push_back") and norm(call_object(c)) == "deletedObstacles"]
    r.count()
    if not dl or not pb or g.search("entry", blocked=[pb[0]["id"]], targets=[dl[0]["id"]]) is not None:
        r.bad("remove/move phase: deleted ids recorded", fn.loc(ph_remove), "an obstacle can be freed without its id being recorded in deletedObstacles: "
              "the edges it blocked are never re-tested")
    else:
        r.ok("remove/move phase: deleted ids recorded", fn.loc(pb[0]))

    # ---- phase 2: re-test
    cb = [c for c in calls(fn) if c.get("cname") == "Avoid::Router::checkAllBlockedEdges"]
    cm = [c for c in calls(fn) if c.get("cname") == "Avoid::Router::checkAllMissingEdges"]
    r.count(3)
    base = ("and", ("atom", "seenShapeMovesOrDeletes"), ("atom", "m_allows_polyline_routing"))
    ok_mv = ok_del = ok_ms = False
    for c in cb:
        pc = _pc(fn, c)
        a0 = norm(call_args(c)[0], sal)
        if "curr.*.obstacle().id()" in a0 or "obstacle().id()" in a0:
            need = ("and", base, ("and", ("atom", "InvisibilityGrph"), ("or", ("atom", "(curr.*.type == Avoid::ShapeMove)"), ("atom", "(curr.*.type == Avoid::JunctionMove)"))))
            ok_mv = ok_mv or entails(need, pc)
        else:
            need = ("and", base, ("atom", "InvisibilityGrph"))
            lp = [a for a in fn.ancestors(c) if a.get("k") == "ForStmt"]
            whole = lp and "deletedObstacles.begin()" in norm(lp[0].get("init")) and "deletedObstacles.end()" in norm(lp[0].get("cond")) \
                and g.iteration_can_skip(lp[0], [c["id"]]) is None and a0 in ("it.*", "*it")
            ok_del = ok_del or (entails(need, pc) and bool(whole))
    for c in cm:
        pc = _pc(fn, c)
        ok_ms = ok_ms or entails(("and", base, ("not", ("atom", "InvisibilityGrph"))), pc)
    (r.ok if ok_mv else r.bad)("re-test phase: moved obstacles", fn.loc(ph_retest), "" if ok_mv else
                               "edges blocked by a moved obstacle are not re-tested for every move (checkAllBlockedEdges(moved id))")
    (r.ok if ok_del else r.bad)("re-test phase: deleted obstacles", fn.loc(ph_retest), "" if ok_del else
                                "edges blocked by a deleted obstacle are not re-tested for every recorded id (checkAllBlockedEdges(*it) over deletedObstacles)")
    (r.ok if ok_ms else r.bad)("re-test phase: without invisibility graph", fn.loc(ph_retest), "" if ok_ms else
                               "without the invisibility graph missing edges are not re-tested (checkAllMissingEdges)")

    # ---- phase 3: adds and moves
    H3 = handled_formula(TYPES_ADD)
    for cname in ("Avoid::Obstacle::makeActive", "Avoid::Router::adjustContainsWithAdd"):
        cs = step(ph_add, cname, "add/move phase")
        if cs:
            pc = _pc(fn, cs[0])
            inst = "add/move phase: %s" % cname.split("::")[-1]
            (r.ok if entails(H3, pc) else r.bad)(inst, fn.loc(cs[0]), "" if entails(H3, pc) else
                                                 "not executed for every added / moved obstacle: runs under %s" % show(pc)[:200])
    poly = ("atom", "m_allows_polyline_routing")
    cs = step(ph_add, "Avoid::Router::newBlockingShape", "add/move phase")
    if cs:
        pc = _pc(fn, cs[0])
        need = ("and", ("and", H3, poly), ("not", ("or", ("atom", "(curr.*.type == Avoid::ShapeMove)"), ("atom", "(curr.*.type == Avoid::JunctionMove)"))))
        need2 = ("and", ("and", H3, poly), ("not", ("and", ("atom", "PartialFeedback"), ("atom", "PartialTime"))))
        okb = entails(need, pc) and entails(need2, pc)
        (r.ok if okb else r.bad)("add/move phase: newBlockingShape", fn.loc(cs[0]), "" if okb else
                                 "visible edges are not tested against every added obstacle (and every moved one outside partial-time feedback): "
                                 "runs under %s" % show(pc)[:220])
    for cname, lees in (("Avoid::Obstacle::computeVisibilitySweep", ("atom", "UseLeesAlgorithm")),
                        ("Avoid::Obstacle::computeVisibilityNaive", ("not", ("atom", "UseLeesAlgorithm")))):
        cs = step(ph_add, cname, "add/move phase")
        if cs:
            pc = _pc(fn, cs[0])
            need = ("and", ("and", H3, poly), lees)
            inst = "add/move phase: %s" % cname.split("::")[-1]
            (r.ok if entails(need, pc) else r.bad)(inst, fn.loc(cs[0]), "" if entails(need, pc) else
                                                   "visibility of an added / moved obstacle's vertices is computed only under %s" % show(pc)[:200])
    for cname, tag in (("Avoid::Obstacle::setNewPoly", "newPoly"), ("Avoid::JunctionRef::setPosition", "actInf.newPosition")):
        cs = step(ph_add, cname, "add/move phase")
        if cs:
            a0 = norm(call_args(cs[0])[0], sal)
            inst = "add/move phase: %s" % cname.split("::")[-1]
            want = "curr.*.newPoly" if tag == "newPoly" else "curr.*.newPosition"
            (r.ok if a0 == want else r.bad)(inst, fn.loc(cs[0]), "" if a0 == want else "moved obstacle is given `%s`, not the queued %s" % (a0, want))

    # ---- phase 4 and the end
    cs = step(ph_conn, "Avoid::ConnRef::updateEndPoint", "end-point phase")
    if cs:
        lp = [a for a in fn.ancestors(cs[0]) if a.get("k") == "ForStmt"][0]
        okc = "conns.begin()" in norm(lp.get("init")) and "conns.end()" in norm(lp.get("cond")) and g.iteration_can_skip(lp, [cs[0]["id"]]) is None
        pc = _pc(fn, cs[0])
        okc = okc and (entails(("not", ("atom", "(curr.*.type != Avoid::ConnChange)")), pc) or entails(("atom", "(curr.*.type == Avoid::ConnChange)"), pc))
        (r.ok if okc else r.bad)("end-point phase: updateEndPoint", fn.loc(cs[0]), "" if okc else "not every queued end-point change is applied")
    clr = [c["id"] for c in calls(fn) if c.get("cname", "").endswith("::clear") and norm(call_object(c)) == "actionList"]
    r.count()
    w = g.exit_reachable_avoiding(clr) if clr else []
    (r.ok if w is None else r.bad)("queue cleared", fn.where(), "" if w is None else "processActions can return without clearing the action list (actions would be applied twice)")


def _skips(fn, loop, H, poly):
    """ids of `continue` statements of the loop (iterations that legitimately skip)"""
    return [n["id"] for n in walk(loop["body"]) if n.get("k") == "ContinueStmt"]


def _rename_atoms(f, m):
    if f[0] == "atom":
        return ("atom", m.get(f[1], f[1]))
    if f[0] == "const":
        return f
    if f[0] == "not":
        inner = _rename_atoms(f[1], m)
        key = "!" + show(f[1])
        return ("not", inner)
    return (f[0], _rename_atoms(f[1], m), _rename_atoms(f[2], m))


def _drop_loop_atoms(f):
    """replace loop-condition atoms (iterator != end) by true"""
    if f[0] == "atom":
        return ("const", True) if (".end()" in f[1] or "finish" in f[1] or "!= fin" in f[1]) else f
    if f[0] == "const":
        return f
    if f[0] == "not":
        inner = _drop_loop_atoms(f[1])
        if f[1][0] == "atom" and inner == ("const", True):
            return ("const", True)          # a dropped literal is dropped in both polarities
        return ("not", inner)
    return (f[0], _drop_loop_atoms(f[1]), _drop_loop_atoms(f[2]))


def rule_entry(chk, prog):
    r = chk.rule("TRANSACTION-ENTRY", "Router::processTransaction: the early `return false` is taken only under (actionList.empty() && no "
                 "hyperedge rerouting registered && no settings change) || SimpleRouting; on every other path processActions(), "
                 "m_static_orthogonal_graph_invalidated = true and rerouteAndCallbackConnectors() are executed in this order", floor=2)
    fn = prog.fn("Avoid::Router::processTransaction")
    g = CFG(fn)
    rets = [n for n in fn.nodes() if n.get("k") == "ReturnStmt" and n.get("ch") and literal_value(n["ch"][0]) == "false"]
    r.count()
    want = ("or", ("and", ("atom", "actionList.empty()"), ("and", ("atom", "(m_hyperedge_rerouter.count() == 0)"), ("not", ("atom", "m_settings_changes")))),
            ("atom", "SimpleRouting"))
    bad = None
    for rt in rets:
        pc = path_condition(fn, rt, inline=True)
        if not entails(pc, want):
            bad = "processTransaction gives up under %s: queued changes would not be applied" % show(pc)[:200]
    (r.bad if bad else r.ok)("early return", fn.loc(rets[0]) if rets else fn.where(), bad or "")
    pa = [c["id"] for c in calls(fn) if c.get("cname") == "Avoid::Router::processActions"]
    inv = [node["id"] for lhs, node, op in writes(fn) if written_field(lhs)[0] == "Avoid::Router::m_static_orthogonal_graph_invalidated" and norm(node["ch"][1]) == "true"]
    rr = [c["id"] for c in calls(fn) if c.get("cname") == "Avoid::Router::rerouteAndCallbackConnectors"]
    r.count(2)
    if not pa or not inv or not rr:
        r.bad("apply then reroute", fn.where(), "processActions / graph invalidation / rerouteAndCallbackConnectors missing")
        return
    rt_true = [n["id"] for n in fn.nodes() if n.get("k") == "ReturnStmt" and n.get("ch") and literal_value(n["ch"][0]) == "true"]
    bad = None
    for what, ids in (("processActions()", pa), ("invalidation of the orthogonal visibility graph", inv), ("rerouteAndCallbackConnectors()", rr)):
        for t in rt_true:
            if g.search("entry", blocked=ids, targets=[t]) is not None:
                bad = bad or "a transaction can complete without %s" % what
    if g.search("entry", blocked=pa, targets=rr) is not None:
        bad = bad or "connectors are rerouted before the queued actions are applied"
    (r.bad if bad else r.ok)("apply then reroute", fn.where(), bad or "")


def rule_reroute_loop(chk, prog):
    r = chk.rule("REROUTE-ALL-FLAGGED", "rerouteAndCallbackConnectors: pending reroute flags are transferred (m_conn_reroute_flags.alertConns) "
                 "before the scan; every connector of connRefs reaches generatePath() unless it is a hyperedge member or has a fixed route; "
                 "ConnRef::generatePath returns early only under (!m_false_path && !m_needs_reroute_flag) or missing end points; "
                 "ConnRerouteFlagDelegate::alertConns sets m_needs_reroute_flag for every raised flag", floor=4)
    fn = prog.fn("Avoid::Router::rerouteAndCallbackConnectors")
    g = CFG(fn)
    gp = [c for c in calls(fn) if c.get("cname") == "Avoid::ConnRef::generatePath"]
    al = [c["id"] for c in calls(fn) if c.get("cname") == "Avoid::ConnRerouteFlagDelegate::alertConns"]
    r.count()
    if not gp:
        raise AnalysisBroken("rerouteAndCallbackConnectors no longer calls generatePath")
    if not al or g.must_precede(al, gp[0]["id"]) is not None:
        r.bad("flags transferred first", fn.where(), "connectors are offered to generatePath before the pending reroute flags are transferred")
    else:
        r.ok("flags transferred first", fn.where())
    lp = [a for a in fn.ancestors(gp[0]) if a.get("k") == "ForStmt"]
    r.count()
    bad = None
    if not lp or "connRefs.begin()" not in norm(lp[0].get("init")):
        bad = "generatePath is not called in a scan over all connRefs"
    else:
        pc = path_condition(fn, gp[0], inline=True, early=True)
        allowed = {"(hyperedgeConns.find(i.*) != hyperedgeConns.end())", "i.*.hasFixedRoute()", "(hyperedgeConns.find(connector) != hyperedgeConns.end())",
                   "connector.hasFixedRoute()"}
        extra = [a for a in atoms(_drop_loop_atoms(pc)) if a not in allowed and "!= fin" not in a]
        if extra:
            bad = "a connector is offered for rerouting only under %s" % show(pc)[:200]
    (r.bad if bad else r.ok)("every connector offered", fn.loc(gp[0]), bad or "")
    f2 = prog.fn("Avoid::ConnRef::generatePath")
    rets = [n for n in f2.nodes() if n.get("k") == "ReturnStmt" and n.get("ch") and literal_value(n["ch"][0]) == "false"]
    r.count()
    bad = None
    want = ("or", ("and", ("not", ("atom", "m_false_path")), ("not", ("atom", "m_needs_reroute_flag"))),
            ("or", ("not", ("atom", "m_dst_vert")), ("not", ("atom", "m_src_vert"))))
    for rt in rets:
        pc = path_condition(f2, rt, inline=True, early=True)
        if not entails(pc, want):
            bad = "generatePath declines to route under %s" % show(pc)[:200]
    (r.bad if bad else r.ok)("generatePath early returns", f2.where(), bad or "")
    f3 = prog.fn("Avoid::ConnRerouteFlagDelegate::alertConns")
    st = [node for lhs, node, op in writes(f3) if written_field(lhs)[0] == "Avoid::ConnRef::m_needs_reroute_flag" and norm(node["ch"][1]) == "true"]
    r.count()
    bad = None
    if not st:
        bad = "raised flags are not transferred to the connectors"
    else:
        pc = _drop_loop_atoms(path_condition(f3, st[0], inline=True, early=True))
        ats = atoms(pc)
        if not all(("first" in a or "second" in a) for a in ats) or len(ats) > 2:
            bad = "flag transferred only under %s" % show(pc)[:160]
        lp = [a for a in f3.ancestors(st[0]) if a.get("k") == "ForStmt"]
        if not lp or "m_mapping.begin()" not in norm(lp[0].get("init")) + norm(lp[0].get("cond")) and "m_mapping.end()" not in norm(lp[0].get("cond")):
            bad = bad or "not all registered connectors are scanned"
    (r.bad if bad else r.ok)("flag delegate", f3.where(), bad or "")


def rule_retry_signal(chk, prog):
    r = chk.rule("RETRY-SIGNAL-KEPT", "ConnRef::generatePath clears m_needs_reroute_flag BEFORE the path search; the search (generateStandardPath / "
                 "generateCheckpointsPath) raises it again when it finds no valid path (`retry in later transactions`), and no store of false is "
                 "reachable after the search -- otherwise a connector that fell back to a straight line keeps that invalid route for ever", floor=2)
    fn = prog.fn("Avoid::ConnRef::generatePath")
    g = CFG(fn)
    search = [c for c in calls(fn) if c.get("cname") in ("Avoid::ConnRef::generateStandardPath", "Avoid::ConnRef::generateCheckpointsPath")]
    clears = [node for lhs, node, op in writes(fn) if written_field(lhs)[0] == "Avoid::ConnRef::m_needs_reroute_flag" and literal_value(node["ch"][1]) == "false"]
    if len(search) != 2:
        raise AnalysisBroken("generatePath: the two path-search calls were not found")
    r.count()
    bad = None
    if not clears:
        bad = "the flag is never cleared: every connector is rerouted in every transaction"
    for c in clears:
        for sc in search:
            if g.search([g.after(sc["id"])], targets=[c["id"]]) is not None:
                bad = bad or "m_needs_reroute_flag is cleared after %s, which wipes the search's `no valid path, retry later` signal" % sc["cname"].split("::")[-1]
    for sc in search:
        if clears and g.must_precede([c["id"] for c in clears], sc["id"]) is not None:
            bad = bad or "the path search can run without the flag having been cleared first"
    (r.bad if bad else r.ok)("flag cleared before the search only", fn.loc(clears[0]) if clears else fn.where(), bad or "")
    # the searches do raise it on failure
    r.count()
    raised = []
    for q in ("Avoid::ConnRef::generateStandardPath", "Avoid::ConnRef::generateCheckpointsPath"):
        f = prog.fn(q)
        ws = [node for lhs, node, op in writes(f) if written_field(lhs)[0] == "Avoid::ConnRef::m_needs_reroute_flag" and literal_value(node["ch"][1]) == "true"]
        if ws:
            raised.append(q)
    (r.ok if len(raised) == 2 else r.bad)("search raises the flag on failure", fn.where(), "" if len(raised) == 2 else
                                          "only %s set m_needs_reroute_flag when no path is found" % raised)


SKIP_OK = {
    "conn.m_route.empty()": "uninitialised connector: nothing to compare",
    "conn.m_needs_reroute_flag": "already marked for rerouting",
    "(conn.routingType() != Avoid::ConnType_PolyLine)": "the lower-bound test is for polyline connectors only; orthogonal ones are rerouted anyway",
}


def rule_skip_conditions(chk, prog):
    r = chk.rule("SELECTIVE-SKIPS", "markPolylineConnectorsNeedingReroutingForDeletedObstacle examines EVERY connector: the per-connector loop is left "
                 "early (`continue`) only for the reviewed reasons -- no route yet, already flagged, not a polyline connector -- and the function "
                 "returns early only under RubberBandRouting; any further quick-reject decides `cannot have a shorter route now` without the "
                 "lower-bound test and needs its own argument", floor=3)
    fn = prog.fn("Avoid::Router::markPolylineConnectorsNeedingReroutingForDeletedObstacle")
    loops = [n for n in fn.nodes() if n.get("k") == "ForStmt"]
    outer = [l for l in loops if not any(a.get("k") == "ForStmt" for a in fn.ancestors(l))]
    if len(outer) != 1:
        raise AnalysisBroken("per-connector loop not recognised")
    outer = outer[0]
    k = 0
    for n in walk(outer["body"]):
        if n.get("k") not in ("ContinueStmt", "BreakStmt", "ReturnStmt"):
            continue
        inner = [a for a in fn.ancestors(n) if a.get("k") in ("ForStmt", "WhileStmt", "DoStmt") and a is not outer and a.get("id") != outer.get("id")]
        if inner and n.get("k") != "ReturnStmt":
            continue            # leaves an inner loop only
        k += 1
        r.count()
        pc = path_condition(fn, n, inline=False)
        ats = [a for a in atoms(pc) if ".end()" not in a and a not in ("RubberBandRouting",) and " != end)" not in a]
        # an else-if chain lists the earlier tests negated: only the positive test that leads here has to be a reviewed reason
        from ..rules.guards import evalf
        unknown = [a for a in ats if a not in SKIP_OK]
        inst = "%s at line %s" % (n["k"][:-4].lower(), n.get("l"))
        if unknown:
            r.bad(inst, fn.loc(n), "the connector is skipped under a condition involving %s: not one of the reviewed reasons" % unknown[:2])
        elif not any(entails(pc, ("atom", a)) for a in ats):
            r.bad(inst, fn.loc(n), "the connector is skipped under %s" % show(pc)[:120])
        else:
            r.ok(inst, fn.loc(n))
    if k < 3:
        raise AnalysisBroken("SELECTIVE-SKIPS: fewer skip statements than reviewed (%d)" % k)
    rets = [n for n in fn.nodes() if n.get("k") == "ReturnStmt" and not any(a.get("id") == outer.get("id") for a in fn.ancestors(n))]
    r.count()
    bad = None
    for rt in rets:
        pc = path_condition(fn, rt, inline=False)
        if not entails(pc, ("atom", "RubberBandRouting")):
            bad = "the function returns before looking at any connector under %s" % show(pc)[:100]
    (r.bad if bad else r.ok)("early return", fn.where(), bad or "")


def rule_crossing_pass(chk, prog):
    r = chk.rule("CROSSING-PASS-NOT-ON-OWN-OUTPUT", "Router::improveCrossings (active when crossingPenalty or fixedSharedPathPenalty is set) is greedy: it picks "
                 "the connectors with most crossings from the routes as they are and routes them again, so its result depends on the routes it "
                 "starts from.  rerouteAndCallbackConnectors may run it only when some route was recomputed in this transaction (or a setting "
                 "changed): on the output of the previous transaction's pass it picks differently, and a transaction that changes nothing "
                 "changes routes (replays/c06_crossing_penalty_null_transactions.cpp: two states alternate for ever)", floor=1)
    fn = prog.fn("Avoid::Router::rerouteAndCallbackConnectors")
    cs_ = [c for c in calls(fn) if c.get("cname") == "Avoid::Router::improveCrossings"]
    if not cs_:
        raise AnalysisBroken("rerouteAndCallbackConnectors no longer calls improveCrossings: rule out of date")
    lists = {d.get("name") for d in fn.nodes() if d.get("k") == "VarDecl" and "ConnRefList" in d.get("t", "") and not d.get("parm")}
    for c in cs_:
        r.count()
        ats = atoms(path_condition(fn, c, inline=False, early=True))
        dep = [a for a in ats if any(n_ and n_ in a for n_ in lists) or "settings" in a.lower()]
        (r.ok if dep else r.bad)("improveCrossings in rerouteAndCallbackConnectors", fn.loc(c), "" if dep else
                                 "the crossing pass runs in every transaction, also on the routes it produced itself in the previous one "
                                 "(condition: %s)" % (sorted(ats) or "none"))


def run(chk):
    prog = chk.load()
    chk.guard(rule_crossing_pass, chk, prog)
    from .c04 import rule_list_walk_saves_next
    chk.guard(rule_list_walk_saves_next, chk, prog)      # a walk cut short after a shape is deleted / moved: stale blocked edges (history != fresh router)
    chk.guard(rule_route_dist, chk, prog)
    from .c03 import rule_contains
    chk.guard(rule_contains, chk, prog)          # the incremental and the from-scratch producer of Router::contains agree (fresh router == history)
    chk.guard(rule_cost_bound, chk, prog)
    chk.guard(rule_stateless, chk, prog)
    chk.guard(rule_crossing_point, chk, prog)
    chk.guard(rule_skip_conditions, chk, prog)
    chk.guard(rule_retry_signal, chk, prog)
    chk.guard(rule_phases, chk, prog)
    chk.guard(rule_entry, chk, prog)
    chk.guard(rule_reroute_loop, chk, prog)
    from .c15 import rule_action_identity
    chk.guard(rule_action_identity, chk, prog)
    from .c04 import rule_blocker_recorded
    from .c03 import rule_blocking_scan
    chk.guard(rule_blocker_recorded, chk, prog)
    chk.guard(rule_blocking_scan, chk, prog)
    from .c03 import rule_enclosing_ignored
    chk.guard(rule_enclosing_ignored, chk, prog)
