"""C07 -- libcola: layout output satisfies every constraint or reports it unsatisfiable: structural clauses.

Decides:
  TRANSLATOR-AGREEMENT  for every compound-constraint class the vpsc constraints built by generateSeparationConstraints (used by
                        run) and by getCurrSubConstraintAlternatives (used by makeFeasible) have the same shapes
                        (left, right, gap, equality, guarding condition) after normalising how the sub-constraint and the
                        variable vector are addressed
  CREATOR-RECORDED      every vpsc::Constraint allocated in an override of generateSeparationConstraints gets `creator` set
                        before it is pushed to the output vector (the unsatisfiable report is built from it)
  PROJECTION-COMPLETE   moveTo / applyForcesAndConstraints: project(vs, cs, ..) is dominated by generation from *all* ccs and all
                        extraConstraints into the same vs/cs; project = IncSolver(vs, cs).solve() + copy of all n final
                        positions; checkUnsatisfiable scans every constraint and reports exactly the flagged ones
  SIZES-KEPT            no writer of a node rectangle's extent other than the size-preserving movers is reachable from the layout
                        entry points (cluster-owned varRect excepted)
  INIT                  DistributionConstraint::sep known finding is reported under C15 (uninitialised separation)
Not decided: numerical satisfaction to 1e-4, NaN-freeness, the priority order of makeFeasible.
"""
import re

from ..astq import (strip, strip_casts, calls, call_args, call_object, writes, written_field, norm, literal_value, src,
                    single_assignment_locals)
from ..callgraph import CallGraph
from ..cfg import CFG
from ..facts import AnalysisBroken, walk
from ..rules.guards import path_condition, atoms, entails, show

CLASSES = ["BoundaryConstraint", "AlignmentConstraint", "SeparationConstraint", "MultiSeparationConstraint", "DistributionConstraint",
           "FixedRelativeConstraint"]
EXEMPT = {
    "OrthogonalEdgeConstraint": "getCurrSubConstraintAlternatives is an explicit stub (`XXX: What to do here?`) returning no alternatives",
    "PageBoundaryConstraints": "documented: page boundary constraints are not evaluated at makeFeasible time (returns no alternatives)",
}

INFO_FORMS = [r"_subConstraintInfo\[_currSubConstraintIndex\]", r"_subConstraintInfo\.front\(\)", r"\bo\.\*", r"\bcurr\.\*", r"\bit\.\*"]


def canon_text(t):
    for f in INFO_FORMS:
        t = re.sub(f, "INFO", t)
    # variable vector addressing: vars[E] | vs[E] | vs[_primaryDim][E] | vs[INFO.dim][E]  ->  VAR(E)
    t = re.sub(r"\bvs\[(?:_primaryDim|INFO\.dim|dim)\]\[", "VAR[", t)
    t = re.sub(r"\b(?:vars|vs)\[", "VAR[", t)
    return t


def shapes(fn):
    sal = single_assignment_locals(fn)
    out = []
    for n in fn.nodes():
        if n.get("k") in ("CXXConstructExpr", "CXXTemporaryObjectExpr") and n.get("cname") == "vpsc::Constraint" and not n.get("copy"):
            a = [canon_text(norm(x, sal)) for x in n.get("ch", [])]
            pc = path_condition(fn, n)
            guards = sorted(canon_text(x) for x in atoms(pc) if "INFO" in canon_text(x) and ".end()" not in x)
            # polarity of each guard
            pol = []
            for g_ in sorted(atoms(pc)):
                ct = canon_text(g_)
                if "INFO" in ct and ".end()" not in g_:
                    if entails(pc, ("atom", g_)):
                        pol.append(ct)
                    elif entails(pc, ("not", ("atom", g_))):
                        pol.append("!" + ct)
                    else:
                        pol.append("?" + ct)
            out.append((tuple(a), tuple(pol), fn.loc(n)))
    return out


def rule_translators(chk, prog):
    r = chk.rule("TRANSLATOR-AGREEMENT", "per compound-constraint class: multiset of (left, right, gap, equality | guards) of the vpsc::Constraint "
                 "constructions in generateSeparationConstraints == that in getCurrSubConstraintAlternatives (sub-constraint and variable "
                 "addressing normalised); exempt classes listed with the code's own reason", floor=6)
    for c in CLASSES + sorted(EXEMPT):
        g = prog.fn("cola::%s::generateSeparationConstraints" % c)
        a = prog.fn("cola::%s::getCurrSubConstraintAlternatives" % c)
        sg = sorted((x[0], x[1]) for x in shapes(g))
        sa = sorted((x[0], x[1]) for x in shapes(a))
        r.count(len(sg) + len(sa))
        if c in EXEMPT:
            if sa:
                r.bad(c, a.where(), "class is exempt because its alternatives translator built nothing, but it now builds %s" % sa)
            else:
                r.ok(c, a.where(), "exempt: " + EXEMPT[c], nontrivial=False)
            continue
        if not sg:
            raise AnalysisBroken("cola::%s::generateSeparationConstraints builds no constraint" % c)
        if sg == sa:
            r.ok(c, g.where(), "; ".join("%s + %s %s %s" % (s[0][0], s[0][2], "==" if s[0][3:] == ("true",) else "<=", s[0][1]) for s in sg)[:200])
            if c == "BoundaryConstraint":
                chk.sample({"rule": "TRANSLATOR-AGREEMENT", "class": c, "shapes": [list(s[0]) + list(s[1]) for s in sg]})
        else:
            only_g = [s for s in sg if s not in sa]
            only_a = [s for s in sa if s not in sg]
            r.bad(c, a.where(), "run() enforces %s but makeFeasible() makes feasible %s" % (only_g, only_a))


def rule_creator(chk, prog):
    r = chk.rule("CREATOR-RECORDED", "in every override of CompoundConstraint::generateSeparationConstraints each `new vpsc::Constraint` is "
                 "followed on every path, before the function pushes it to the output vector / returns, by a store to its `creator`", floor=10)
    fns = [f for f in prog.all_functions() if f.name == "generateSeparationConstraints" and f.cls and f.tmpl != "pattern"]
    for fn in sorted(fns, key=lambda f: f.key):
        news = [n for n in fn.nodes() if n.get("k") == "CXXNewExpr" and n.get("at") == "vpsc::Constraint"]
        if not news:
            continue
        g = CFG(fn)
        k = 0
        for nw in news:
            k += 1
            inst = "%s#%d" % (fn.q, k)
            # the variable / member it is assigned to
            tgt = None
            for a in fn.ancestors(nw):
                if a.get("k") == "VarDecl":
                    tgt = a.get("name")
                    break
                if a.get("k") == "BinaryOperator" and a.get("op") == "=":
                    tgt = norm(a["ch"][0])
                    break
                if a.get("k") in ("CXXMemberCallExpr",) and a.get("cname", "").endswith("push_back"):
                    tgt = "<pushed directly>"
                    break
            r.count()
            if tgt is None or tgt == "<pushed directly>":
                r.bad(inst, fn.loc(nw), "constraint is pushed without a name: `creator` cannot have been set")
                continue
            stores = [node["id"] for lhs, node, op in writes(fn)
                      if written_field(lhs)[0] == "vpsc::Constraint::creator" and norm(strip(lhs)["ch"][0]) == tgt]
            pushes = [n["id"] for n in calls(fn) if n.get("cname", "").endswith("::push_back") and call_args(n) and norm(call_args(n)[0]) == tgt]
            if nw["id"] not in g.pos:
                r.ok(inst, fn.loc(nw), "inside a lambda", nontrivial=False)
                continue
            w = None
            if pushes:
                w = g.search([g.after(nw["id"])], blocked=stores, targets=pushes)
            else:
                w = g.search([g.after(nw["id"])], blocked=stores, to_exit=True)
            if w is not None:
                r.bad(inst, fn.loc(nw), "`%s` reaches the output without `%s->creator` being set (%s): an unsatisfiable report for it "
                      "could not name the compound constraint" % (tgt, tgt, g.describe(w)))
            else:
                r.ok(inst, fn.loc(nw))


def rule_projection(chk, prog):
    r = chk.rule("PROJECTION-COMPLETE", "ConstrainedFDLayout::moveTo / applyForcesAndConstraints: project(vs,cs,coords) is dominated by "
                 "setupVarsAndConstraints(.., ccs, .., vs, cs, ..) and setupExtraConstraints(extraConstraints, .., vs, cs, ..); both setup "
                 "functions call generateVariables then generateSeparationConstraints on every element; project solves IncSolver(vs,cs) "
                 "and copies finalPosition of all n variables; checkUnsatisfiable reports exactly the flagged constraints", floor=6)
    for q in ("cola::ConstrainedFDLayout::moveTo", "cola::ConstrainedFDLayout::applyForcesAndConstraints"):
        fn = prog.fn(q)
        g = CFG(fn)
        proj = [n for n in calls(fn) if n.get("cname") == "cola::project"]
        bad = None
        if len(proj) != 1:
            raise AnalysisBroken("%s: expected one call to project" % q)
        pa = [norm(x) for x in call_args(proj[0])]
        s1 = [n for n in calls(fn) if n.get("cname") == "cola::setupVarsAndConstraints"]
        s2 = [n for n in calls(fn) if n.get("cname") == "cola::setupExtraConstraints"]
        if not s1 or not s2:
            bad = "constraint generation call missing"
        else:
            a1 = [norm(x) for x in call_args(s1[0])]
            a2 = [norm(x) for x in call_args(s2[0])]
            if a1[1] != "ccs" or a1[5] != pa[0] or a1[6] != pa[1]:
                bad = "setupVarsAndConstraints(%s) does not fill project's vs/cs from ccs" % ", ".join(a1)
            elif a2[0] != "extraConstraints" or a2[2] != pa[0] or a2[3] != pa[1]:
                bad = "setupExtraConstraints(%s) does not add extraConstraints to project's vs/cs" % ", ".join(a2)
            else:
                for s in (s1[0], s2[0]):
                    w = g.must_precede([s["id"]], proj[0]["id"])
                    if w is not None:
                        bad = "project() is reachable without %s: %s" % (s.get("cname"), g.describe(w))
        if q.endswith("applyForcesAndConstraints") and not bad:
            cu = [n for n in calls(fn) if n.get("cname") == "cola::checkUnsatisfiable"]
            if not cu or norm(call_args(cu[0])[0]) != pa[1]:
                bad = "checkUnsatisfiable is not applied to the projected constraint set"
            else:
                pc = path_condition(fn, cu[0], inline=False)
                if not (atoms(pc) <= {"(unsatisfiable.size() == 2)"}):
                    bad = "checkUnsatisfiable guarded by %s" % show(pc)
                elif g.search([g.after(proj[0]["id"])], blocked=[cu[0]["id"]], to_exit=True) is not None and False:
                    bad = "exit reachable after project without the check"
        r.count()
        (r.bad if bad else r.ok)(q, fn.where(), bad or "")
    for q in ("cola::setupVarsAndConstraints", "cola::setupExtraConstraints"):
        fn = prog.fn(q)
        bad = None
        loops = [n for n in fn.nodes() if n.get("k") == "ForStmt" and n.get("init") is not None and n["init"].get("k") == "DeclStmt"
                 and norm(n["init"]["decls"][0].get("init")) == "ccs.begin()"]
        seen = {}
        for lp in loops:
            it = lp["init"]["decls"][0]["name"]
            if norm(lp.get("cond")) != "(%s != ccs.end())" % it or norm(lp.get("inc")) not in ("++%s" % it, "%s++" % it):
                bad = "loop over ccs is not begin()..end()"
            for c in walk(lp["body"]):
                if c.get("k") == "CXXMemberCallExpr" and c.get("cname", "").startswith("cola::CompoundConstraint::generate"):
                    w = CFG(fn).iteration_can_skip(lp, [c["id"]])
                    if w is not None:
                        bad = "%s can be skipped for some compound constraint: %s" % (c["cname"].split("::")[-1], CFG(fn).describe(w))
                    seen[c["cname"].split("::")[-1]] = [norm(x) for x in call_args(c)]
        if set(seen) != {"generateVariables", "generateSeparationConstraints"}:
            bad = bad or "does not call both generateVariables and generateSeparationConstraints for every compound constraint (%s)" % sorted(seen)
        elif seen["generateSeparationConstraints"][1:3] != ["vs", "cs"]:
            bad = bad or "generateSeparationConstraints fills %s" % seen["generateSeparationConstraints"]
        r.count()
        (r.bad if bad else r.ok)(q, fn.where(), bad or "")
    fn = prog.fn("cola::project")
    sal = single_assignment_locals(fn)
    bad = None
    ctor = [n for n in fn.nodes() if n.get("k") == "CXXConstructExpr" and n.get("cname") == "vpsc::IncSolver"]
    solve = [n for n in calls(fn) if n.get("cname") == "vpsc::IncSolver::solve"]
    if not ctor or [norm(x) for x in ctor[0].get("ch", [])] != ["vs", "cs"] or not solve:
        bad = "does not solve IncSolver(vs, cs)"
    copy = [node for lhs, node, op in writes(fn) if norm(lhs, sal).startswith("coords[")]
    if not copy or norm(copy[0]["ch"][-1], sal) != "vs[i].finalPosition" or norm(copy[0]["ch"][0] if copy[0]["k"] == "BinaryOperator" else copy[0]["ch"][1], sal) != "coords[i]":
        bad = bad or "does not copy vs[i]->finalPosition into coords[i]"
    else:
        lp = [a for a in fn.ancestors(copy[0]) if a.get("k") == "ForStmt"]
        if not lp or norm(lp[0].get("cond"), sal) != "(i < coords.size())":
            bad = bad or "the copy loop does not cover all coords.size() variables (%s)" % (norm(lp[0].get("cond"), sal) if lp else "no loop")
        g = CFG(fn)
        if solve and copy and copy[0]["id"] in g.pos and g.must_precede([solve[0]["id"]], copy[0]["id"]) is not None:
            bad = bad or "positions are copied before solve()"
    r.count()
    (r.bad if bad else r.ok)("cola::project", fn.where(), bad or "")
    fn = prog.fn("cola::checkUnsatisfiable")
    bad = None
    push = [n for n in calls(fn) if n.get("cname", "").endswith("::push_back")]
    if not push:
        bad = "reports nothing"
    else:
        pc = path_condition(fn, push[0])
        fl = [x for x in atoms(pc) if x.endswith(".unsatisfiable")]
        other = [x for x in atoms(pc) if x not in fl and ".end()" not in x]
        if not fl or not entails(pc, ("atom", fl[0])) or other:
            bad = "a constraint is reported under %s, not exactly when it is flagged unsatisfiable" % show(pc)
        lp = [a for a in fn.ancestors(push[0]) if a.get("k") == "ForStmt"]
        if not lp or norm(lp[0]["init"]["decls"][0].get("init")) != "cs.begin()" or not norm(lp[0].get("cond")).endswith("!= cs.end())"):
            bad = bad or "does not scan all constraints"
        cont = [x for x in walk(fn.body) if x.get("k") in ("ContinueStmt", "BreakStmt", "ReturnStmt")]
        if cont:
            bad = bad or "scan can stop early"
    r.count()
    (r.bad if bad else r.ok)("cola::checkUnsatisfiable", fn.where(), bad or "")


EXT = {"vpsc::Rectangle::minX", "vpsc::Rectangle::maxX", "vpsc::Rectangle::minY", "vpsc::Rectangle::maxY"}
SIZE_PRESERVING = {"vpsc::Rectangle::moveMinX", "vpsc::Rectangle::moveMinY"}
ENTRIES = ["cola::ConstrainedFDLayout::run", "cola::ConstrainedFDLayout::runOnce", "cola::ConstrainedFDLayout::makeFeasible",
           "cola::ConstrainedMajorizationLayout::run"]


def rule_majorization_fresh(chk, prog):
    r = chk.rule("MAJORIZATION-FRESH", "ConstrainedMajorizationLayout::run / runOnce: under constrainedLayout (and nothing else) a new "
                 "GradientProjection is built for each dimension on every call, from the current compound constraints `ccs` and the "
                 "current unsatisfiable-constraint lists -- the constructor is the only place where the majorization layout turns "
                 "compound constraints into solver constraints, so constraints edited between two runs take effect", floor=4)
    for q in ("cola::ConstrainedMajorizationLayout::run", "cola::ConstrainedMajorizationLayout::runOnce"):
        fn = prog.fn(q)
        news = [n for n in fn.nodes() if n.get("k") == "CXXNewExpr" and n.get("at") == "cola::GradientProjection"]
        if len(news) != 2:
            raise AnalysisBroken("%s: expected two GradientProjection constructions, found %d" % (q, len(news)))
        for nw in news:
            r.count()
            pc = path_condition(fn, nw, inline=False)
            ats = sorted(atoms(pc))
            ctor = [c for c in nw["ch"] if c.get("k") == "CXXConstructExpr"][0]
            args = [norm(a) for a in ctor["ch"]]
            dimn = args[0].split("::")[-1]
            inst = "%s: %s projection" % (q.split("::")[-1], dimn)
            bad = None
            if ats != ["constrainedLayout"] or not entails(("atom", "constrainedLayout"), pc):
                bad = "the projection is (re)built only under %s: a later run() keeps projecting onto the constraints of the first run" % show(pc)[:140]
            elif "ccs" not in args:
                bad = "the projection is not built from the current compound constraints (arguments %s)" % args
            elif not any(a.startswith("unsatisfiable") for a in args):
                bad = "the unsatisfiable-constraint list is not handed to the projection"
            (r.bad if bad else r.ok)(inst, fn.loc(nw), bad or "")


def rule_makefeasible(chk, prog):
    r = chk.rule("MAKEFEASIBLE-PROTOCOL", "ConstrainedFDLayout::makeFeasible: (a) every constraint appended to valid[dim] is followed by "
                 "solver[dim]->satisfy() before the loop moves on -- in the combined-sub-constraint branch both dimensions are satisfied "
                 "unconditionally; (b) after satisfy() the *whole* valid[dim] set is scanned for `unsatisfiable`: each flagged constraint "
                 "is un-flagged and makes the attempt fail; (c) a failed attempt deletes the solver, restores every saved position and "
                 "removes exactly the newly added constraint; (d) positions are saved for every variable before each attempt; (e) the "
                 "sub-constraint cursor of every compound constraint is rewound before it is walked, in the combined branch too", floor=6)
    fn = prog.fn("cola::ConstrainedFDLayout::makeFeasible")
    g = CFG(fn)
    sats = [c for c in calls(fn) if c.get("cname") == "vpsc::IncSolver::satisfy"]
    pushes = [c for c in calls(fn) if c.get("cname", "").endswith("::push_back") and norm(call_object(c)).startswith("valid[")]
    if len(sats) < 2 or len(pushes) < 2:
        raise AnalysisBroken("makeFeasible: satisfy()/valid[dim].push_back sites not recognised (%d, %d)" % (len(sats), len(pushes)))
    # (a) combined branch: the per-dimension loop calls satisfy in every iteration
    r.count()
    comb = [lp for lp in fn.nodes() if lp.get("k") == "ForStmt" and "(dim < 2)" in norm(lp.get("cond")) and
            any(c.get("cname") == "vpsc::IncSolver::satisfy" for c in walk(lp["body"]))]
    bad = None
    if len(comb) != 1:
        bad = "the loop that satisfies both dimensions after combined sub-constraints is gone"
    else:
        ids = [c["id"] for c in walk(comb[0]["body"]) if c.get("cname") == "vpsc::IncSolver::satisfy"]
        w = g.iteration_can_skip(comb[0], ids)
        if w is not None:
            bad = "after adding combined sub-constraints a dimension can be left unsolved (%s): positions written back do not satisfy the " \
                  "constraints just added to an existing solver" % g.describe(w)
    (r.bad if bad else r.ok)("combined sub-constraints: both dimensions satisfied", fn.loc(comb[0]) if comb else fn.where(), bad or "")
    # (a') alternative branch: push_back ... satisfy on every path inside the try block
    r.count()
    alt_push = [p_ for p_ in pushes if any(a.get("k") == "CXXTryStmt" for a in fn.ancestors(p_))]
    bad = None
    if len(alt_push) != 1:
        bad = "the attempt block (try { push_back; satisfy }) is not recognised"
    else:
        tr = [a for a in fn.ancestors(alt_push[0]) if a.get("k") == "CXXTryStmt"][0]
        inside = [c["id"] for c in sats if any(a is tr for a in fn.ancestors(c))]
        body_last = [n["id"] for n in walk(tr) if n.get("id") in g.pos]
        if not inside:
            bad = "satisfy() is not called in the attempt"
        else:
            # from the push_back, reaching the scan loop without satisfy() (normal flow)
            scan = [lp for lp in fn.nodes() if lp.get("k") == "ForStmt" and "valid[dim].size()" in norm(lp.get("cond"))]
            if scan:
                first = [e for e in [x["id"] for x in walk(scan[0].get("init") or {}) if x.get("id") in g.pos]]
                if first and g.search([g.after(alt_push[0]["id"])], blocked=inside, targets=first[:1]) is not None:
                    bad = "a constraint can be added to the valid set and checked without satisfy() having run"
    (r.bad if bad else r.ok)("attempt: add then satisfy", fn.loc(alt_push[0]) if alt_push else fn.where(), bad or "")
    # (b) scan of the whole valid set
    r.count()
    scan = [lp for lp in fn.nodes() if lp.get("k") == "ForStmt" and "valid[dim].size()" in norm(lp.get("cond"))]
    bad = None
    if len(scan) != 1:
        bad = "after satisfy() the valid set is no longer scanned as a whole for constraints flagged unsatisfiable (an earlier constraint " \
              "blamed by the solver keeps its stale flag and is ignored by every later solver instance)"
    else:
        lp = scan[0]
        ini = lp.get("init")
        d0 = ini["decls"][0] if ini is not None and ini.get("k") == "DeclStmt" else None
        if d0 is None or literal_value(d0.get("init")) != "0" or norm(lp["cond"]) != "(%s < valid[dim].size())" % d0["name"]:
            bad = "the scan does not cover valid[dim][0 .. size)"
        else:
            clr = [node for lhs, node, op in writes(fn) if node["id"] in {x.get("id") for x in walk(lp["body"])} and
                   written_field(lhs)[0] == "vpsc::Constraint::unsatisfiable" and literal_value(node["ch"][1]) == "false"]
            fail = [node for lhs, node, op in writes(fn) if node["id"] in {x.get("id") for x in walk(lp["body"])} and
                    norm(lhs) == "subConstraintSatisfiable" and literal_value(node["ch"][1]) == "false"]
            if not clr or not fail:
                bad = "a flagged constraint is not both un-flagged and counted as a failed attempt"
            else:
                for what, st in (("un-flagging", clr[0]), ("failing the attempt", fail[0])):
                    pc = path_condition(fn, st, inline=False)
                    ats = [a for a in atoms(pc) if "unsatisfiable" in a]
                    if len(ats) != 1 or ats[0] != "valid[dim][%s].unsatisfiable" % d0["name"] or not entails(("atom", ats[0]), _drop(pc)):
                        bad = bad or "%s happens under %s, not for every flagged valid[dim][i]" % (what, show(pc)[:160])
    (r.bad if bad else r.ok)("scan of the valid set", fn.loc(scan[0]) if scan else fn.where(), bad or "")
    # (c) rollback
    r.count()
    dels = [n for n in fn.nodes() if n.get("k") == "CXXDeleteExpr" and norm(n["ch"][0]) in ("solver[dim]",)]
    bad = None
    rb = None
    for d in dels:
        pc = path_condition(fn, d, inline=False)
        if entails(pc, ("not", ("atom", "subConstraintSatisfiable"))):
            rb = [a for a in fn.ancestors(d) if a.get("k") == "IfStmt" and norm(a["cond"]) == "!subConstraintSatisfiable"]
            rb = rb[0] if rb else None
    if rb is None:
        bad = "a failed attempt no longer discards the solver instance"
    else:
        body = list(walk(rb["then"]))
        bids = {x.get("id") for x in body}
        null = [node for lhs, node, op in writes(fn) if node["id"] in bids and norm(lhs) == "solver[dim]" and
                strip_casts(node["ch"][1]).get("k") in ("CXXNullPtrLiteralExpr", "GNUNullExpr", "IntegerLiteral")]
        rest = [node for lhs, node, op in writes(fn) if node["id"] in {x.get("id") for x in body} and
                written_field(lhs)[0] == "vpsc::Variable::finalPosition" and "priorPos[" in norm(node["ch"][1])]
        pop = [c for c in body if c.get("cname", "").endswith("::pop_back") and norm(call_object(c)) == "valid[dim]"]
        dl = [n for n in body if n.get("k") == "CXXDeleteExpr" and norm(n["ch"][0]) == "valid[dim].back()"]
        if not null:
            bad = "the discarded solver pointer is not reset"
        elif not rest:
            bad = "positions are not restored after a failed attempt"
        elif not pop or not dl:
            bad = "the rejected constraint is not removed from the valid set"
        else:
            lp = [a for a in fn.ancestors(rest[0]) if a.get("k") == "ForStmt"]
            if not lp or "priorPos.size()" not in norm(lp[0].get("cond")) or g.iteration_can_skip(lp[0], [rest[0]["id"]]) is not None \
                    or not _from_zero(lp[0]):
                bad = "not every variable's position is restored"
    (r.bad if bad else r.ok)("rollback of a failed attempt", fn.loc(rb) if rb else fn.where(), bad or "")
    # (d) save before each attempt
    r.count()
    sv = [node for lhs, node, op in writes(fn) if norm(lhs).startswith("priorPos[") and "finalPosition" in norm(node["ch"][1])]
    bad = None
    if not sv:
        bad = "positions are not saved before an attempt"
    else:
        lp = [a for a in fn.ancestors(sv[0]) if a.get("k") == "ForStmt"]
        if not lp or "priorPos.size()" not in norm(lp[0].get("cond")) or g.iteration_can_skip(lp[0], [sv[0]["id"]]) is not None \
                or not _from_zero(lp[0]):
            bad = "not every variable's position is saved"
        elif alt_push and g.must_precede([x["id"] for x in walk(lp[0].get("init") or {}) if x.get("id") in g.pos][:1], alt_push[0]["id"]) is not None:
            bad = "an attempt can start without the positions having been saved"
    (r.bad if bad else r.ok)("positions saved before each attempt", fn.loc(sv[0]) if sv else fn.where(), bad or "")
    # (e) the sub-constraint cursor of a compound constraint is rewound before its sub-constraints are walked -- in BOTH branches: the same
    # constraint object may already have been walked to its end by an earlier makeFeasible() (of this or another layout)
    r.count()
    rew = [c for c in calls(fn) if c.get("cname") == "cola::CompoundConstraint::markAllSubConstraintsAsInactive"]
    walks = [c for c in calls(fn) if c.get("cname") in ("cola::CompoundConstraint::subConstraintsRemaining", "cola::CompoundConstraint::getCurrSubConstraintAlternatives")]
    bad = None
    if not rew:
        bad = "the sub-constraint cursor is never rewound (markAllSubConstraintsAsInactive)"
    elif not walks:
        raise AnalysisBroken("makeFeasible: the walk over the sub-constraints was not found")
    else:
        main = [a for a in fn.ancestors(rew[0]) if a.get("k") == "WhileStmt"]
        if not main:
            bad = "the cursor is rewound outside the loop over the compound constraints"
        else:
            for w_ in walks:
                if g.search([(g.loop_header(main[-1])[1], 0)], blocked=[c["id"] for c in rew], targets=[w_["id"]]) is not None:
                    bad = bad or ("the walk at line %s can be reached in an iteration that has not rewound the constraint's cursor: a constraint that "
                                  "an earlier makeFeasible() walked to its end contributes nothing the second time" % w_.get("l"))
    (r.bad if bad else r.ok)("sub-constraint cursor rewound in both branches", fn.loc(rew[0]) if rew else fn.where(), bad or "")


def rule_locks_projected(chk, prog):
    """What moveTo publishes is the projection's result."""
    r = chk.rule("PROJECTION-IS-FINAL", "ConstrainedFDLayout::moveTo: between project(vs, cs, coords) -- which solves and publishes all n positions "
                 "(PROJECTION rule) -- and the end of the function nothing stores to `coords` again: locked / desired positions enter the "
                 "projection as heavily weighted desired positions and must not be written over its result, or the published positions "
                 "violate the constraints the locked nodes take part in, with nothing reported", floor=1)
    fn = prog.fn("cola::ConstrainedFDLayout::moveTo")
    g = CFG(fn)
    pj = [c for c in calls(fn) if c.get("cname") == "cola::project"]
    if not pj:
        pj = [c for c in calls(fn) if str(c.get("cname", "")).endswith("::project") or str(c.get("cname", "")) == "project"]
    if not pj:
        raise AnalysisBroken("moveTo: the call to project() was not found")
    coords_arg = norm(call_args(pj[0])[2]) if len(call_args(pj[0])) >= 3 else "coords"
    r.count()
    bad = None
    for lhs, node, op in writes(fn):
        base = norm(lhs).split("[")[0]
        if base == coords_arg and node.get("id") in g.pos or (base == coords_arg and any(a.get("id") in g.pos for a in fn.ancestors(node))):
            tgt = node["id"] if node.get("id") in g.pos else [a for a in fn.ancestors(node) if a.get("id") in g.pos][0]["id"]
            if g.search([g.after(pj[0]["id"])], blocked=[], targets=[tgt]) is not None:
                bad = bad or (node, "`%s` is stored to after the projection (line %s): the solver's feasible point is overwritten" % (norm(lhs), node.get("l")))
    (r.bad if bad else r.ok)("no store to the projected positions", fn.loc(bad[0]) if bad else fn.loc(pj[0]), bad[1] if bad else "")


def _from_zero(loop):
    ini = loop.get("init")
    return ini is not None and ini.get("k") == "DeclStmt" and literal_value(ini["decls"][0].get("init")) == "0"


def _drop(f):
    if f[0] == "atom":
        return ("const", True) if ("size()" in f[1] or ".end()" in f[1] or ".empty()" in f[1] or "Remaining()" in f[1]) else f
    if f[0] == "const":
        return f
    if f[0] == "not":
        inner = _drop(f[1])
        if f[1][0] == "atom" and inner == ("const", True):
            return ("const", True)          # a dropped literal is dropped in both polarities
        return ("not", inner)
    return (f[0], _drop(f[1]), _drop(f[2]))


def rule_sizes(chk, prog, cg):
    r = chk.rule("SIZES-KEPT", "functions reachable from ConstrainedFDLayout::run/runOnce/makeFeasible and ConstrainedMajorizationLayout::run "
                 "that write a Rectangle's extent are only the size-preserving movers (see C09 MOVERS-AFFINE), or setMinD/setMaxD called "
                 "on a cluster-owned `varRect`", floor=4)
    for e in ENTRIES:
        for root in prog.fns(e):
            reach = cg.reachable([root.key])
            bad = None
            n_w = 0
            for k in reach:
                f = prog.by_key.get(k)
                if f is None or f.body is None or f.kind == "ctor":
                    continue
                if not any(written_field(lhs)[0] in EXT for lhs, node, op in writes(f)):
                    continue
                n_w += 1
                if f.q in SIZE_PRESERVING:
                    continue
                # who calls it, among reachable functions, and on what receiver
                for caller, site in cg.callers(f.key):
                    if caller.key not in reach:
                        continue
                    recv = norm(call_object(site)) if call_object(site) is not None else "?"
                    if recv.split(".")[-1].split("[")[0] in ("varRect",):
                        continue
                    path = cg.path(root.key, lambda kk: kk == caller.key) or [root.key]
                    bad = "%s is reachable (%s -> %s) and called on `%s`: node sizes can change during layout" % (
                        f.q, " -> ".join(p.split("(")[0].split("::")[-1] for p in path), f.name, recv)
            r.count(len(reach))
            (r.bad if bad else r.ok)(e, root.where(), bad or "%d functions reachable, %d extent writers" % (len(reach), n_w))


def rule_done_reset(chk, prog):
    """A caller-owned TestConvergence carries old_stress / iterations from the previous layout unless the new layout resets it."""
    from ..cfg import CFG
    r = chk.rule("CONVERGENCE-RESET", "the constructors of ConstrainedFDLayout and ConstrainedMajorizationLayout call done->reset() on every path "
                 "(after substituting their own TestConvergence for a null argument): a test object shared between two layouts otherwise makes "
                 "the second layout compare its first stress with the first layout's last one and stop after one step -- results then depend "
                 "on what was laid out before", floor=2)
    k = 0
    for f in prog.all_functions():
        if f.kind != "ctor" or f.tmpl == "pattern" or f.body is None or f.cls not in ("cola::ConstrainedFDLayout", "cola::ConstrainedMajorizationLayout"):
            continue
        if f.d.get("copy") or f.d.get("move") or f.d.get("defaulted"):
            continue
        k += 1
        r.count()
        g = CFG(f)
        rs = [c for c in calls(f) if c.get("cname") == "cola::TestConvergence::reset" and norm(call_object(c)) in ("done", "this.done")]
        w = g.exit_reachable_avoiding([c["id"] for c in rs]) if rs else []
        if w is not None:
            r.bad(f.cls.split("::")[-1] + " constructor", f.where(), "the convergence test is not reset%s" % ((" on " + g.describe(w)) if w else ""))
        else:
            r.ok(f.cls.split("::")[-1] + " constructor", f.loc(rs[0]))
    if k < 2:
        raise AnalysisBroken("layout constructors not found")


def rule_fixed_relative(chk, prog):
    """FixedRelativeConstraint: the recorded offsets are measured from the same shape the sub-constraints name as their left variable."""
    from ..microai.interp import Interp, Obj, Vec, Oracle, Unsupported, AssertFail, default_obj
    from fractions import Fraction
    r = chk.rule("FIXED-RELATIVE-OFFSETS", "FixedRelativeConstraint's constructor interpreted for id lists given ascending, descending, shuffled and with "
                 "duplicates: every sub-constraint (l, r, dim, offset) has offset = centre(r) - centre(l) in that dimension, the pairs are "
                 "(smallest id, every other id) in both dimensions, each once -- an offset measured from another shape than l is still "
                 "satisfiable, so a distorted group is enforced without any report", floor=4)
    cands = [f for f in prog.all_functions() if f.kind == "ctor" and f.cls == "cola::FixedRelativeConstraint" and f.body is not None and len(f.params) == 3]
    if len(cands) != 1:
        raise AnalysisBroken("cola::FixedRelativeConstraint constructor not found")
    fn = cands[0]
    centres = {0: (5, 50), 1: (20, 10), 2: (-30, 70), 3: (80, 170), 4: (11, 13)}
    for ids in ([1, 2, 3], [3, 2, 1], [3, 1, 2], [2, 4, 2, 0, 4]):
        made = []
        it = Interp(prog, Oracle([]))
        it.ctor_hooks = {"cola::RelativeOffset": lambda it_, o, args, env, m=made: m.append([it_.ev(a, env) for a in args]),
                         "cola::CompoundConstraint": lambda it_, o, args, env: None}
        it.vhooks["vpsc::Rectangle::getCentreX"] = lambda it_, recv, args: Fraction(recv.f["_c"][0])
        it.vhooks["vpsc::Rectangle::getCentreY"] = lambda it_, recv, args: Fraction(recv.f["_c"][1])
        rs = Vec([Obj("vpsc::Rectangle", {"_c": centres[i]}) for i in range(5)], "vpsc::Rectangle *")
        this = default_obj(prog, "cola::FixedRelativeConstraint", {})
        this.f["_subConstraintInfo"] = Vec([], "cola::SubConstraintInfo *")
        r.count()
        inst = "ids %s" % ids
        try:
            it.call(fn, this, None, None, arg_values=[rs, Vec(list(ids), "unsigned int"), False])
        except Unsupported as e:
            raise AnalysisBroken("FixedRelativeConstraint constructor outside the interpreter subset (%s): %s" % (inst, e))
        except AssertFail as e:
            r.bad(inst, fn.where(), "assertion fails: %s" % e)
            continue
        first = min(ids)
        want = sorted((first, j, d, Fraction(centres[j][d] - centres[first][d])) for j in sorted(set(ids)) if j != first for d in (0, 1))
        got = sorted((a[0], a[1], int(a[2]), Fraction(a[3])) for a in made)
        bad = None
        if got != want:
            wrong = [g for g in got if g not in want]
            bad = "sub-constraints (l, r, dim, offset) = %s; expected %s" % ([(a, b, c, str(d)) for a, b, c, d in (wrong or got)][:3],
                                                                            [(a, b, c, str(d)) for a, b, c, d in want][:3])
        (r.bad if bad else r.ok)(inst, fn.where(), bad or "%d offsets" % len(got))


def rule_both_axes(chk, prog):
    r = chk.rule("BOTH-AXES-PROJECTED", "ConstrainedFDLayout::setPosition projects BOTH dimensions on every path (moveTo(HORIZONTAL) and moveTo(VERTICAL) "
                 "cannot be skipped), whichever axes run(x, y) lays out: for an axis that is not being laid out this projection is the only "
                 "thing that makes its coordinates satisfy the constraints of that dimension; run() calls setPosition after every descent "
                 "step and computeDescentVectorOnBothAxes before it", floor=3)
    fn = prog.fn("cola::ConstrainedFDLayout::setPosition")
    g = CFG(fn)
    for dimname in ("vpsc::HORIZONTAL", "vpsc::VERTICAL"):
        mt = [c for c in calls(fn) if c.get("cname") == "cola::ConstrainedFDLayout::moveTo" and norm(call_args(c)[0]) in (dimname, dimname.split("::")[1])]
        r.count()
        w = g.exit_reachable_avoiding([c["id"] for c in mt]) if mt else []
        (r.ok if w is None else r.bad)("setPosition: " + dimname.split("::")[1], fn.loc(mt[0]) if mt else fn.where(), "" if w is None else
                                       "setPosition can return without projecting the %s dimension%s" % (dimname.split("::")[1].lower(), (" (" + g.describe(w) + ")") if w else ""))
    k = 0
    for q in ("cola::ConstrainedFDLayout::run", "cola::ConstrainedFDLayout::computeDescentVectorOnBothAxes"):
        f = prog.fn(q)
        sp = [c for c in calls(f) if c.get("cname") == "cola::ConstrainedFDLayout::setPosition"]
        k += len(sp)
    r.count()
    (r.ok if k >= 2 else r.bad)("setPosition is used by the descent loop", prog.fn("cola::ConstrainedFDLayout::run").where(), "" if k >= 2 else
                                "run / computeDescentVectorOnBothAxes no longer project through setPosition")


def rule_idle_axis_reported(chk, prog):
    from ..rules.guards import path_condition, atoms, entails
    r = chk.rule("IDLE-AXIS-REPORTED", "ConstrainedFDLayout::run ends every iteration with a setPosition(..) that asks its projections to record what they "
                 "could not satisfy, for BOTH dimensions: moveTo(dim, .., record) hands the constraints the projection left flagged to the "
                 "per-dimension unsatisfiable list after project(..) and before the constraints are deleted -- applyForcesAndConstraints only "
                 "runs for the dimensions being laid out, so for run(true, false) this is the only place where a dropped y constraint can be "
                 "reported; NonOverlapConstraints stops offering pairs once the front pair has been processed (makeFeasible terminates)", floor=3)
    frun = prog.fn("cola::ConstrainedFDLayout::run")
    sp = [c for c in calls(frun) if c.get("cname") == "cola::ConstrainedFDLayout::setPosition"]
    r.count()
    rec = [c for c in sp if len(call_args(c)) >= 2 and literal_value(call_args(c)[1]) == "true"]
    bad = None
    if not rec:
        bad = "no setPosition call of run() asks for the dropped constraints to be recorded"
    else:
        lp = [a for a in frun.ancestors(rec[0]) if a.get("k") in ("DoStmt", "WhileStmt", "ForStmt")]
        ats = [a for a in atoms(path_condition(frun, rec[0], inline=False, early=True)) if "preIteration" not in a and "done" not in a]
        if not lp:
            bad = "the recording projection is not part of the iteration"
        elif ats:
            bad = "the recording projection at the end of an iteration is conditional on %s" % ats[:2]
    (r.bad if bad else r.ok)("run: recording projection each iteration", frun.loc(rec[0]) if rec else frun.where(), bad or "")
    fm = prog.fn("cola::ConstrainedFDLayout::moveTo")
    g = CFG(fm)
    proj = [c for c in calls(fm) if c.get("cname") == "cola::project"]
    recs = [c for c in calls(fm) if c.get("cname") in ("cola::checkNewlyUnsatisfiable", "cola::checkUnsatisfiable")]
    dels = [c for c in calls(fm) if str(c.get("cname", "")).startswith("std::for_each") and "delete_object" in norm(c) and "cs." in norm(c)]
    r.count()
    bad = None
    if not proj:
        raise AnalysisBroken("moveTo: project call not found")
    if not recs:
        bad = "moveTo never hands the constraints its projection left unsatisfied to the unsatisfiable lists"
    else:
        ats = [a for a in atoms(path_condition(fm, recs[0], inline=False))]
        pname = fm.params[2]["name"] if len(fm.params) > 2 else None
        if pname is None or pname not in ats:
            bad = "the recording in moveTo is not controlled by its caller"
        elif any(a not in (pname, "(unsatisfiable.size() == 2)") for a in ats):
            bad = "the recording in moveTo depends on %s" % [a for a in ats if a not in (pname, "(unsatisfiable.size() == 2)")][:2]
        elif g.search([g.after(proj[0]["id"])], targets=[recs[0]["id"]]) is None:
            bad = "constraints are recorded before the projection has run"
        elif dels and g.search([g.after(dels[0]["id"])], targets=[recs[0]["id"]]) is not None:
            bad = "constraints are recorded after they have been deleted"
        elif "unsatisfiable[dim]" not in norm(call_args(recs[0])[1]):
            bad = "the dropped constraints are not recorded in the list of the projected dimension"
    (r.bad if bad else r.ok)("moveTo records on request", fm.loc(recs[0]) if recs else fm.where(), bad or "")
    fa = prog.fn("cola::NonOverlapConstraints::getCurrSubConstraintAlternatives")
    r.count()
    stop = False
    for n in fa.nodes():
        if n.get("k") == "IfStmt" and "processed" in norm(n["cond"]) and any(x.get("k") == "ReturnStmt" for x in walk(n.get("then") or {})) \
                and not entails(path_condition(fa, n["then"], inline=False), ("const", False)):
            if any(written_field(lhs)[0].endswith("_currSubConstraintIndex") for lhs, node, op in writes(fa)
                   if any(y.get("id") == node.get("id") for y in walk(n["then"]))):
                stop = True
    (r.ok if stop else r.bad)("non-overlap pairs are offered once", fa.where(), "" if stop else
                              "a pair that has already been processed is offered again: with only unresolvable pairs left makeFeasible() never returns")


_FEASIBILITY_FIELDS = ("cola::CompoundConstraint::_currSubConstraintIndex", "cola::SubConstraintInfo::satisfied")
_FEASIBILITY_CALLS = ("subConstraintsRemaining", "markCurrSubConstraintAsActive", "markAllSubConstraintsAsInactive", "getCurrSubConstraintAlternatives")


def rule_translators_offered(chk, prog, cg):
    from ..facts import walk
    r = chk.rule("EVERY-COMPOUND-OFFERED", "wherever a list of compound constraints is translated for a solver (calls of the virtual "
                 "generateVariables / generateSeparationConstraints inside a loop over the list: GradientProjection, setupVarsAndConstraints, "
                 "setupExtraConstraints, projectOntoCCs, ACALayout, the orthogonal topology improver), no iteration of the loop can get "
                 "past the call: which dimension a compound constraint acts in is the constraint's own business (FixedRelativeConstraint "
                 "and PageBoundaryConstraints act in both whatever dimension() says) -- a constraint that is not offered is violated "
                 "without being reported", floor=12)
    for fn in prog.all_functions():
        if not fn.body or "/tests/" in fn.file:
            continue
        cs_ = [c for c in calls(fn) if c.get("cname") in ("cola::CompoundConstraint::generateSeparationConstraints", "cola::CompoundConstraint::generateVariables")]
        if not cs_:
            continue
        g = None
        for c in cs_:
            lp = [a for a in fn.ancestors(c) if a.get("k") in ("ForStmt", "CXXForRangeStmt", "WhileStmt")]
            if not lp:
                continue
            r.count()
            g = g or CFG(fn)
            w = g.iteration_can_skip(lp[0], [c["id"]])
            (r.ok if w is None else r.bad)("%s in %s" % (c["cname"].split("::")[-1], fn.q), fn.loc(c), "" if w is None else
                                           "an iteration of the loop over the compound constraints can skip this call (%s)" % g.describe(w))
    r2 = chk.rule("TRANSLATORS-IGNORE-FEASIBILITY-BOOKKEEPING", "no generateVariables / generateSeparationConstraints of a compound constraint class (22 "
                  "functions; call-graph closure) reads the cursor and `satisfied` marks that makeFeasible() keeps while it tries the "
                  "sub-constraints one by one, or calls the functions that step through them: what run() offers the solver -- and hence "
                  "what it reports as unsatisfiable -- does not depend on whether, and with which outcome, makeFeasible() ran before", floor=20)
    bykey = {f.key: f for f in prog.all_functions()}
    for rt in prog.all_functions():
        if not (rt.body and rt.name in ("generateSeparationConstraints", "generateVariables") and rt.cls and rt.cls.startswith(("cola::", "topology::", "dialect::"))):
            continue
        r2.count()
        bad = None
        for k in sorted(cg.reachable([rt.key])):
            f = bykey.get(k)
            if f is None or not f.body:
                continue
            if f.name in _FEASIBILITY_CALLS and (f.cls or "").startswith("cola::"):
                bad = bad or "reaches %s" % f.q
            for n in f.nodes():
                if n.get("k") == "MemberExpr" and n.get("ref") in _FEASIBILITY_FIELDS:
                    bad = bad or "%s reads %s at %s" % (f.q, n["ref"].split("::")[-1], f.loc(n))
        (r2.bad if bad else r2.ok)(rt.q, rt.where(), bad or "")


def run(chk):
    prog = chk.load()
    cg = CallGraph(prog)
    chk.guard(rule_idle_axis_reported, chk, prog)
    chk.guard(rule_both_axes, chk, prog)
    chk.guard(rule_fixed_relative, chk, prog)
    chk.guard(rule_done_reset, chk, prog)
    chk.guard(rule_translators, chk, prog)
    chk.guard(rule_translators_offered, chk, prog, cg)
    chk.guard(rule_creator, chk, prog)
    chk.guard(rule_projection, chk, prog)
    chk.guard(rule_makefeasible, chk, prog)
    chk.guard(rule_locks_projected, chk, prog)
    chk.guard(rule_majorization_fresh, chk, prog)
    chk.guard(rule_sizes, chk, prog, cg)
