"""C08 -- libcola: overlap avoidance and cluster containment: the generation of the non-overlap constraints.

Decides:
  EXEMPT-GROUPS      NonOverlapConstraintExemptions: exempt pairs are exactly the pairs inside one declared group (interpreted on
                     concrete id groups with duplicates); membership query and addShape honour exactly those
  PAIRS-COMPLETE     NonOverlapConstraints::addShape, interpreted on a fresh constraint object: after adding shapes 0..3 the pair list
                     holds every unordered pair of the same group exactly once (exempt ids and other groups excluded) and the
                     half-extents are stored as (halfDim[X], halfDim[Y]) = (halfW, halfH)
  NONOVERLAP-FORM    NonOverlapConstraints::generateSeparationConstraints, symbolic rectangles: for a pair of plain shapes a
                     constraint is emitted iff the rectangles overlap in the *other* dimension, it separates the variable of the
                     lower centre from the higher one, with gap halfDim1[dim] + halfDim2[dim], creator recorded
                     (decision-tree leaves located for sampled integer rectangles and compared with the definition)
  ADDSHAPE-SITES     every libcola call of NonOverlapConstraints::addShape passes (id, width(box[id])/2, height(box[id])/2) for one
                     id, and the flat generator covers all indices [0, boundingBoxes.size())
  WIRING             the non-overlap object is appended to extraConstraints whenever m_generateNonOverlapConstraints holds (both
                     the flat and the clustered path); a ClusterContainmentConstraints is created for every non-root cluster and
                     the recursion visits every child cluster
Not decided: that the generated constraints remove all overlap for all inputs; containment numerics.
"""
import copy
import random
from fractions import Fraction

from ..astq import strip, strip_casts, calls, call_args, call_object, norm, literal_value, src, single_assignment_locals
from ..cfg import CFG
from ..facts import AnalysisBroken, walk
from ..microai.interp import (Interp, Obj, Vec, Box, MapVal, SetVal, Oracle, enumerate_paths, AssertFail, Thrown, Unsupported, UNINIT)
from ..microai.poly import Poly, to_poly
from ..rules.guards import path_condition, atoms, entails, show


def fresh_noc():
    return Obj("cola::NonOverlapConstraints", {"pairInfoList": Vec([], "cola::ShapePairInfo"),
                                               "shapeOffsets": MapVal(vtype="cola::OverlapShapeOffsets"), "m_exemptions": None,
                                               "pairInfoListSorted": False, "initialSortCompleted": False,
                                               "m_cluster_cluster_exemptions": SetVal(), "_primaryDim": 0, "_secondaryDim": 1,
                                               "_priority": 1, "_combineSubConstraints": False, "_currSubConstraintIndex": 0,
                                               "_subConstraintInfo": Vec([])})


def rule_pairs(chk, prog):
    r = chk.rule("PAIRS-COMPLETE", "interpreting NonOverlapConstraints::addShape for ids 0..3 (ids 0-2 in group 1, id 3 in group 2, id 2 exempt "
                 "from 0): the pair list is exactly {(0,1),(1,2)} + nothing across groups, each pair once with varIndex1 < varIndex2; "
                 "halfDim = (halfW, halfH) per shape", floor=1)
    fn = prog.fn("cola::NonOverlapConstraints::addShape")
    noc = fresh_noc()
    it = Interp(prog, Oracle([]))
    try:
        it.call(fn, noc, None, None, arg_values=[0, Poly.var("w0"), Poly.var("h0"), 1, SetVal()])
        it.call(fn, noc, None, None, arg_values=[1, Poly.var("w1"), Poly.var("h1"), 1, SetVal()])
        it.call(fn, noc, None, None, arg_values=[2, Poly.var("w2"), Poly.var("h2"), 1, SetVal([0])])
        it.call(fn, noc, None, None, arg_values=[3, Poly.var("w3"), Poly.var("h3"), 2, SetVal()])
    except Unsupported as e:
        raise AnalysisBroken("NonOverlapConstraints::addShape outside the interpreter subset: %s" % e)
    pairs = sorted((p.f["varIndex1"], p.f["varIndex2"]) for p in noc.f["pairInfoList"].items)
    bad = None
    if pairs != [(0, 1), (1, 2)]:
        bad = "pair list is %s, expected [(0, 1), (1, 2)] (all same-group, non-exempt pairs)" % pairs
    for i in range(4):
        so = noc.f["shapeOffsets"].d.get(i)
        if so is None:
            bad = bad or "shape %d not recorded" % i
            continue
        hd = [to_poly(x) for x in so.f["halfDim"].items]
        if hd != [Poly.var("w%d" % i), Poly.var("h%d" % i)]:
            bad = bad or "shape %d: halfDim = %s, expected (halfW, halfH)" % (i, hd)
    r.count(4)
    (r.bad if bad else r.ok)("cola::NonOverlapConstraints::addShape", fn.where(), bad or "pairs %s" % pairs)
    chk.sample({"rule": "PAIRS-COMPLETE", "pairs": pairs})


_FORM_PROG = None
_FORM_TIER = ["quick"]


def _form_worker(job):
        dim, kinds = job
        prog = _FORM_PROG
        from ..microai.interp import default_obj
        fn = prog.fn("cola::NonOverlapConstraints::generateSeparationConstraints")
        addf = prog.fn("cola::NonOverlapConstraints::addShape")
        addc = prog.fn("cola::NonOverlapConstraints::addCluster")
        rng = random.Random(7 + dim * 4 + "sc".index(kinds[0]) * 2 + "sc".index(kinds[1]))
        def rect(i):
            return Obj("vpsc::Rectangle", {"minX": Poly.var("x%d" % i), "maxX": Poly.var("X%d" % i), "minY": Poly.var("y%d" % i),
                                            "maxY": Poly.var("Y%d" % i), "overlap": False})

        # variable layout: plain shape i -> variable i (i = 0, 1); cluster i -> variables 2+2i (low side), 3+2i (high side)
        def index(i):
            return i if kinds[i] == "s" else 2 + 2 * i

        def run(o):
            it = Interp(prog, o, globals={"vpsc::Rectangle::xBorder": Box(Fraction(0)), "vpsc::Rectangle::yBorder": Box(Fraction(0))})
            noc = fresh_noc()
            for i in (0, 1):
                if kinds[i] == "s":
                    it.call(addf, noc, None, None, arg_values=[i, Poly.var("hw%d" % i), Poly.var("hh%d" % i), 1, SetVal()])
                else:
                    mbox = default_obj(prog, "cola::Box", {"m_min": Vec([Poly.var("mnx%d" % i), Poly.var("mny%d" % i)]),
                                                           "m_max": Vec([Poly.var("mxx%d" % i), Poly.var("mxy%d" % i)])})
                    cl = default_obj(prog, "cola::RectangularCluster", {"clusterVarId": index(i), "bounds": rect(i), "m_margin": mbox,
                                                                        "nodes": SetVal()})
                    it.call(addc, noc, None, None, arg_values=[cl, 1])
            vs = Vec([Obj("vpsc::Variable", {"id": k}) for k in range(6)], "vpsc::Variable *")
            cs = Vec([], "vpsc::Constraint *")
            bbs = Vec([rect(0), rect(1)] + [None] * 4, "vpsc::Rectangle *")
            try:
                it.call(fn, noc, None, None, arg_values=[dim, Box(vs), Box(cs), Box(bbs)])
                return ("ret", cs, noc)
            except AssertFail as e:
                return ("assert", str(e), None)
        try:
            rows = enumerate_paths(run, limit=5000)
        except Unsupported as e:
            return None, "UNSUPPORTED: %s" % e, 0
        bad = None
        n_pts = 0
        D = "xy"[dim]
        O = "yx"[dim]
        for _ in range(150 if _FORM_TIER[0] != "thorough" else 900):
            env = {}
            for i in (0, 1):
                x = rng.randint(0, 8)
                y = rng.randint(0, 8)
                env["x%d" % i], env["X%d" % i] = Fraction(x), Fraction(x + rng.randint(1, 5))
                env["y%d" % i], env["Y%d" % i] = Fraction(y), Fraction(y + rng.randint(1, 5))
                env["hw%d" % i] = (env["X%d" % i] - env["x%d" % i]) / 2
                env["hh%d" % i] = (env["Y%d" % i] - env["y%d" % i]) / 2
                for m in ("mnx", "mny", "mxx", "mxy"):
                    env["%s%d" % (m, i)] = Fraction(rng.randint(0, 3))
            hit = None
            for val, descr, out in rows:
                ok = True
                for k, v in val.items():
                    pl = Poly({m: Fraction(c[0], c[1]) for m, c in k[1]})
                    e = pl.eval_exact(env)
                    if ((e > 0) - (e < 0)) != v:
                        ok = False
                        break
                if ok:
                    hit = out
                    break
            if hit is None:
                bad = bad or "no leaf of the decision tree covers configuration %s" % {k: str(v) for k, v in env.items()}
                continue
            n_pts += 1
            if hit[0] != "ret":
                bad = bad or "assertion path for a valid configuration: %s" % hit[1]
                continue

            def ext(i, axis, side):         # extent of object i along `axis` including its cluster margin
                v = env[(axis if side == "lo" else axis.upper()) + str(i)]
                if kinds[i] == "c":
                    v = v - env["mn%s%d" % (axis, i)] if side == "lo" else v + env["mx%s%d" % (axis, i)]
                return v
            ov = min(ext(0, O, "hi"), ext(1, O, "hi")) - max(ext(0, O, "lo"), ext(1, O, "lo"))
            cs = hit[1].items
            c = [(env[D + str(i)] + env[D.upper() + str(i)]) / 2 for i in (0, 1)]
            if ov > 0:
                if len(cs) != 1:
                    bad = bad or "objects overlapping by %s in the other dimension get %d constraints in dimension %d" % (ov, len(cs), dim)
                    continue
                con = cs[0]
                left, right = con.f["left"].f["id"], con.f["right"].f["id"]
                lo, hi = (0, 1) if c[0] < c[1] else (1, 0)
                hivar = lambda i: index(i) + (1 if kinds[i] == "c" else 0)
                lovar = lambda i: index(i)
                half = lambda i: env[("hw" if dim == 0 else "hh") + str(i)]
                above = lambda i: env["mx%s%d" % (D, i)] if kinds[i] == "c" else half(i)
                below = lambda i: env["mn%s%d" % (D, i)] if kinds[i] == "c" else half(i)
                want = (hivar(lo), lovar(hi))
                if c[0] == c[1] and (left, right) == (hivar(hi), lovar(lo)):
                    lo, hi = hi, lo             # coincident centres: either order separates them
                    want = (left, right)
                gap = to_poly(con.f["gap"]).eval_exact(env)
                wantgap = above(lo) + below(hi)
                if (left, right) != want:
                    bad = bad or ("centres %s,%s: constraint is between variables %s, expected %s (high side of the lower object, low side of "
                                  "the upper one)" % (c[0], c[1], (left, right), want))
                elif gap != wantgap:
                    bad = bad or "gap %s, expected %s (extent of the lower object above its variable + extent of the upper below)" % (gap, wantgap)
                elif con.f.get("creator") is not hit[2]:
                    bad = bad or "creator not recorded on the non-overlap constraint"
                elif con.f.get("equality"):
                    bad = bad or "non-overlap constraint emitted as an equality"
            else:
                if cs:
                    bad = bad or "objects disjoint in the other dimension (overlap %s) still get a constraint in dimension %d" % (ov, dim)
        return n_pts, bad, len(rows)




def rule_form(chk, prog):
    r = chk.rule("NONOVERLAP-FORM", "decision tree of NonOverlapConstraints::generateSeparationConstraints(dim) for one pair of objects, each a "
                 "plain shape or a cluster (boundary variables clusterVarId / clusterVarId+1, margin box), with symbolic rectangles; for "
                 "sampled integer configurations per dimension and kind pair the leaf reached emits a constraint iff the (margin-extended) "
                 "rectangles overlap in the other dimension, from the upper-boundary variable of the object with the lower centre to the "
                 "lower-boundary variable of the other, with gap above(lower) + below(upper), creator recorded", floor=8)
    fn = prog.fn("cola::NonOverlapConstraints::generateSeparationConstraints")
    addf = prog.fn("cola::NonOverlapConstraints::addShape")
    addc = prog.fn("cola::NonOverlapConstraints::addCluster")
    global _FORM_PROG
    _FORM_PROG = prog
    _FORM_TIER[0] = chk.tier
    import multiprocessing
    jobs = [(dim, kinds) for dim in (0, 1) for kinds in (("s", "s"), ("s", "c"), ("c", "s"), ("c", "c"))]
    with multiprocessing.get_context("fork").Pool(8) as pool:
        res = pool.map(_form_worker, jobs)
    for (dim, kinds), (n_pts, bad, nrows) in zip(jobs, res):
        if n_pts is None:
            raise AnalysisBroken("generateSeparationConstraints outside the interpreter subset: %s" % bad)
        r.count(n_pts)
        (r.bad if bad else r.ok)("generateSeparationConstraints/dim%d/%s-%s" % (dim, kinds[0], kinds[1]), fn.where(),
                                 bad or "%d leaves, %d samples" % (nrows, n_pts))


def rule_sites(chk, prog):
    r = chk.rule("ADDSHAPE-SITES", "libcola call sites of NonOverlapConstraints::addShape pass (id, B[id]->width()/2, B[id]->height()/2 ...) with "
                 "one id and one rectangle vector B; the flat generators loop id over [0, B.size())", floor=5)
    k = 0
    for f in prog.all_functions():
        if not f.file.endswith(("libcola/colafd.cpp", "libcola/cola.cpp")):
            continue
        for n in calls(f):
            if n.get("cname") != "cola::NonOverlapConstraints::addShape":
                continue
            k += 1
            a = [norm(x) for x in call_args(n)]
            inst = "%s#%d" % (f.q, k)
            idn = a[0]
            ok = False
            for B in ("boundingBoxes", "rs"):
                if a[1] in ("(%s[%s].width() / 2)" % (B, idn),) and a[2] in ("(%s[%s].height() / 2)" % (B, idn),):
                    ok = True
            r.count()
            if not ok:
                r.bad(inst, f.loc(n), "addShape(%s): half extents are not width/2, height/2 of the rectangle with the same id" % ", ".join(a[:3]))
                continue
            lp = [x for x in f.ancestors(n) if x.get("k") == "ForStmt"]
            if lp and lp[0].get("init") is not None and lp[0]["init"].get("k") == "DeclStmt" and lp[0]["init"]["decls"][0]["name"] == idn:
                d = lp[0]["init"]["decls"][0]
                cnd = norm(lp[0].get("cond"))
                if literal_value(d.get("init")) != "0" or cnd not in ("(%s < boundingBoxes.size())" % idn, "(%s < rs.size())" % idn, "(%s < n)" % idn):
                    r.bad(inst, f.loc(n), "the loop adding shapes does not cover all rectangles (init %s, cond %s)" % (norm(d.get("init")), cnd))
                    continue
                if CFG(f).iteration_can_skip(lp[0], [n["id"]]) is not None:
                    r.bad(inst, f.loc(n), "some rectangles are not added to the non-overlap constraint")
                    continue
            r.ok(inst, f.loc(n))


def rule_wiring(chk, prog):
    r = chk.rule("WIRING", "generateNonOverlapAndClusterCompoundConstraints: on both arms the NonOverlapConstraints object is pushed to "
                 "extraConstraints under m_generateNonOverlapConstraints and nothing else; recGenerateClusterVariablesAndConstraints creates "
                 "and registers ClusterContainmentConstraints for every cluster that is not the root (when called without a noc) and recurses "
                 "into every child cluster", floor=3)
    fn = prog.fn("cola::ConstrainedFDLayout::generateNonOverlapAndClusterCompoundConstraints")
    g = CFG(fn)
    news = [n for n in fn.nodes() if n.get("k") == "CXXNewExpr" and n.get("at") == "cola::NonOverlapConstraints"]
    if len(news) != 2:
        raise AnalysisBroken("expected two NonOverlapConstraints allocations, found %d" % len(news))
    pushes = [n for n in calls(fn) if n.get("cname", "").endswith("::push_back") and norm(call_object(n)) == "extraConstraints"]
    for i, nw in enumerate(news):
        bad = None
        pc = path_condition(fn, nw, inline=False)
        extra = [a for a in atoms(pc) if a not in ("m_generateNonOverlapConstraints", "(clusterHierarchy && !clusterHierarchy.flat())", "clusterHierarchy", "clusterHierarchy.flat()")]
        if not entails(pc, ("atom", "m_generateNonOverlapConstraints")) or extra:
            bad = "non-overlap constraints are created under %s" % show(pc)[:160]
        w = g.must_follow(nw["id"], [p["id"] for p in pushes])
        if w is not None:
            bad = bad or "the non-overlap constraint object is not appended to extraConstraints on %s" % g.describe(w)
        r.count()
        (r.bad if bad else r.ok)("non-overlap arm %d" % (i + 1), fn.loc(nw), bad or "")
    # nodes that no cluster lists belong to the root cluster (documented); only as children of the root do they get non-overlap pairs
    ins = [c for c in calls(fn) if c.get("cname", "").endswith("::insert") and norm(call_object(c)) == "clusterHierarchy.nodes"]
    r.count()
    bad = None
    if len(ins) != 1:
        bad = "expected one place where unlisted nodes are added to the root cluster, found %d" % len(ins)
    else:
        pc = path_condition(fn, ins[0], inline=False)
        import re as _re
        import itertools as _it
        from ..rules.guards import evalf
        outer = ("(clusterHierarchy && !clusterHierarchy.flat())", "clusterHierarchy", "clusterHierarchy.flat()")
        all_atoms = sorted(atoms(pc))
        cnt_re = _re.compile(r"^\(?\s*(?:count\s*(==|!=|<=|>=|<|>)\s*(\d+)|(\d+)\s*(==|!=|<=|>=|<|>)\s*count)\s*\)?$")
        ops = {"==": lambda x, y: x == y, "!=": lambda x, y: x != y, "<": lambda x, y: x < y, ">": lambda x, y: x > y,
               "<=": lambda x, y: x <= y, ">=": lambda x, y: x >= y}

        def cnt_val(atom, c):
            m = cnt_re.match(atom)
            if not m:
                return None
            if m.group(1):
                return ops[m.group(1)](c, int(m.group(2)))
            return ops[m.group(4)](int(m.group(3)), c)
        free = [a for a in all_atoms if cnt_val(a, 0) is None and a not in outer and "nodesInClusterCounts.size()" not in a]
        # the insert must be reached exactly when count == 0, whatever the other conditions say (count atoms are evaluated arithmetically,
        # so `if (count > 1) ... else if (count == 0)` and similar rewrites are the same test)
        witness = None
        for c in (0, 1, 2, 3):
            for vals in _it.product((False, True), repeat=len(free)):
                env = {a: (".flat()" not in a) for a in all_atoms}      # the enclosing `hierarchy exists and is not flat` test and the loop condition hold
                env.update(dict(zip(free, vals)))
                for a in all_atoms:
                    cv = cnt_val(a, c)
                    if cv is not None:
                        env[a] = cv
                if evalf(pc, env) != (c == 0):
                    witness = witness or (c, dict(zip(free, vals)))
        if witness:
            c, env = witness
            bad = ("with count = %d and %s the node is %s the root cluster; documented: exactly the nodes no cluster lists (count == 0) join it"
                   % (c, env or "no further condition", "added to" if c != 0 else "NOT added to"))
        elif "nodesInClusterCounts[i]" not in norm([d for d in fn.nodes() if d.get("k") == "VarDecl" and d.get("name") == "count"][0].get("init")):
            bad = "`count` is not the number of clusters listing node i"
        elif norm(call_args(ins[0])[0]) != "i":
            bad = "`%s` is added to the root cluster instead of the unlisted node i" % norm(call_args(ins[0])[0])
    (r.bad if bad else r.ok)("unlisted nodes join the root cluster", fn.loc(ins[0]) if ins else fn.where(), bad or "")
    fn = prog.fn("cola::ConstrainedFDLayout::recGenerateClusterVariablesAndConstraints")
    g = CFG(fn)
    bad = None
    ccc = [n for n in fn.nodes() if n.get("k") == "CXXNewExpr" and n.get("at") == "cola::ClusterContainmentConstraints"]
    if not ccc:
        bad = "no ClusterContainmentConstraints is created"
    else:
        pc = path_condition(fn, ccc[0], inline=False)
        ats = atoms(pc)
        if not (len(ats) == 2 and entails(pc, ("atom", "(noc == nullptr)")) and any("RootCluster" in a for a in ats)):
            bad = "containment constraints are created under %s (expected: first pass && not the root cluster)" % show(pc)[:200]
        ctor = [c for c in ccc[0].get("ch", []) if c.get("k") == "CXXConstructExpr"]
        if ctor and norm(ctor[0]["ch"][0]) != "cluster":
            bad = bad or "containment constraint built for `%s`, not for the current cluster" % norm(ctor[0]["ch"][0])
        push = [n for n in calls(fn) if n.get("cname", "").endswith("::push_back") and norm(call_object(n)) == "idleConstraints" and norm(call_args(n)[0]) == "ccc"]
        if not push or g.must_follow(ccc[0]["id"], [push[0]["id"]]) is not None:
            bad = bad or "the containment constraint is not registered on every path"
    rec = [n for n in calls(fn) if n.get("cname") == "cola::ConstrainedFDLayout::recGenerateClusterVariablesAndConstraints"]
    if not rec:
        bad = bad or "no recursion into child clusters"
    else:
        lp = [x for x in fn.ancestors(rec[0]) if x.get("k") == "ForStmt"]
        if not lp or "cluster.clusters.begin()" not in norm(lp[0]["init"]["decls"][0].get("init")) or "cluster.clusters.end()" not in norm(lp[0].get("cond")):
            bad = bad or "recursion does not cover all child clusters"
        elif g.iteration_can_skip(lp[0], [rec[0]["id"]]) is not None:
            bad = bad or "some child cluster is skipped by the recursion"
        elif norm(call_args(rec[0])[3]) not in ("curr.*",):
            bad = bad or "recursion descends into `%s`" % norm(call_args(rec[0])[3])
    r.count()
    (r.bad if bad else r.ok)("recGenerateClusterVariablesAndConstraints", fn.where(), bad or "")


def rule_exempt(chk, prog):
    r = chk.rule("EXEMPT-GROUPS", "interpreting NonOverlapConstraintExemptions::addExemptGroupOfNodes on groups {3,1,1},{2,5},{4},{6,7,8}: "
                 "the exempt pairs are exactly the unordered pairs of distinct ids *within* one group; shapePairIsExempt answers membership "
                 "for both orders; addShape with these exemptions drops exactly those pairs", floor=3)
    from ..microai.interp import default_obj
    fn = prog.fn("cola::NonOverlapConstraintExemptions::addExemptGroupOfNodes")
    isx = prog.fn("cola::NonOverlapConstraintExemptions::shapePairIsExempt")
    addf = prog.fn("cola::NonOverlapConstraints::addShape")
    ex = default_obj(prog, "cola::NonOverlapConstraintExemptions", {})
    groups = [[3, 1, 1], [2, 5], [4], [6, 7, 8]]
    it = Interp(prog, Oracle([]))
    try:
        it.call(fn, ex, None, None, arg_values=[Vec([Vec(list(g), "unsigned int") for g in groups], "std::vector<unsigned int>")])
        got = sorted((p.f["m_index1"], p.f["m_index2"]) for p in ex.f["m_exempt_pairs"].items)
        want = sorted({(min(a, b), max(a, b)) for g in groups for a in g for b in g if a != b})
        r.count()
        (r.ok if got == want else r.bad)("addExemptGroupOfNodes", fn.where(),
                                         "" if got == want else "exempt pairs %s, expected %s (pairs within each declared group only)" % (got, want))
        bad = None
        n = 0
        for a in range(1, 9):
            for b in range(1, 9):
                if a == b:
                    continue
                sp = Obj("cola::ShapePair", {"m_index1": min(a, b), "m_index2": max(a, b)})
                ans = it.call(isx, ex, None, None, arg_values=[sp])
                n += 1
                if bool(ans) != ((min(a, b), max(a, b)) in want):
                    bad = bad or "shapePairIsExempt(%d,%d) = %s" % (a, b, ans)
        r.count(n)
        (r.bad if bad else r.ok)("shapePairIsExempt", isx.where(), bad or "")
        noc = fresh_noc()
        noc.f["m_exemptions"] = ex
        for i in range(1, 9):
            it.call(addf, noc, None, None, arg_values=[i, Fraction(1), Fraction(1), 1, SetVal()])
        pairs = sorted((p.f["varIndex1"], p.f["varIndex2"]) for p in noc.f["pairInfoList"].items)
        wantp = sorted((a, b) for a in range(1, 9) for b in range(a + 1, 9) if (a, b) not in want)
        r.count(len(wantp))
        (r.ok if pairs == wantp else r.bad)("addShape with exemptions", addf.where(),
                                            "" if pairs == wantp else "non-overlap pairs missing %s, unexpected %s" %
                                            (sorted(set(wantp) - set(pairs)), sorted(set(pairs) - set(wantp))))
    except Unsupported as e:
        raise AnalysisBroken("exemption code outside the interpreter subset: %s" % e)
    except AssertFail as e:
        r.count()
        r.bad("addExemptGroupOfNodes", fn.where(), "assertion fails for valid groups: %s" % e)


def rule_cluster_geometry(chk, prog):
    """Cluster bounds and boundary variables: what generateSeparationConstraints and the containment constraints rely on."""
    from ..microai.interp import default_obj
    r = chk.rule("CLUSTER-BOUNDS", "Cluster::computeBoundingRect interpreted on the hierarchy root{ P{ Q{0,1}, 3 }, 2 } for several concrete "
                 "rectangle layouts, margins and paddings: bounds(C) = padding(C) applied to the union of the member rectangles of C and "
                 "of margin(child)-extended bounds of every child cluster (no member is dropped from the union); a cluster on a fixed rectangle "
                 "takes that rectangle, and the clusters below it still get their own bounds", floor=6)
    fn = prog.fn("cola::Cluster::computeBoundingRect")
    XB = {"vpsc::Rectangle::xBorder": Box(Fraction(0)), "vpsc::Rectangle::yBorder": Box(Fraction(0))}

    def R(x, X, y, Y):
        return Obj("vpsc::Rectangle", {"minX": Fraction(x), "maxX": Fraction(X), "minY": Fraction(y), "maxY": Fraction(Y), "overlap": False})

    def box(v):
        return default_obj(prog, "cola::Box", {"m_min": Vec([Fraction(v), Fraction(v)]), "m_max": Vec([Fraction(v), Fraction(v)])})

    def cluster(cls, nodes, kids, margin, padding):
        return default_obj(prog, cls, {"nodes": SetVal(nodes), "clusters": Vec(kids, "cola::Cluster *"), "m_margin": box(margin), "m_padding": box(padding),
                                       "bounds": R(1, -1, 1, -1), "m_rectangle_index": -1})
    layouts = [
        [(0, 10, 0, 10), (20, 30, 0, 10), (100, 110, 100, 110), (50, 60, 40, 50)],
        [(40, 50, 40, 50), (45, 70, 45, 60), (0, 5, 0, 5), (-30, -20, 10, 20)],
        [(0, 10, 0, 10), (0, 10, 0, 10), (5, 6, 5, 6), (2, 3, 80, 90)],
    ]
    for li, lay in enumerate(layouts):
        for margin, padding in ((0, 0), (3, 0), (0, 2), (4, 1)):
            rs = Vec([R(*t) for t in lay], "vpsc::Rectangle *")
            Q = cluster("cola::RectangularCluster", [0, 1], [], margin, padding)
            P = cluster("cola::RectangularCluster", [3], [Q], margin, padding)
            root = cluster("cola::RootCluster", [2], [P], 0, 0)
            it = Interp(prog, Oracle([]), globals=dict(XB))
            try:
                it.call(fn, root, None, None, arg_values=[Box(rs)])
            except (Unsupported, AssertFail) as e:
                raise AnalysisBroken("Cluster::computeBoundingRect outside the interpreter subset: %s" % e)

            def uni(rects):
                return (min(t[0] for t in rects), max(t[1] for t in rects), min(t[2] for t in rects), max(t[3] for t in rects))

            def grow(t, d):
                return (t[0] - d, t[1] + d, t[2] - d, t[3] + d)
            bQ = grow(uni([lay[0], lay[1]]), padding)
            bP = grow(uni([grow(bQ, margin), lay[3]]), padding)
            bR = uni([grow(bP, margin), lay[2]])
            r.count()
            bad = None
            for nm, obj, want in (("Q", Q, bQ), ("P", P, bP), ("root", root, bR)):
                b = obj.f["bounds"]
                got = tuple(Fraction(b.f[k]) for k in ("minX", "maxX", "minY", "maxY"))
                if got != tuple(Fraction(v) for v in want):
                    bad = bad or "bounds of %s = %s, expected %s (union of its member rectangles and child-cluster bounds)" % (
                        nm, tuple(str(v) for v in got), want)
            (r.bad if bad else r.ok)("layout %d, margin %s, padding %s" % (li, margin, padding), fn.where(), bad or "")
    # a cluster below a fixed-rectangle cluster: root{ F(on rectangle 3){ Q{0,1}, 2 } }
    for margin, padding in ((0, 0), (4, 1)):
        lay = [(40, 50, 40, 50), (45, 70, 45, 60), (0, 5, 0, 5), (-100, 200, -100, 200)]
        rs = Vec([R(*t) for t in lay], "vpsc::Rectangle *")
        Q = cluster("cola::RectangularCluster", [0, 1], [], margin, padding)
        Fx = cluster("cola::RectangularCluster", [2], [Q], margin, padding)
        Fx.f["m_rectangle_index"] = 3
        root = cluster("cola::RootCluster", [], [Fx], 0, 0)
        it = Interp(prog, Oracle([]), globals=dict(XB))
        try:
            it.call(fn, root, None, None, arg_values=[Box(rs)])
        except (Unsupported, AssertFail) as e:
            raise AnalysisBroken("computeBoundingRect (fixed-rectangle cluster) outside the interpreter subset: %s" % e)
        r.count()
        bad = None
        bq = Q.f["bounds"]
        got = tuple(Fraction(bq.f[k]) for k in ("minX", "maxX", "minY", "maxY"))
        want = (40 - padding, 70 + padding, 40 - padding, 60 + padding)
        if got != tuple(Fraction(v) for v in want):
            bad = "bounds of the cluster Q inside the fixed-rectangle cluster = %s, expected %s: generateSeparationConstraints decides from these " \
                  "bounds which siblings of Q need a separation constraint" % (tuple(str(v) for v in got), want)
        bf = Fx.f["bounds"]
        gotf = tuple(Fraction(bf.f[k]) for k in ("minX", "maxX", "minY", "maxY"))
        if not bad and gotf != tuple(Fraction(v) for v in lay[3]):
            bad = "bounds of the fixed-rectangle cluster = %s, expected its rectangle %s" % (tuple(str(v) for v in gotf), lay[3])
        (r.bad if bad else r.ok)("cluster below a fixed-rectangle cluster, margin %s, padding %s" % (margin, padding),
                                 prog.fn("cola::RectangularCluster::computeBoundingRect").where(), bad or "")
    r2 = chk.rule("CLUSTER-VARS", "Cluster::createVars interpreted on root{ A{} (empty), B{0,1}, C{ D{2} } }: in post-order every cluster -- "
                  "empty ones included -- appends exactly its two boundary variables, clusterVarId is the index of the first, and "
                  "vars[clusterVarId], vars[clusterVarId+1] are the cluster's own min / max variables: the numbering the containment and "
                  "non-overlap constraints captured before stays valid", floor=2)
    fc = prog.fn("cola::Cluster::createVars")
    for dim in (0, 1):
        rs = Vec([R(0, 10, 0, 10), R(20, 30, 0, 10), R(50, 60, 50, 60)], "vpsc::Rectangle *")
        A = cluster("cola::RectangularCluster", [], [], 0, 0)
        B = cluster("cola::RectangularCluster", [0, 1], [], 0, 0)
        D = cluster("cola::RectangularCluster", [2], [], 0, 0)
        C = cluster("cola::RectangularCluster", [], [D], 0, 0)
        root = cluster("cola::RootCluster", [], [A, B, C], 0, 0)
        it = Interp(prog, Oracle([]), globals=dict(XB))
        base = 3
        vars_ = Vec([Obj("vpsc::Variable", {"id": i}) for i in range(base)], "vpsc::Variable *")
        try:
            it.call(prog.fn("cola::Cluster::computeBoundingRect"), root, None, None, arg_values=[Box(rs)])
            it.call(fc, root, None, None, arg_values=[dim, Box(rs), Box(vars_)])
        except (Unsupported, AssertFail) as e:
            raise AnalysisBroken("Cluster::createVars outside the interpreter subset: %s" % e)
        order = [("A", A), ("B", B), ("D", D), ("C", C), ("root", root)]
        r2.count()
        bad = None
        if len(vars_.items) != base + 2 * len(order):
            bad = "%d variables after createVars for %d clusters (expected two per cluster, empty clusters included)" % (len(vars_.items) - base, len(order))
        for k, (nm, c) in enumerate(order):
            want = base + 2 * k
            if c.f["clusterVarId"] != want:
                bad = bad or "clusterVarId of %s is %s, expected %d (post-order, two variables per cluster)" % (nm, c.f["clusterVarId"], want)
            else:
                lo, hi = ("vXMin", "vXMax") if dim == 0 else ("vYMin", "vYMax")
                if vars_.items[want] is not c.f[lo] or vars_.items[want + 1] is not c.f[hi]:
                    bad = bad or "vars[clusterVarId] of %s is not the cluster's own boundary variable" % nm
        (r2.bad if bad else r2.ok)("createVars dim %d" % dim, fc.where(), bad or "")


def rule_fixed_rect(chk, prog):
    """A cluster built on a fixed rectangle is tied to that rectangle on all four sides."""
    from ..microai.interp import default_obj
    r = chk.rule("FIXED-RECT-TIES", "RectangularCluster::generateFixedRectangleConstraints interpreted for a cluster based on rectangle k (boundary "
                 "variables v, v+1; rectangle w x h): exactly four separation constraints are registered, all EQUALITIES: x: v + w/2 = k and "
                 "k + w/2 = v+1; y: v + h/2 = k and k + h/2 = v+1 -- an inequality lets the boundary (which contains the children) drift away "
                 "from the rectangle (which keeps outsiders out); nothing is generated for a cluster without a rectangle", floor=2)
    fn = prog.fn("cola::RectangularCluster::generateFixedRectangleConstraints")
    made = []

    def sc_ctor(it, o, args, env):
        vals = [it.ev(a, env) for a in args]
        o.f["_args"] = vals
        made.append(o)
    for rect_index in (2, -1):
        del made[:]
        cl = default_obj(prog, "cola::RectangularCluster", {"m_rectangle_index": rect_index, "clusterVarId": 7})
        rects = Vec([Obj("vpsc::Rectangle", {"_w": Fraction(10 * (i + 1)), "_h": Fraction(6 * (i + 1))}) for i in range(4)], "vpsc::Rectangle *")
        it = Interp(prog, Oracle([]))
        it.ctor_hooks = {"cola::SeparationConstraint": sc_ctor}
        it.vhooks["vpsc::Rectangle::width"] = lambda it_, recv, args: recv.f["_w"]
        it.vhooks["vpsc::Rectangle::height"] = lambda it_, recv, args: recv.f["_h"]
        idle = Vec([], "cola::CompoundConstraint *")
        try:
            it.call(fn, cl, None, None, arg_values=[Box(idle), Box(rects), None])
        except Unsupported as e:
            raise AnalysisBroken("generateFixedRectangleConstraints outside the interpreter subset: %s" % e)
        r.count()
        got = sorted((a[0], a[1], a[2], a[3], bool(a[4]) if len(a) > 4 else False) for a in (o.f["_args"] for o in idle.items))
        if rect_index < 0:
            (r.ok if not got else r.bad)("cluster without a rectangle", fn.where(), "" if not got else "constraints %s are generated" % got)
            continue
        want = sorted([(0, 7, 2, Fraction(15), True), (0, 2, 8, Fraction(15), True), (1, 7, 2, Fraction(9), True), (1, 2, 8, Fraction(9), True)])
        bad = None
        if got != want:
            miss = [w for w in want if w not in got]
            bad = "registered (dim, left, right, gap, equality) = %s; missing or changed: %s" % (
                [(a, b, c, str(d), e) for a, b, c, d, e in got], [(a, b, c, str(d), e) for a, b, c, d, e in miss])
        (r.bad if bad else r.ok)("cluster on rectangle 2 (30 x 18), boundary variables 7 / 8", fn.where(), bad or "")


def _shared_node_expected(spec):
    """spec: name -> (nodes, [child names]); returns ({(cluster, node): set(other clusters)}, {(lca, frozenset((a, b)))}) from all pairs of paths."""
    paths = {}

    def rec(nm, path):
        path = path + [nm]
        for c in spec[nm][1]:
            rec(c, path)
        for n in spec[nm][0]:
            paths.setdefault(n, []).append(path)
    rec("root", [])
    repl, exc = {}, set()
    for n, ps in paths.items():
        for a in range(len(ps)):
            for b in range(a):
                pa, pb = ps[a], ps[b]
                k = 0
                while k < len(pa) and k < len(pb) and pa[k] == pb[k]:
                    k += 1
                ca = pa[k] if k < len(pa) else None
                cb = pb[k] if k < len(pb) else None
                exc.add((pa[k - 1], frozenset((ca or ("node", n), cb or ("node", n)))))
                if ca and cb:
                    repl.setdefault((ca, n), set()).add(cb)
                    repl.setdefault((cb, n), set()).add(ca)
    return repl, exc


def _nonoverlap_groups(prog, spec, objs, want, n_nodes):
    """Interprets the `if (noc)` block of recGenerateClusterVariablesAndConstraints for each cluster; returns None or the first deviation:
    group(varId) must hold every member node and every child cluster plus every cluster that stands in for a shared node."""
    fn = prog.fn("cola::ConstrainedFDLayout::recGenerateClusterVariablesAndConstraints")
    blk = [n for n in fn.nodes() if n.get("k") == "IfStmt" and norm(n["cond"]) == "noc"]
    if len(blk) != 1:
        raise AnalysisBroken("recGenerateClusterVariablesAndConstraints: the `if (noc)` block was not found")
    pd = {}
    for p_ in fn.params:
        t_ = str(p_.get("t", ""))
        if "NonOverlapConstraints" in t_:
            pd["noc"] = p_["did"]
        elif t_.replace("cola::", "").strip() == "Cluster *":
            pd["cluster"] = p_["did"]
    if "cluster" not in pd or "noc" not in pd:
        raise AnalysisBroken("recGenerateClusterVariablesAndConstraints: parameters (Cluster *, NonOverlapConstraints *) not found")
    nocname = [p_["name"] for p_ in fn.params if p_["did"] == pd["noc"]][0]
    blk = [n for n in fn.nodes() if n.get("k") == "IfStmt" and norm(n["cond"]) == nocname]
    if len(blk) != 1:
        raise AnalysisBroken("recGenerateClusterVariablesAndConstraints: the `if (noc)` block was not found")
    for nm, o in objs.items():
        shapes, clusters = [], []
        hooks = {"cola::NonOverlapConstraints::addShape": lambda it, n, env: shapes.append((int(it.ev(call_args(n)[0], env)), int(it.ev(call_args(n)[3], env)))),
                 "cola::NonOverlapConstraints::addCluster": lambda it, n, env: clusters.append((it.ev(call_args(n)[0], env), int(it.ev(call_args(n)[1], env)))),
                 "vpsc::Rectangle::width": lambda it, n, env: Fraction(10), "vpsc::Rectangle::height": lambda it, n, env: Fraction(10)}
        it = Interp(prog, Oracle([]), hooks=hooks, max_steps=200000)
        this = Obj("cola::ConstrainedFDLayout", {"boundingBoxes": Vec([Obj("vpsc::Rectangle", {}) for _ in range(n_nodes)], "vpsc::Rectangle *")})
        env = {pd["cluster"]: Box(o), pd["noc"]: Box(Obj("cola::NonOverlapConstraints", {})), "this": this}
        try:
            it.ex(blk[0]["then"], env)
        except Unsupported as e:
            raise AnalysisBroken("non-overlap block of recGenerateClusterVariablesAndConstraints outside the interpreter subset (cluster %s): %s" % (nm, e))
        grp = o.f["clusterVarId"]
        if any(c is None for c, _ in clusters):
            return "cluster %s: addCluster(nullptr, ...)" % nm
        got_nodes = sorted(i for i, g_ in shapes if g_ == grp)
        if got_nodes != sorted(spec[nm][0]):
            return "cluster %s: its non-overlap group holds the nodes %s, expected its members %s" % (nm, got_nodes, sorted(spec[nm][0]))
        got_cl = sorted(c.f["_name"] for c, g_ in clusters if g_ == grp)
        want_cl = set(spec[nm][1])
        for n_ in spec[nm][0]:
            want_cl |= want.get((nm, n_), set())
        if got_cl != sorted(want_cl):
            return ("cluster %s: its non-overlap group holds the clusters %s, expected its child clusters and every cluster standing in for a shared "
                    "node: %s -- the members of %s may end up inside %s" % (nm, got_cl, sorted(want_cl), nm, sorted(want_cl - set(got_cl))))
        got_rep = sorted(i for i, g_ in shapes if g_ == grp + 1)
        want_rep = sorted(n_ for (c_, n_) in want if c_ == nm)      # members of nm or of a cluster below it
        if got_rep != want_rep:
            return "cluster %s: the replaced nodes kept apart from each other are %s, expected %s" % (nm, got_rep, want_rep)
    return None


_SHARED_HIER = [
    ("node 0 shared by two sibling clusters", {"root": ([], ["J", "K"]), "J": ([0, 1], []), "K": ([0, 2], [])}, 3),
    ("node 0 shared by THREE sibling clusters", {"root": ([], ["J", "K", "L"]), "J": ([0, 1], []), "K": ([0, 2], []), "L": ([0, 3], [])}, 4),
    ("nodes 0 and 1 shared by different pairs of three clusters", {"root": ([4], ["J", "K", "L"]), "J": ([0, 1], []), "K": ([0, 2], []), "L": ([1, 3], [])}, 5),
    ("node 0 a child of cluster C and of C's parent (the root)", {"root": ([0, 2], ["C"]), "C": ([0, 1], [])}, 3),
    ("two disjoint pairs of clusters share a node each", {"root": ([], ["J", "K", "L", "M"]), "J": ([0, 1], []), "K": ([0, 2], []), "L": ([3, 4], []), "M": ([3, 5], [])}, 6),
]
# Not modelled: sharing below a non-root parent or across depths.  The library reports unsatisfiable constraints for every such hierarchy
# (100 of 100 random layouts each), so C08's precondition never holds there and nothing about them is a necessary condition of C08.


def rule_shared_node_twins(chk, prog):
    from ..microai.interp import default_obj, MapVal
    r = chk.rule("SHARED-NODE-TWINS", "RootCluster::calculateClusterPathsToEachNode interpreted on small cluster hierarchies in which a node has several "
                 "parents (two and THREE sibling clusters sharing a node, different pairs sharing different nodes, a node that is a child of a cluster "
                 "and of its parent, two disjoint sharing pairs): for every pair of paths to a node whose branches below "
                 "the lowest common ancestor are clusters A and B, A's replacement entry for the node names B and B's names A (all of them, no entry "
                 "lost to a later pair, none null, none extra), the node is in both clusters' replaced sets, and the ancestor exempts the pair from "
                 "cluster-cluster non-overlap; RectangularCluster::clusterIsFromFixedRectangle is true for every rectangle index >= 0, index 0 "
                 "included.  The second pass of ConstrainedFDLayout::recGenerateClusterVariablesAndConstraints (the `if (noc)` block), interpreted on that "
                 "state for every cluster: its non-overlap group holds exactly its member nodes, its child clusters and every stand-in cluster", floor=11)
    fn = prog.fn("cola::RootCluster::calculateClusterPathsToEachNode")
    for name, spec, n_nodes in _SHARED_HIER:
        objs = {}

        def mk(nm):
            kids = [mk(c) for c in spec[nm][1]]
            o = default_obj(prog, "cola::RootCluster" if nm == "root" else "cola::RectangularCluster",
                            {"nodes": SetVal(list(spec[nm][0])), "clusters": Vec(kids, "cola::Cluster *"), "m_rectangle_index": -1})
            o.f["_name"] = nm
            objs[nm] = o
            return o
        root = mk("root")
        for k, nm in enumerate(sorted(objs)):
            objs[nm].f["clusterVarId"] = 100 + 2 * k
        it = Interp(prog, Oracle([]), max_steps=400000)
        r.count()
        try:
            it.call(fn, root, None, None, arg_values=[n_nodes])
        except Unsupported as e:
            raise AnalysisBroken("calculateClusterPathsToEachNode outside the interpreter subset (%s): %s" % (name, e))
        except AssertFail as e:
            r.bad(name, fn.where(), "assertion fails: %s" % e)
            continue
        want, want_exc = _shared_node_expected(spec)
        bad = None
        for nm, o in objs.items():
            mp = o.f.get("m_overlap_replacement_map")
            got = {}
            for key, val in (mp.d.items() if isinstance(mp, MapVal) else []):
                vals = val.items if isinstance(val, Vec) else [val]
                got[int(key)] = vals
            for n_, vals in got.items():
                if any(v is None for v in vals):
                    bad = bad or "cluster %s records a NULL replacement cluster for node %d (NonOverlapConstraints::addCluster dereferences it)" % (nm, n_)
                names = {v.f["_name"] for v in vals if v is not None}
                extra = names - want.get((nm, n_), set())
                if extra:
                    bad = bad or "cluster %s replaces node %d by %s, which shares no such pair of paths" % (nm, n_, sorted(extra))
            for (c, n_), others in want.items():
                if c != nm:
                    continue
                names = {v.f["_name"] for v in got.get(n_, []) if v is not None}
                if others - names:
                    bad = bad or ("cluster %s: node %d is also a member of %s, but the replacement entry names only %s -- the exclusive nodes of %s "
                                  "get no non-overlap constraints against %s" % (nm, n_, sorted(others), sorted(names), nm, sorted(others - names)))
                rep = o.f.get("m_nodes_replaced_with_clusters")
                if rep is None or n_ not in {int(x) for x in rep.items}:
                    bad = bad or "cluster %s: shared node %d is not in m_nodes_replaced_with_clusters" % (nm, n_)
        for lca, pair in want_exc:
            ids = sorted((objs[x].f["clusterVarId"] if not isinstance(x, tuple) else x[1]) for x in pair)
            if len(ids) == 1:
                ids = ids * 2
            ex = objs[lca].f.get("m_cluster_cluster_overlap_exceptions")
            have = {tuple(sorted((int(sp.f["m_index1"]), int(sp.f["m_index2"])))) for sp in (ex.items if ex is not None else [])}
            if tuple(ids) not in have:
                bad = bad or "cluster %s does not exempt the overlapping pair %s from non-overlap (has %s)" % (lca, ids, sorted(have))
        (r.bad if bad else r.ok)(name, fn.where(), bad or "")
        # consumer side: the second pass of recGenerateClusterVariablesAndConstraints (`if (noc) {...}`) interpreted as a fragment for
        # every non-root cluster of the hierarchy, on the state calculateClusterPathsToEachNode has just produced
        bad2 = _nonoverlap_groups(prog, spec, objs, want, n_nodes)
        r.count()
        (r.bad if bad2 else r.ok)(name + " -- non-overlap groups", prog.fn("cola::ConstrainedFDLayout::recGenerateClusterVariablesAndConstraints").where(), bad2 or "")
    fx = prog.fn("cola::RectangularCluster::clusterIsFromFixedRectangle")
    r.count()
    res = {}
    for idx in (-1, 0, 3):
        it = Interp(prog, Oracle([]))
        try:
            res[idx] = bool(it.call(fx, Obj("cola::RectangularCluster", {"m_rectangle_index": idx}), None, None, arg_values=[]))
        except Unsupported as e:
            raise AnalysisBroken("clusterIsFromFixedRectangle outside the interpreter subset: %s" % e)
    want = {-1: False, 0: True, 3: True}
    (r.ok if res == want else r.bad)("clusterIsFromFixedRectangle", fx.where(), "" if res == want else
                                     "answers %s for rectangle indices -1 / 0 / 3, expected %s: a cluster built on rectangle 0 is registered as an ordinary cluster" % (res, want))


def rule_containment_members(chk, prog):
    from ..microai.interp import default_obj
    F = Fraction
    r = chk.rule("CONTAINMENT-COVERS-MEMBERS", "the ClusterContainmentConstraints constructor interpreted whole on clusters with (a) no nodes of "
                 "their own but two child clusters, (b) two nodes and one child cluster, (c) one node only: the sub-constraints it records are "
                 "exactly, for every node AND every child cluster, in each dimension, one `above the low boundary variable` and one `below the "
                 "high boundary variable` entry with the member's half extent (nodes) or margin (child clusters) plus the cluster's padding on "
                 "that side -- a child cluster without such entries is free to leave (and its content to overlap what is outside) the parent", floor=3)
    fns = [f for f in prog.fns("cola::ClusterContainmentConstraints::ClusterContainmentConstraints") if f.body]
    if len(fns) != 1:
        raise AnalysisBroken("ClusterContainmentConstraints constructor not found")
    fn = fns[0]

    def bx(a, b, c, d):
        return default_obj(prog, "cola::Box", {"m_min": Vec([F(a), F(b)], "double"), "m_max": Vec([F(c), F(d)], "double")})

    def cl(vid, nodes, kids, pad, mar):
        return default_obj(prog, "cola::RectangularCluster", {"nodes": SetVal(set(nodes)), "clusters": Vec(kids, "cola::Cluster *"),
                                                               "clusterVarId": vid, "m_padding": pad, "m_margin": mar})

    def rect(w, h):
        return default_obj(prog, "vpsc::Rectangle", {"minX": F(0), "maxX": F(w), "minY": F(0), "maxY": F(h)})
    dims = [(10, 20), (30, 40)]
    pad = (1, 10, 100, 1000)
    cases = [("no own nodes, two child clusters", [], [(10, (1, 2, 3, 4)), (12, (5, 6, 7, 8))]),
             ("two nodes and a child cluster", [0, 1], [(10, (1, 2, 3, 4))]),
             ("one node only", [1], [])]
    for name, nodes, kids in cases:
        r.count()
        kobjs = [cl(vid, [], [], bx(0, 0, 0, 0), bx(*m)) for vid, m in kids]
        c = cl(20, nodes, kobjs, bx(*pad), bx(0, 0, 0, 0))
        this = default_obj(prog, "cola::ClusterContainmentConstraints", {"_subConstraintInfo": Vec([], "cola::SubConstraintInfo *")})
        it = Interp(prog, Oracle([]), max_steps=400000)
        bad = None
        try:
            it.call(fn, this, None, None, arg_values=[c, 30000, Box(Vec([rect(*d) for d in dims], "vpsc::Rectangle *"))])
        except Unsupported as e:
            raise AnalysisBroken("ClusterContainmentConstraints constructor outside the interpreter subset: %s" % e)
        except AssertFail as e:
            bad = "assertion fails: %s" % e
        if not bad:
            got = sorted((x.f["varIndex"], x.f["dim"], F(x.f["offset"]), x.f["boundarySide"], x.f["boundaryVar"]) for x in this.f["_subConstraintInfo"].items)
            want = []
            for i in nodes:
                for d in (0, 1):
                    want.append((i, d, F(dims[i][d]) / 2 + pad[d], 1, 20))
                    want.append((i, d, F(dims[i][d]) / 2 + pad[2 + d], -1, 21))
            for vid, m in kids:
                for d in (0, 1):
                    want.append((vid, d, F(pad[d] + m[d]), 1, 20))
                    want.append((vid + 1, d, F(pad[2 + d] + m[2 + d]), -1, 21))
            want.sort()
            if got != want:
                miss = [w for w in want if w not in got]
                extra = [g for g in got if g not in want]
                bad = "%d sub-constraints recorded, %d expected; missing (variable, dim, offset, side, boundary variable) %s; unexpected %s" % (
                    len(got), len(want), [tuple(str(x) for x in m_) for m_ in miss[:3]], [tuple(str(x) for x in m_) for m_ in extra[:3]])
            elif this.f.get("_combineSubConstraints") is not True:
                bad = "_combineSubConstraints is not set: only one of the sub-constraints would be applied per pass"
        (r.bad if bad else r.ok)(name, fn.where(), bad or "")


def run(chk):
    prog = chk.load()
    chk.guard(rule_containment_members, chk, prog)
    chk.guard(rule_pairs, chk, prog)
    chk.guard(rule_exempt, chk, prog)
    chk.guard(rule_form, chk, prog)
    chk.guard(rule_sites, chk, prog)
    chk.guard(rule_wiring, chk, prog)
    chk.guard(rule_cluster_geometry, chk, prog)
    chk.guard(rule_fixed_rect, chk, prog)
    chk.guard(rule_shared_node_twins, chk, prog)
