"""C09 -- removeoverlaps: sizes kept, borders restored, constraint gaps are half-extent sums.

Decides:
  PAIRED-BORDERS   at every normal exit of removeoverlaps the last store to each global border is a restore
  MOVERS-AFFINE    every Rectangle mover is size-preserving and places the rectangle where asked
                   (symbolic evaluation over minX,maxX,minY,maxY,xBorder,yBorder,arguments)
  WRITERS-REACH    the only writers of a Rectangle's extent reachable from removeoverlaps are those movers
  GAP-SHAPE        every constraint built by generateX/YConstraints is  left + (ext(a)+ext(b))/2 <= right  over the
                   two scan-line neighbours, extents of the right dimension, the neighbour on the left side
  ORDER-NO-ADDR    the scan-line comparator breaks ties on variable ids before falling back to addresses
Not decided: that the generated constraint set removes all overlap for all inputs; "fixed move < 1 %".
"""
import re
from fractions import Fraction

from ..astq import (strip, strip_casts, calls, call_args, writes, written_field, norm, single_assignment_locals,
                    literal_value, src)
from ..callgraph import CallGraph
from ..cfg import CFG
from ..facts import AnalysisBroken
from ..microai.interp import Interp, Obj, Box, Oracle, enumerate_paths, AssertFail, Thrown, Unsupported
from ..microai.poly import Poly, to_poly

RO = "vpsc::removeoverlaps"


def numeric_locals(fn):
    sal = single_assignment_locals(fn)
    out = {}
    for n in fn.nodes():
        if n.get("k") == "VarDecl" and n.get("did") in sal and n.get("t", "").replace("const ", "") in ("double", "float", "int", "unsigned int"):
            out[n["did"]] = sal[n["did"]]
    return out


def rule_paired_borders(chk, prog):
    r = chk.rule("PAIRED-BORDERS", "in removeoverlaps(rs, fixed, thirdPass) every call Rectangle::set{X,Y}Border(v) with v other than the "
                 "entry-time border is followed on every normal path to the exit by set{X,Y}Border(<local initialised from the border "
                 "at entry and never reassigned>); the changes happen inside a try block that has a catch-all handler, and every handler "
                 "puts both borders back before it rethrows or falls through (the solver can throw while the border is enlarged)", floor=5)
    fn = prog.fn(RO, sig="bool")
    g = CFG(fn)
    sal = single_assignment_locals(fn)
    for axis in ("x", "y"):
        setter = "vpsc::Rectangle::set%sBorder" % axis.upper()
        static = "vpsc::Rectangle::%sBorder" % axis
        saved = set()
        for n in fn.nodes():
            if n.get("k") == "VarDecl" and n.get("did") in sal:
                i = strip_casts(sal[n["did"]])
                if i is not None and i.get("ref") == static:
                    if n.get("static") or n.get("sc") == "static":
                        # a static local is initialised on the FIRST call only: it is not the border at entry of later calls
                        r.count()
                        r.bad("%s-border saved per call" % axis, fn.loc(n), "`%s` is a static local: it holds %s as it was on the first call of "
                              "the process, and later calls restore (and compute with) that stale value" % (n.get("name"), static))
                        continue
                    saved.add(n["did"])
        sets = [n for n in calls(fn) if n.get("cname") == setter]
        direct = [node for lhs, node, op in writes(fn) if written_field(lhs)[0] == static]
        if not saved:
            r.bad("%s-border" % axis, fn.where(), "no local saves %s at entry" % static)
            continue
        restoring, modifying = [], []
        for c in sets:
            a = strip_casts(call_args(c)[0])
            if a is not None and a.get("k") == "DeclRefExpr" and a.get("did") in saved:
                restoring.append(c)
            else:
                modifying.append(c)
        # every value ever given to this axis' border derives from this axis' saved border (plus constants)
        other = "vpsc::Rectangle::%sBorder" % ("y" if axis == "x" else "x")
        other_saved = set()
        for n in fn.nodes():
            if n.get("k") == "VarDecl" and n.get("did") in sal:
                i = strip_casts(sal[n["did"]])
                if i is not None and i.get("ref") == other:
                    other_saved.add(n["did"])
        for c in sets:
            from ..facts import walk as _walk
            refs = [x for x in _walk(call_args(c)[0]) if x.get("k") == "DeclRefExpr" and x.get("rk") in ("Var", "ParmVar")]
            wrong = [x for x in refs if x.get("did") in other_saved or x.get("ref") == other]
            own = [x for x in refs if x.get("did") in saved]
            if wrong or not own:
                r.bad("%s-border value" % axis, fn.loc(c), "%s is given `%s`, which is not derived from the %s border saved at entry" % (
                    setter.split("::")[-1], src(call_args(c)[0]), axis))
        modifying += direct
        if not modifying:
            raise AnalysisBroken("removeoverlaps no longer modifies the %s border: rule has no instance" % axis)
        bad = None
        for m in modifying:
            r.count()
            w = g.must_follow(m["id"], [c["id"] for c in restoring])
            if w is not None:
                bad = (m, w)
                break
        if bad:
            r.bad("%s-border" % axis, fn.loc(bad[0]), "after %s the function can return along %s without restoring the %s border"
                  % (src(bad[0]), g.describe(bad[1]), axis))
        else:
            r.ok("%s-border" % axis, fn.where(), "%d modifying, %d restoring calls" % (len(modifying), len(restoring)))
            chk.sample({"rule": "PAIRED-BORDERS", "axis": axis, "modifying_calls": [fn.loc(m) for m in modifying],
                        "restoring_calls": [fn.loc(c) for c in restoring]})
        # exceptional exits: the solver may throw (vpsc::UnsatisfiedConstraint) while the border is enlarged
        from ..facts import walk as _walk2
        for m in modifying:
            tries = [a for a in fn.ancestors(m) if a.get("k") == "CXXTryStmt"]
            r.count()
            inst = "%s-border restored when an exception leaves the pass (line %s)" % (axis, fn.loc(m).rsplit(":", 1)[-1])
            if not tries:
                r.bad(inst, fn.loc(m), "the border is changed outside any try block: an exception from the solver leaves it changed for the rest of the process")
                continue
            hs = tries[0].get("handlers", [])
            if not any(h.get("ct") in (None, "<null>") and h.get("var") is None for h in hs):
                r.bad(inst, fn.loc(tries[0]), "the try block has no catch-all handler: an exception of another type (vpsc::UnsatisfiedConstraint) "
                      "leaves the function with the %s border still enlarged" % axis)
                continue
            lacking = None
            for h in hs:
                top = [x for x in (h.get("body") or {}).get("ch", [])]
                ok_ = False
                for st in top:
                    st_ = strip(st)
                    if st_ is not None and st_.get("cname") == setter:
                        a = strip_casts(call_args(st_)[0])
                        if a is not None and a.get("k") == "DeclRefExpr" and a.get("did") in saved:
                            ok_ = True
                    if st_ is not None and st_.get("k") in ("CXXThrowExpr", "ReturnStmt") and not ok_:
                        break
                if not ok_:
                    lacking = h
            if lacking is not None:
                r.bad(inst, fn.loc(lacking), "this handler does not put the %s border back (unconditionally, before it rethrows / falls through)" % axis)
            else:
                r.ok(inst, fn.loc(tries[0]), "%d handlers" % len(hs))


SYMS = ["minX", "maxX", "minY", "maxY"]


PROG = [None]


def sym_rect():
    from ..microai.interp import default_obj
    mk = (lambda c, f: default_obj(PROG[0], c, f)) if PROG[0] is not None else Obj
    return mk("vpsc::Rectangle", {"minX": Poly.var("minX"), "maxX": Poly.var("maxX"), "minY": Poly.var("minY"),
                                    "maxY": Poly.var("maxY"), "overlap": False})


def run_method(prog, fn, this, args):
    """All paths of a Rectangle method on a symbolic rectangle; returns [(this', retval, outcome-kind)]."""
    import copy
    res = []

    def run(o):
        it = Interp(prog, o, lattice=False, globals={"vpsc::Rectangle::xBorder": Box(Poly.var("xB")),
                                                     "vpsc::Rectangle::yBorder": Box(Poly.var("yB"))})
        t = copy.deepcopy(this)
        try:
            rv = it.call(fn, t, None, None, arg_values=[copy.deepcopy(a) for a in args])
            return ("ret", t, rv)
        except AssertFail as e:
            return ("assert", t, str(e))
        except Thrown as e:
            return ("throw", t, str(e))
    for val, descr, out in enumerate_paths(run, limit=500):
        res.append((val, descr, out))
    return res


def getters(prog, rect):
    """Symbolic width/height/centre/min of a rectangle state, through the library's own getters."""
    out = {}
    for nm in ("width", "height", "getCentreX", "getCentreY", "getMinX", "getMinY", "getMaxX", "getMaxY"):
        fn = prog.fn("vpsc::Rectangle::" + nm)
        rows = run_method(prog, fn, rect, [])
        if len(rows) != 1 or rows[0][2][0] != "ret":
            raise AnalysisBroken("Rectangle::%s is not straight-line" % nm)
        out[nm] = to_poly(rows[0][2][2])
    return out


def rule_movers(chk, prog):
    r = chk.rule("MOVERS-AFFINE", "symbolic evaluation of each Rectangle mover over (minX,maxX,minY,maxY,xBorder,yBorder,args): "
                 "width' = width, height' = height, the requested coordinate is attained, the other axis is untouched, and the mover's own "
                 "size assertion cannot fail", floor=7)
    rect = sym_rect()
    before = getters(prog, rect)
    x, y = Poly.var("argx"), Poly.var("argy")
    cases = [
        ("moveMinX", [x], {"getMinX": x}, "Y"),
        ("moveMinY", [y], {"getMinY": y}, "X"),
        ("moveCentreX", [x], {"getCentreX": x}, "Y"),
        ("moveCentreY", [y], {"getCentreY": y}, "X"),
        ("moveCentre", [x, y], {"getCentreX": x, "getCentreY": y}, None),
        ("moveCentreD", [0, x], {"getCentreX": x}, "Y"),
        ("moveCentreD", [1, y], {"getCentreY": y}, "X"),
        ("offset", [x, y], {"getMinX": before["getMinX"] + x, "getMinY": before["getMinY"] + y}, None),
    ]
    for name, args, expect, untouched in cases:
        fn = prog.fn("vpsc::Rectangle::" + name)
        inst = "%s(%s)" % (name, ", ".join(str(a) for a in args))
        try:
            rows = run_method(prog, fn, rect, args)
        except Unsupported as e:
            raise AnalysisBroken("Rectangle::%s outside the interpreter's subset: %s" % (name, e))
        r.count(len(rows))
        problem = None
        for val, descr, out in rows:
            if out[0] != "ret":
                problem = "can fail its own assertion (%s) when %s" % (out[2], {descr[k]: val[k] for k in val})
                break
            after = getters(prog, out[1])
            if after["width"] != before["width"]:
                problem = "changes the width: %r -> %r" % (before["width"], after["width"])
            elif after["height"] != before["height"]:
                problem = "changes the height: %r -> %r" % (before["height"], after["height"])
            else:
                for gname, want in expect.items():
                    if after[gname] != to_poly(want):
                        problem = "%s afterwards is %r, requested %r" % (gname, after[gname], to_poly(want))
                if untouched == "Y" and (out[1].f["minY"] != rect.f["minY"] or out[1].f["maxY"] != rect.f["maxY"]):
                    problem = "writes the vertical extent"
                if untouched == "X" and (out[1].f["minX"] != rect.f["minX"] or out[1].f["maxX"] != rect.f["maxX"]):
                    problem = "writes the horizontal extent"
            if problem:
                break
        if problem:
            r.bad(inst, fn.where(), "Rectangle::%s %s" % (name, problem))
        else:
            r.ok(inst, fn.where())
    chk.sample({"rule": "MOVERS-AFFINE", "mover": "moveMinX(argx)", "symbolic_state_after": "minX=argx+xB, maxX=argx+(maxX-minX+2xB)-xB",
                "checked": "width'==width, getMinX'==argx"})


EXTENT = {"vpsc::Rectangle::minX", "vpsc::Rectangle::maxX", "vpsc::Rectangle::minY", "vpsc::Rectangle::maxY"}
ALLOWED_WRITERS = {"vpsc::Rectangle::moveMinX", "vpsc::Rectangle::moveMinY"}


def rule_writers_reach(chk, prog, cg):
    r = chk.rule("WRITERS-REACH", "among the functions reachable from removeoverlaps in the call graph, the only writers of "
                 "Rectangle::{minX,maxX,minY,maxY} are moveMinX / moveMinY (proved size-preserving by MOVERS-AFFINE)", floor=2)
    root = prog.fn(RO, sig="bool")
    reach = cg.reachable([root.key])
    writers = {}
    for k in reach:
        f = prog.by_key.get(k)
        if f is None or f.body is None or f.kind == "ctor":
            continue
        for lhs, node, op in writes(f):
            fq, elem, mn = written_field(lhs)
            if fq in EXTENT:
                writers.setdefault(f.q, (f, node))
    r.count(len(reach))
    seen_allowed = 0
    for q, (f, node) in sorted(writers.items()):
        if q in ALLOWED_WRITERS:
            seen_allowed += 1
            r.ok(q, f.where())
        else:
            path = cg.path(root.key, lambda k: prog.by_key.get(k) is not None and prog.by_key[k].q == q)
            r.bad(q, f.loc(node), "writes a rectangle extent and is reachable from removeoverlaps via %s; only size-preserving movers may be"
                  % " -> ".join(p.split("(")[0] for p in (path or [])))
    if seen_allowed < 2:
        raise AnalysisBroken("moveMinX/moveMinY no longer reachable from removeoverlaps")
    chk.extra["functions_reachable_from_removeoverlaps"] = len(reach)


GAP_RE = re.compile(r"^\(\((\w+)\.r\.(width|height)\(\) \+ (\w+)\.r\.(width|height)\(\)\) / 2\)$")


def provenance(fn, var_node_did, sal):
    """'left' / 'right': which side of the closing node a neighbour local comes from."""
    init = sal.get(var_node_did)
    text = norm(init) if init is not None else ""
    if "firstAbove" in text:
        return "left"
    if "firstBelow" in text:
        return "right"
    if "leftNeighbours" in text:
        return "left"
    if "rightNeighbours" in text:
        return "right"
    # iterator-derived: look at the enclosing for statement
    decl = None
    for n in fn.nodes():
        if n.get("k") == "VarDecl" and n.get("did") == var_node_did:
            decl = n
    if decl is None:
        return None
    for a in fn.ancestors(decl):
        if a.get("k") == "ForStmt":
            t = norm(a.get("init")) if a.get("init") is not None and a["init"].get("k") != "DeclStmt" else ""
            if a.get("init") is not None and a["init"].get("k") == "DeclStmt":
                t = " ".join(norm(d.get("init")) for d in a["init"].get("decls", []) if d.get("init") is not None)
            t += " " + (norm(a.get("cond")) if a.get("cond") is not None else "")
            if "leftNeighbours" in t:
                return "left"
            if "rightNeighbours" in t:
                return "right"
    return None


def rule_gap_shape(chk, prog):
    r = chk.rule("GAP-SHAPE", "every `new Constraint(L, R, gap)` in generateXConstraints / generateYConstraints has L = a.v, R = b.v for two "
                 "scan-line nodes, gap = (a.r.EXT() + b.r.EXT())/2 with EXT = width in X and height in Y, and the neighbour taken from the "
                 "left/above side is the left-hand variable", floor=6)
    for fq, ext in (("vpsc::generateXConstraints", "width"), ("vpsc::generateYConstraints", "height")):
        fn = prog.fn(fq)
        nl = numeric_locals(fn)
        sal = single_assignment_locals(fn)
        k = 0
        for n in fn.nodes():
            if n.get("k") != "CXXNewExpr" or n.get("at") != "vpsc::Constraint":
                continue
            ctor = [c for c in n.get("ch", []) if c.get("k") == "CXXConstructExpr"]
            if not ctor:
                continue
            args = ctor[0].get("ch", [])
            k += 1
            inst = "%s#%d" % (fq, k)
            L, R, gap = norm(args[0]), norm(args[1]), norm(args[2], nl)
            m = GAP_RE.match(gap)
            why = None
            if not (L.endswith(".v") and R.endswith(".v")):
                why = "arguments are %s, %s: not the solver variables of two scan-line nodes" % (L, R)
            elif not m:
                why = "gap `%s` is not (a.r.%s() + b.r.%s())/2" % (gap, ext, ext)
            else:
                a, e1, b, e2 = m.groups()
                if e1 != ext or e2 != ext:
                    why = "gap uses %s/%s, the %s pass must use %s" % (e1, e2, fq.split("generate")[1][0], ext)
                elif {a, b} != {L[:-2], R[:-2]}:
                    why = "gap is computed from nodes {%s,%s} but the constraint is between {%s,%s}" % (a, b, L[:-2], R[:-2])
                else:
                    # side: the operand that is not the closing node `v`
                    lhs_strip = strip_casts(args[0])
                    rhs_strip = strip_casts(args[1])

                    def base_did(x):
                        x = strip_casts(x)
                        if x is not None and x.get("k") == "MemberExpr":
                            b0 = strip_casts(x["ch"][0])
                            if b0 is not None and b0.get("k") == "DeclRefExpr":
                                return b0.get("did")
                        return None
                    dl, dr = base_did(lhs_strip), base_did(rhs_strip)
                    pl, pr = provenance(fn, dl, sal), provenance(fn, dr, sal)
                    if pl == "right" or pr == "left":
                        why = "the neighbour on the %s side is placed on the %s of the constraint" % (
                            "right" if pl == "right" else "left", "left" if pl == "right" else "right")
                    elif pl is None and pr is None:
                        why = "cannot establish which side the neighbour node comes from"
            if not why:
                from ..rules.guards import path_condition, atoms, show
                pc = path_condition(fn, n, inline=False)
                extra = []
                for a_ in atoms(pc):
                    t = a_.replace(" ", "")
                    if t in ("(e.type==vpsc::Open)", "useNeighbourLists", "(l!=nullptr)", "(r!=nullptr)", "(l!=__null)", "(r!=__null)"):
                        continue
                    if ".end()" in t or t.startswith("(i<"):
                        continue
                    extra.append(a_)
                if extra:
                    why = "the constraint is only generated when %s: scan-line neighbours can be left without a separation constraint" % extra
            if why:
                r.bad(inst, fn.loc(n), why)
            else:
                r.ok(inst, fn.loc(n), "%s + %s <= %s" % (L, gap, R))
                if k == 1:
                    chk.sample({"rule": "GAP-SHAPE", "site": fn.loc(n), "left": L, "right": R, "gap": gap})
        if k == 0:
            raise AnalysisBroken("%s builds no constraints" % fq)


def rule_order(chk, prog):
    from ..rules import ptrorder
    r = chk.rule("ORDER-NO-ADDR", "the scan-line comparator vpsc::CmpNodePos orders by position, then by a data key; an address comparison "
                 "may only be the final fallback after an id comparison", floor=1)
    ptrorder.check_comparator(r, prog, "vpsc::CmpNodePos::operator()")


def rule_neighbour_twins(chk, prog):
    r = chk.rule("NEIGHBOUR-TWINS", "getLeftNeighbours / getRightNeighbours (the neighbour lists of the first horizontal pass) classify a scan-line "
                 "node by the same tests in the same order -- stop at the first node without x-overlap, otherwise take it when overlapX <= "
                 "overlapY -- and differ only in the direction they walk the scan line; single-assignment locals are inlined before comparing", floor=1)
    sides = {}
    for q in ("vpsc::getLeftNeighbours", "vpsc::getRightNeighbours"):
        fn = prog.fn(q)
        sal = {d: i for d, i in single_assignment_locals(fn).items() if i is None or not re.search(r"\bi\b", norm(i))}   # (keep `u = *i` by name)
        loops = [n for n in fn.nodes() if n.get("k") in ("WhileStmt", "ForStmt")]
        if len(loops) != 1:
            raise AnalysisBroken("%s: expected one loop over the scan line" % q)
        from ..facts import walk as _walk
        steps = []
        for n in _walk(loops[0]["body"]):
            if n.get("k") == "IfStmt":
                cond = norm(n["cond"], sal)
                body = n.get("then") or {}
                acts = []
                for x in _walk(body):
                    if x.get("k") == "ReturnStmt":
                        acts.append("return")
                    elif x.get("k") == "CXXMemberCallExpr" and str(x.get("cname", "")).endswith("::insert"):
                        acts.append("insert(%s)" % norm(call_args(x)[0], sal))
                steps.append((re.sub(r"\b(left|right)v\b", "V", cond), tuple(acts), n.get("else") is not None))
        sides[q] = (fn, steps)
    (fl, sl), (fr, sr) = sides["vpsc::getLeftNeighbours"], sides["vpsc::getRightNeighbours"]
    r.count()
    if not sl:
        raise AnalysisBroken("getLeftNeighbours: no classification tests found")
    if sl != sr:
        diff = [(a, b) for a, b in zip(sl, sr) if a != b] or [(sl, sr)]
        r.bad("left / right neighbour classification", fr.where(), "the two walks classify differently: left %s, right %s" % (diff[0][0], diff[0][1]))
    else:
        r.ok("left / right neighbour classification", fl.where(), "%d tests" % len(sl))


def rule_copyback(chk, prog):
    """Every solved position reaches its rectangle."""
    from ..facts import walk
    from ..astq import call_object
    r = chk.rule("RESULT-COPYBACK", "removeoverlaps: after each of its solves, the loop that copies Variable::finalPosition back moves EVERY rectangle "
                 "(no iteration can skip moveCentreX / moveCentreY), the loop runs over all of vs and rs in step, and the value moved to is that "
                 "variable's finalPosition -- the separation constraints were solved for all variables, the heavily weighted `fixed` ones "
                 "included, so a rectangle left where it was is no longer covered by them; every Solver::solve is followed by such a loop", floor=7)
    fn = [f for f in prog.fns(RO) if len(f.params) == 3]
    if len(fn) != 1:
        raise AnalysisBroken("removeoverlaps(rs, fixed, thirdPass) not found")
    fn = fn[0]
    g = CFG(fn)
    movers = [c for c in calls(fn) if c.get("cname") in ("vpsc::Rectangle::moveCentreX", "vpsc::Rectangle::moveCentreY")]
    if len(movers) < 3:
        raise AnalysisBroken("removeoverlaps: expected three copy-back loops, found %d mover calls" % len(movers))
    publishing = []
    for c in movers:
        loops = [a for a in fn.ancestors(c) if a.get("k") in ("ForStmt", "WhileStmt", "CXXForRangeStmt")]
        r.count()
        inst = "%s at line %s" % (c["cname"].split("::")[-1], fn.loc(c).rsplit(":", 1)[-1])
        if not loops:
            r.bad(inst, fn.loc(c), "the mover is not applied in a loop over the rectangles")
            continue
        lp = loops[0]
        bad = None
        skip = g.iteration_can_skip(lp, [c["id"]])
        if skip is not None:
            bad = "an iteration of the copy-back loop can end without moving its rectangle (%s)" % (skip,)
        cond, inc = norm(lp.get("cond")), norm(lp.get("inc"))
        init = norm(lp.get("init"))
        whole = any(t_ in cond for t_ in ("vs.end()", "rs.end()", ".size()", "< n)")) and "&&" not in cond and "||" not in cond
        if bad is None and not (whole and inc and "begin()" in init or (whole and inc and "= 0" in init)):
            bad = "the loop does not step through all of vs and rs together (init `%s`, cond `%s`, step `%s`)" % (init, cond, inc)
        arg = norm(call_args(c)[0])
        m_arg = re.match(r"^\(?(\w+)\.\*\)?\.finalPosition$", arg)
        if m_arg:
            publishing.append(lp)
        if bad is None and not re.match(r"^\(?\w+\.\*\)?$", norm(call_object(c))):
            bad = "the mover is applied to `%s`, not to the rectangle the loop is at" % norm(call_object(c))
        (r.bad if bad else r.ok)(inst, fn.loc(c), bad or "")
    solves = [c for c in calls(fn) if c.get("cname") == "vpsc::Solver::solve"]
    if len(solves) < 3:
        raise AnalysisBroken("removeoverlaps: expected three solves, found %d" % len(solves))
    for sv in solves:
        r.count()
        heads = [x["id"] for lp_ in publishing for x in walk(lp_.get("cond") or {}) if x.get("id") in g.pos]
        miss = g.must_follow(sv["id"], heads) if heads else "no copy-back loop"
        (r.ok if miss is None else r.bad)("solve at line %s is published" % fn.loc(sv).rsplit(":", 1)[-1], fn.loc(sv), "" if miss is None else
                                         "after this solve a path reaches the end of removeoverlaps without moving the rectangles to the variables' finalPosition (%s)" % (miss,))


def rule_overlap_amount(chk, prog):
    """overlapX / overlapY decide in which dimension the first pass separates a pair: they must be the separation still missing."""
    import itertools
    r = chk.rule("OVERLAP-AMOUNT", "Rectangle::overlapX / overlapY interpreted on every pair of intervals with end points on a grid of 6 (all order "
                 "types of the four end points and the two centres, nested and equal intervals included), borders 0 and 1/2: the value is "
                 "max(0, (extent(u)+extent(v))/2 - |centre(u)-centre(v)|), i.e. by how much the separation constraint that "
                 "generateX/YConstraints emits for the pair is still violated -- for nested rectangles that is MORE than the length of the "
                 "intersection, and the first pass compares the two amounts to choose the cheaper dimension", floor=4)
    from ..microai.interp import default_obj
    for axis in ("X", "Y"):
        fn = prog.fn("vpsc::Rectangle::overlap" + axis)
        for border in (Fraction(0), Fraction(1, 2)):
            n = 0
            bad = None
            ivs = [(a, b) for a in range(6) for b in range(a + 1, 7)]
            for (a, b), (c, d) in itertools.product(ivs, ivs):
                def R(lo, hi):
                    f = {"minX": Fraction(0), "maxX": Fraction(3), "minY": Fraction(0), "maxY": Fraction(3), "overlap": False}
                    f["min" + axis], f["max" + axis] = Fraction(lo), Fraction(hi)
                    return default_obj(prog, "vpsc::Rectangle", f)
                it = Interp(prog, Oracle([]), globals={"vpsc::Rectangle::xBorder": Box(border), "vpsc::Rectangle::yBorder": Box(border)})
                try:
                    got = it.call(fn, R(a, b), None, None, arg_values=[R(c, d)])
                except Unsupported as e:
                    raise AnalysisBroken("Rectangle::overlap%s outside the interpreter subset: %s" % (axis, e))
                n += 1
                want = max(Fraction(0), Fraction(b - a + d - c, 2) + 2 * border - abs(Fraction(a + b, 2) - Fraction(c + d, 2)))
                if Fraction(got) != want and bad is None:
                    bad = "[%d,%d] against [%d,%d] (border %s): returns %s, the pair's separation constraint is violated by %s" % (a, b, c, d, border, got, want)
            r.count(n)
            (r.bad if bad else r.ok)("overlap%s, border %s" % (axis, border), fn.where(), bad or "%d pairs" % n)


def rule_fixed_weight(chk, prog):
    from ..microai.interp import Vec, SetVal
    F = Fraction
    r = chk.rule("FIXED-RECTANGLES-HEAVY", "the variable-creation loop of removeoverlaps(rs, fixed, thirdPass) interpreted as a fragment on three "
                 "rectangles -- 0 free, 1 fixed and overlapping nothing, 2 fixed and overlapping 0 --, with and without the third pass: every "
                 "fixed index gets a variable at least 1000 times as heavy as the free ones, whatever it overlaps at the start (a fixed "
                 "rectangle that overlaps nothing initially is the one a chain of pushes runs into), variable i belongs to rectangle i, and "
                 "the third pass remembers every initial x", floor=2)
    fns = [f for f in prog.fns("vpsc::removeoverlaps") if len(f.params) == 3 and f.body]
    if len(fns) != 1:
        raise AnalysisBroken("removeoverlaps(rs, fixed, thirdPass) not found")
    fn = fns[0]
    news = [n for n in fn.nodes() if n.get("k") == "CXXNewExpr" and "Variable" in str(n.get("at", ""))]
    if len(news) != 1:
        raise AnalysisBroken("removeoverlaps: the creation of the solver variables was not found")
    loops = [a for a in fn.ancestors(news[0]) if a.get("k") == "ForStmt"]
    if not loops:
        raise AnalysisBroken("removeoverlaps: variables are not created in a loop")
    loop = loops[0]
    locs = [d for d in fn.nodes() if d.get("k") == "VarDecl" and not d.get("parm")]
    inside = {x.get("id") for x in walk_(loop)}

    def R(x, X, y, Y):
        return Obj("vpsc::Rectangle", {"minX": F(x), "maxX": F(X), "minY": F(y), "maxY": F(Y), "overlap": False})
    for third in (False, True):
        r.count()
        rs = Vec([R(0, 10, 0, 10), R(100, 110, 0, 10), R(5, 15, 5, 15)], "vpsc::Rectangle *")
        vs = Vec([None, None, None], "vpsc::Variable *")
        env = {fn.params[0]["did"]: Box(rs), fn.params[1]["did"]: Box(SetVal({1, 2})), fn.params[2]["did"]: Box(third)}
        initx = None
        for d in locs:
            if d.get("did") in env:
                continue
            t = d.get("t", "")
            if "Variable *" in t and "vector" in t and "iterator" not in t:
                env[d["did"]] = Box(vs)
            elif "iterator" in t:
                env[d["did"]] = Box(None)
            elif t.startswith("std::vector<double"):
                initx = Vec([F(-1)] * 3, "double")
                env[d["did"]] = Box(initx)
            elif t in ("unsigned int", "const unsigned int", "size_t", "unsigned long", "const size_t", "const unsigned long") and d.get("init") is not None \
                    and "size()" in norm(d["init"]):
                env[d["did"]] = Box(3)          # the number of rectangles, whatever the local is called
            elif t in ("unsigned int", "size_t", "unsigned long", "int"):
                env[d["did"]] = Box(0)
        it = Interp(prog, Oracle([]), globals={"vpsc::Rectangle::xBorder": Box(F(0)), "vpsc::Rectangle::yBorder": Box(F(0))})
        bad = None
        try:
            it.ex(loop, env)
        except Unsupported as e:
            raise AnalysisBroken("variable-creation loop of removeoverlaps outside the interpreter subset: %s" % e)
        except AssertFail as e:
            bad = "assertion fails: %s" % e
        if not bad:
            if any(v is None for v in vs.items):
                bad = "not every rectangle gets a variable"
            else:
                w = [F(v.f["weight"]) for v in vs.items]
                ids = [v.f["id"] for v in vs.items]
                if ids != [0, 1, 2]:
                    bad = "variable ids %s do not follow the rectangle indices" % ids
                elif w[0] <= 0 or w[1] < 1000 * w[0] or w[2] < 1000 * w[0]:
                    bad = "weights %s for (free, fixed overlapping nothing, fixed overlapping): a fixed rectangle is not held" % [str(x) for x in w]
                elif third and initx is not None and [F(x) for x in initx.items] != [F(5), F(105), F(10)]:
                    bad = "initial x positions remembered for the third pass: %s, expected the centres 5, 105, 10" % [str(x) for x in initx.items]
        (r.bad if bad else r.ok)("thirdPass=%s" % str(third).lower(), fn.loc(loop), bad or "")


def walk_(n):
    from ..facts import walk
    return walk(n)


def run(chk):
    prog = chk.load()
    PROG[0] = prog
    chk.guard(rule_fixed_weight, chk, prog)
    cg = CallGraph(prog)
    chk.guard(rule_paired_borders, chk, prog)
    chk.guard(rule_movers, chk, prog)
    chk.guard(rule_writers_reach, chk, prog, cg)
    chk.guard(rule_gap_shape, chk, prog)
    chk.guard(rule_order, chk, prog)
    chk.guard(rule_neighbour_twins, chk, prog)
    chk.guard(rule_copyback, chk, prog)
    chk.guard(rule_overlap_amount, chk, prog)
    from .c01 import rule_solve_uses_satisfy
    chk.guard(rule_solve_uses_satisfy, chk, prog)       # removeoverlaps publishes what Solver::solve leaves in finalPosition
    from ..rules import mirrors
    r = chk.rule("MIRROR", "the X and Y twins of vpsc::Rectangle (getters, overlapX/Y, moveCentreX/Y, set_width/height, borders, "
                 "min/max accessors) and of the scan-line Node stay exact mirror images (tables/mirrors.json)", floor=10)
    mirrors.check(r, prog, ["vpsc::Rectangle::", "vpsc::Node::"], sample=chk.sample)
