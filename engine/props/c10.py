"""C10 -- libavoid nudging: shared paths are separated without moving endpoints: structural clauses.

Decides:
  END-SEGMENTS-FIXED  buildOrthogonalNudgingSegments creates a *shiftable* NudgingShiftSegment (8-argument constructor) only when the
                      segment is not the first/last of its route, or the option nudgeOrthogonalSegmentsConnectedToShapes is on and the
                      segment has room (minLim != maxLim) and the connector has no fixed route; a segment carrying a checkpoint is
                      shiftable only under that option                                     (entailment over path conditions incl. early exits)
  FIXED-STAYS         NudgingShiftSegment::updatePositionsFromSolver writes nothing when `fixed`; otherwise it writes the solver position,
                      clamped to [minSpaceLimit, maxSpaceLimit], to coordinate `dimension` of exactly the points in `indexes` (symbolic);
                      createSolverVariable gives fixed segments fixedWeight / fixedSegmentID and zig-zag segments the channel middle
  NO-GROWTH           no function reachable from ImproveOrthogonalRoutes::nudgeOrthogonalRoutes grows or shrinks a route's point vector
                      during nudging (insert/push_back/resize/erase/clear on a displayRoute().ps), stores into route points are single
                      coordinate stores
  LIMITS-NARROW-ONLY  a nudging segment's movement limits are only tightened (L = max(L, e), U = min(U, e)) after initialisation
  REGION-CLOSURE      a nudging region is closed under overlapsWith (scan restarts whenever the region grows; all members tested)
  MIRROR              lowC/highC and the scan-line Above/Below helpers stay mirror images
Not decided: separation distances, channel-width reasoning, ordering of nudged segments.
"""
import copy
import re
from fractions import Fraction

from ..astq import strip, strip_casts, calls, call_args, call_object, writes, written_field, norm, literal_value, src
from ..callgraph import CallGraph
from ..facts import AnalysisBroken, walk
from ..microai.interp import Interp, Obj, Vec, Box, Oracle, enumerate_paths, AssertFail, Thrown, Unsupported, UNINIT, default_obj
from ..microai.poly import Poly, to_poly
from ..rules.guards import path_condition, atoms, entails, show

OPT = "router.routingOption(Avoid::nudgeOrthogonalSegmentsConnectedToShapes)"


def rule_end_segments(chk, prog):
    r = chk.rule("END-SEGMENTS-FIXED", "buildOrthogonalNudgingSegments: every construction of a shiftable NudgingShiftSegment (the 8-argument "
                 "constructor) is guarded by  !(first or last segment) || (option nudgeOrthogonalSegmentsConnectedToShapes && room to move && "
                 "no fixed route); and by  !(segment has checkpoints) || option", floor=2)
    fn = prog.fn("Avoid::buildOrthogonalNudgingSegments")
    sites = []
    for n in fn.nodes():
        if n.get("k") == "CXXNewExpr" and n.get("at") == "Avoid::NudgingShiftSegment":
            ctor = [c for c in n["ch"] if c.get("k") == "CXXConstructExpr"][0]
            sites.append((n, len(ctor["ch"])))
    if not any(k == 8 for _n, k in sites) or not any(k == 4 for _n, k in sites):
        raise AnalysisBroken("buildOrthogonalNudgingSegments: shiftable / fixed segment constructions not found")
    k = 0
    for n, nargs in sites:
        if nargs != 8:
            continue
        k += 1
        pc = path_condition(fn, n, inline=True, early=True)
        ats = atoms(pc)
        e1 = [a for a in ats if a.replace(" ", "") == "(i==1)"]
        e2 = [a for a in ats if a.replace(" ", "").startswith("((i+1)==") and a.endswith(".size())")]
        end_at = [("or", ("atom", e1[0]), ("atom", e2[0]))] if e1 and e2 else []
        cp_at = [a for a in ats if "checkpointsOnSegment((i - 1)" in a and a.endswith("> 0)")]
        room = [a for a in ats if a.replace(" ", "") == "(minLim==maxLim)"]
        fixedr = [a for a in ats if a.endswith(".hasFixedRoute()")]
        bad = None
        if not end_at:
            bad = "shiftable segment created without regard to whether it is the first/last segment of the route"
        else:
            notend = ("not", end_at[0])
            final_ok = ("and", ("atom", OPT), ("and", ("not", ("atom", room[0])) if room else ("const", False),
                                               ("not", ("atom", fixedr[0])) if fixedr else ("const", False)))
            if not entails(pc, ("or", notend, final_ok)):
                bad = "a first/last segment can become shiftable under %s" % show(pc)[:260]
        if not bad:
            if not cp_at:
                bad = "shiftable segment created without regard to checkpoints on it"
            elif not entails(pc, ("or", ("not", ("atom", cp_at[0])), ("atom", OPT))):
                bad = "a segment carrying a checkpoint can become shiftable without the final-segment option"
        r.count()
        (r.bad if bad else r.ok)("shiftable segment #%d" % k, fn.loc(n), bad or "")
    chk.sample({"rule": "END-SEGMENTS-FIXED", "sites": [fn.loc(n) for n, a in sites if a == 8]})


def rule_fixed_stays(chk, prog):
    r = chk.rule("FIXED-STAYS", "NudgingShiftSegment::updatePositionsFromSolver (symbolic): fixed => route untouched; else every point in "
                 "`indexes` gets coordinate[dimension] = min(max(finalPosition, minSpaceLimit), maxSpaceLimit), the other coordinate and all "
                 "other points unchanged; createSolverVariable: a plain fixed segment gets (fixedSegmentID, fixedWeight), a zig-zag gets the "
                 "middle of its channel; fixedWeight > strongerWeight > strongWeight > freeWeight", floor=3)
    fn = prog.fn("Avoid::NudgingShiftSegment::updatePositionsFromSolver")
    F, lo, hi = Poly.var("F"), Poly.var("lo"), Poly.var("hi")

    def mkroute():
        return Obj("Avoid::Polygon", {"_id": 0, "ps": Vec([Obj("Avoid::Point", {"x": Poly.var("p%d.x" % i), "y": Poly.var("p%d.y" % i), "id": 0, "vn": 8}) for i in range(4)], "Avoid::Point"), "ts": Vec([])})
    for dim, JU in ((0, False), (1, False), (0, True), (1, True)):      # JU: the unifying pre-pass clamps to the channel just the same
        for fixed in (True, False):
            route = mkroute()
            hooks = {"Avoid::ConnRef::displayRoute": lambda it, n, env, route=route: route,
                     "Avoid::ConnRef::router": lambda it, n, env: Obj("Avoid::Router", {}),
                     "Avoid::Router::debugHandler": lambda it, n, env: None}
            seg = default_obj(prog, "Avoid::NudgingShiftSegment", {"connRef": Obj("Avoid::ConnRef", {"m_has_fixed_route": False}), "variable": Obj("Avoid::Variable", {"finalPosition": F}),
                                                                   "indexes": Vec([1, 2], "unsigned long"), "fixed": fixed, "dimension": dim,
                                                                   "minSpaceLimit": lo, "maxSpaceLimit": hi, "finalSegment": True})

            def run(o, seg=seg, hooks=hooks):
                it = Interp(prog, o, hooks=hooks)
                try:
                    it.call(fn, seg, None, None, arg_values=[False])
                    return ("ret", None)
                except AssertFail as e:
                    return ("assert", str(e))
            # note: the hooks close over `route`, which the interpreter mutates; rebuild per path
            results = []

            def run2(o, dim=dim, fixed=fixed, JU=JU):
                rt = mkroute()
                hk = {"Avoid::ConnRef::displayRoute": lambda it, n, env: rt,
                      "Avoid::ConnRef::router": lambda it, n, env: Obj("Avoid::Router", {}),
                      "Avoid::Router::debugHandler": lambda it, n, env: None}
                sg = copy.deepcopy(seg)
                it = Interp(prog, o, hooks=hk)
                try:
                    it.call(fn, sg, None, None, arg_values=[JU])
                    return ("ret", rt)
                except AssertFail as e:
                    return ("assert", str(e))
            try:
                rows = enumerate_paths(run2, limit=200)
            except Unsupported as e:
                raise AnalysisBroken("updatePositionsFromSolver outside the interpreter subset: %s" % e)
            bad = None
            for val, descr, out in rows:
                if out[0] != "ret":
                    bad = "assertion path: %s" % out[1]
                    continue
                rt = out[1]
                d = {descr[k]: v for k, v in val.items()}
                for i, pnt in enumerate(rt.f["ps"].items):
                    for ci, c in enumerate(("x", "y")):
                        got = to_poly(pnt.f[c])
                        orig = Poly.var("p%d.%s" % (i, c))
                        if fixed or i not in (1, 2) or ci != dim:
                            if got != orig:
                                bad = "%s point %d coordinate %s is modified (%r)%s" % ("fixed segment:" if fixed else "", i, c, got,
                                                                                       "" if fixed else " although it is not a coordinate of the segment")
                        else:
                            # expected clamp: determine from the path's atoms which of F, lo, hi it must be
                            if got not in (F, lo, hi):
                                bad = "segment coordinate set to %r, not to the clamped solver position" % got
                            else:
                                # consistency with clamp semantics on a witness
                                for (fv, lv_, hv) in ((0, 1, 2), (1, 0, 2), (3, 0, 2), (1, 1, 1), (0, 0, 2), (2, 0, 2)):
                                    env = {"F": Fraction(fv), "lo": Fraction(lv_), "hi": Fraction(hv)}
                                    okw = True
                                    for k_, v_ in val.items():
                                        pl = Poly({m: Fraction(c_[0], c_[1]) for m, c_ in k_[1]})
                                        e = pl.eval_exact(env)
                                        if ((e > 0) - (e < 0)) != v_:
                                            okw = False
                                            break
                                    if okw:
                                        want = min(max(env["F"], env["lo"]), env["hi"])
                                        if got.eval_exact(env) != want:
                                            bad = "for solver position %s and limits [%s,%s] the segment is placed at %s" % (fv, lv_, hv, got.eval_exact(env))
            r.count(len(rows))
            (r.bad if bad else r.ok)("updatePositionsFromSolver/dim%d/%s" % (dim, "fixed" if fixed else "free"), fn.where(), bad or "")
    # createSolverVariable
    fn = prog.fn("Avoid::NudgingShiftSegment::createSolverVariable")
    consts = {}
    for q in ("Avoid::freeWeight", "Avoid::strongWeight", "Avoid::strongerWeight", "Avoid::fixedWeight", "Avoid::freeSegmentID", "Avoid::fixedSegmentID"):
        v = prog.vars.get(q)
        if v is None or "val" not in v:
            raise AnalysisBroken("constant %s not found" % q)
        consts[q.split("::")[-1]] = Fraction(float(v["val"])) if "." in v["val"] or "e" in v["val"].lower() else Fraction(int(v["val"]))
    bad = None
    if not (consts["fixedWeight"] > consts["strongerWeight"] > consts["strongWeight"] > consts["freeWeight"] > 0):
        bad = "weight constants are not ordered fixed > stronger > strong > free: %s" % {k: float(v) for k, v in consts.items()}
    created = []

    def h_new(it, n, env):
        return None
    for nudge_final in (False, True):
        for final in (False, True):
            for fixed in (False, True):
                for zig in (False, True):
                    for ncp in (0, 1):
                        route = Obj("Avoid::Polygon", {"ps": Vec([Obj("Avoid::Point", {"x": Poly.var("qx"), "y": Poly.var("qy"), "id": 0, "vn": 8})] * 2)})
                        hooks = {"Avoid::ConnRef::displayRoute": lambda it, n, env, route=route: route,
                                 "Avoid::ConnRef::router": lambda it, n, env: Obj("Avoid::Router", {}),
                                 "Avoid::Router::routingOption": lambda it, n, env, v=nudge_final: v}
                        seg = default_obj(prog, "Avoid::NudgingShiftSegment", {"connRef": Obj("Avoid::ConnRef", {"m_has_fixed_route": False}), "variable": None, "indexes": Vec([0, 1]),
                                                                 "fixed": fixed, "finalSegment": final, "singleConnectedSegment": False,
                                                                 "sBend": zig, "zBend": False, "dimension": 0,
                                                                 "checkpoints": Vec([Obj("Avoid::Point", {"x": 0, "y": 0})] * ncp),
                                                                 "minSpaceLimit": Poly.var("lo"), "maxSpaceLimit": Poly.var("hi")})

                        def run(o, seg=seg, hooks=hooks):
                            it = Interp(prog, o, hooks=hooks)
                            it.bounded = {"lo", "hi"}
                            sg = copy.deepcopy(seg)
                            try:
                                it.call(fn, sg, None, None, arg_values=[False])
                                return ("ret", sg.f["variable"])
                            except AssertFail as e:
                                return ("assert", str(e))
                        try:
                            rows = enumerate_paths(run, limit=50)
                        except Unsupported as e:
                            raise AnalysisBroken("createSolverVariable outside the interpreter subset: %s" % e)
                        for val, descr, out in rows:
                            if out[0] != "ret" or out[1] is None:
                                continue
                            v = out[1]
                            w, vid, pos = v.f["weight"], v.f["id"], to_poly(v.f["desiredPosition"])
                            plain_fixed = fixed and not (nudge_final and final) and ncp == 0 and not zig
                            if plain_fixed and (w != consts["fixedWeight"] or vid != consts["fixedSegmentID"]):
                                bad = bad or "a fixed segment gets weight %s / id %s instead of fixedWeight / fixedSegmentID" % (float(w), vid)
                            if not fixed and (w == consts["fixedWeight"]):
                                bad = bad or "a movable segment gets the fixed weight"
                            if zig and not (nudge_final and final) and ncp == 0:
                                mid = Poly.var("lo") + (Poly.var("hi") - Poly.var("lo")) * Fraction(1, 2)
                                if pos != mid:
                                    bad = bad or "zig-zag segment desired position %r is not the middle of its channel" % pos
                            elif pos != Poly.var("qx"):
                                bad = bad or "desired position %r is not the segment's current position" % pos
    r.count(32)
    (r.bad if bad else r.ok)("createSolverVariable", fn.where(), bad or "")


GROW = ("push_back", "emplace_back", "insert", "resize", "erase", "clear", "pop_back", "assign")


def rule_no_growth(chk, prog, cg):
    r = chk.rule("NO-GROWTH", "functions reachable from ImproveOrthogonalRoutes::nudgeOrthogonalRoutes (within libavoid's orthogonal/scanline/vpsc "
                 "code): no call of std::vector<Point>::{push_back,insert,resize,erase,clear,...} on a connector route's `ps`; every store "
                 "through displayRoute().ps[...] is a single-coordinate store", floor=1)
    root = prog.fn("Avoid::ImproveOrthogonalRoutes::nudgeOrthogonalRoutes")
    reach = cg.reachable([root.key])
    # NudgingShiftSegment members are reached through virtual ShiftSegment calls; make sure they are included
    for f in prog.all_functions():
        if f.cls == "Avoid::NudgingShiftSegment":
            reach.add(f.key)
    n_checked = 0
    bad = None
    stores = 0
    for k in sorted(reach):
        f = prog.by_key.get(k)
        if f is None or f.body is None:
            continue
        if not f.file.endswith(("libavoid/orthogonal.cpp", "libavoid/scanline.cpp", "libavoid/scanline.h")):
            continue
        n_checked += 1
        for n in calls(f):
            cn = n.get("cname", "")
            if cn.startswith("std::vector<Avoid::Point") and cn.split("::")[-1] in GROW:
                obj = norm(call_object(n)) if call_object(n) is not None else ""
                if obj.endswith(".ps") and ("displayRoute()" in obj or "route" in obj.lower()):
                    bad = bad or (f, n, "%s on `%s` changes the number of points of a route during nudging" % (cn.split("::")[-1], obj))
        for lhs, node, op in writes(f):
            t = norm(lhs)
            if "displayRoute().ps[" in t:
                stores += 1
                if not t.endswith("]") or t.count("[") < 2:
                    bad = bad or (f, node, "store `%s` replaces a whole route point rather than one coordinate" % t)
    r.count(n_checked)
    if stores == 0:
        raise AnalysisBroken("no coordinate store into a route found in the nudging code")
    if bad:
        r.bad(bad[0].q, bad[0].loc(bad[1]), bad[2])
    else:
        r.ok("nudgeOrthogonalRoutes closure", root.where(), "%d functions, %d coordinate stores" % (n_checked, stores))


def rule_limits_narrow(chk, prog):
    r = chk.rule("LIMITS-NARROW-ONLY", "the movement limits of a nudging segment are only ever tightened: after initialisation every store to "
                 "the locals passed as (minLim, maxLim) to the shiftable-segment constructor in buildOrthogonalNudgingSegments, and every "
                 "non-constructor store to ShiftSegment::minSpaceLimit / maxSpaceLimit in libavoid, has the form L = max(L, e) for a "
                 "lower and U = min(U, e) for an upper limit (or is guarded by e > L / e < U): a limit collected earlier (checkpoint, shape "
                 "side, adjoining bend) is never discarded", floor=14)
    lower, upper = set(), set()
    fn = prog.fn("Avoid::buildOrthogonalNudgingSegments")
    for n in fn.nodes():
        if n.get("k") == "CXXNewExpr" and n.get("at") == "Avoid::NudgingShiftSegment":
            ctor = [c for c in n["ch"] if c.get("k") == "CXXConstructExpr"][0]
            if len(ctor["ch"]) == 8:
                a, b = strip_casts(ctor["ch"][6]), strip_casts(ctor["ch"][7])
                if a.get("k") == "DeclRefExpr" and b.get("k") == "DeclRefExpr":
                    lower.add(a["did"])
                    upper.add(b["did"])
    if not lower:
        raise AnalysisBroken("shiftable NudgingShiftSegment constructions with local limits not found")

    def kind_of(f, lhs):
        e = strip_casts(lhs)
        if f.key == fn.key and e.get("k") == "DeclRefExpr" and e.get("did") in lower:
            return "lower"
        if f.key == fn.key and e.get("k") == "DeclRefExpr" and e.get("did") in upper:
            return "upper"
        fq = written_field(lhs)[0]
        if fq == "Avoid::ShiftSegment::minSpaceLimit":
            return "lower"
        if fq == "Avoid::ShiftSegment::maxSpaceLimit":
            return "upper"
        return None
    for f in prog.all_functions():
        if f.tmpl == "pattern" or "/libavoid/" not in f.file or f.kind == "ctor":
            continue
        for lhs, node, op in writes(f):
            kd = kind_of(f, lhs)
            if kd is None:
                continue
            r.count()
            inst = "%s: %s" % (f.q, norm(node))[:150]
            target = norm(lhs)
            rhs = strip_casts(node["ch"][-1]) if op == "=" else None
            ok = False
            if rhs is not None and rhs.get("cname", "").split("<")[0] == ("std::max" if kd == "lower" else "std::min"):
                ok = target in [norm(a) for a in call_args(rhs)]
            if not ok and rhs is not None:
                pc = path_condition(f, node, inline=False)
                e = norm(rhs)
                wants = ["(%s > %s)" % (e, target), "(%s < %s)" % (target, e)] if kd == "lower" else \
                        ["(%s < %s)" % (e, target), "(%s > %s)" % (target, e)]
                ok = any(entails(pc, ("atom", w)) for w in wants)
            if ok:
                r.ok(inst, f.loc(node))
            else:
                r.bad(inst, f.loc(node), "the %s movement limit `%s` is overwritten, not tightened: limits collected before this statement "
                      "(checkpoints inside adjoining segments, shape sides) are discarded" % (kd, target))


def rule_region_closure(chk, prog):
    from ..cfg import CFG
    r = chk.rule("REGION-CLOSURE", "nudgeOrthogonalRoutes builds each nudging region as the closure under overlapsWith: the candidate scan "
                 "tests the candidate against every member of the region, and whenever the region grows the scan restarts at "
                 "m_segment_list.begin() before the next candidate is looked at (segments passed earlier may overlap the new member) -- "
                 "otherwise overlapping segments are nudged in separate solver instances and stay on top of each other", floor=2)
    fn = prog.fn("Avoid::ImproveOrthogonalRoutes::nudgeOrthogonalRoutes")
    g = CFG(fn)
    loops = [n for n in fn.nodes() if n.get("k") == "ForStmt" and n.get("init") is not None and n["init"].get("k") == "DeclStmt"
             and norm(n["init"]["decls"][0].get("init")) == "m_segment_list.begin()"]
    grow = []
    for lp in loops:
        for c in walk(lp["body"]):
            if c.get("cname", "").endswith("::push_back") and c.get("k") == "CXXMemberCallExpr" and norm(call_object(c)) == "currentRegion":
                grow.append((lp, c))
    if len(grow) != 1:
        raise AnalysisBroken("region-growing scan of nudgeOrthogonalRoutes not recognised (%d candidates)" % len(grow))
    lp, push = grow[0]
    it = lp["init"]["decls"][0]
    resets = [node["id"] for lhs, node, op in writes(fn) if strip_casts(lhs).get("did") == it.get("did") and op == "=" and
              norm(node["ch"][-1]) == "m_segment_list.begin()"]
    hdr, body = g.loop_header(lp)
    cond = strip(lp["cond"])
    targets = [cond["id"]] if cond.get("id") in g.pos else []
    for e in g.blocks[hdr]["el"]:
        if isinstance(e, int) and e != -1:
            targets.append(e)
            break
    w = g.search([g.after(push["id"])], blocked=resets, targets=targets)
    r.count()
    if w is not None:
        r.bad("nudgeOrthogonalRoutes: restart after growth", fn.loc(push), "after adding a segment to the region the scan can continue along %s "
              "without restarting from m_segment_list.begin(): segments already passed that overlap only the new member are left out" % g.describe(w))
    else:
        r.ok("nudgeOrthogonalRoutes: restart after growth", fn.loc(push))
    # inner scan covers all members
    inner = [n for n in walk(lp["body"]) if n.get("k") == "ForStmt" and n.get("init") is not None and n["init"].get("k") == "DeclStmt"
             and norm(n["init"]["decls"][0].get("init")) == "currentRegion.begin()"]
    r.count()
    bad = None
    if not inner or "currentRegion.end()" not in norm(inner[0].get("cond")):
        bad = "no scan over all members of currentRegion"
    else:
        tests = [c["id"] for c in walk(inner[0]["body"]) if c.get("cname", "").endswith("::overlapsWith")]
        if not tests or g.iteration_can_skip(inner[0], tests) is not None:
            bad = "some region members are not tested with overlapsWith"
    (r.bad if bad else r.ok)("nudgeOrthogonalRoutes: every member tested", fn.loc(lp), bad or "")


def rule_fixed_order_first(chk, prog):
    r = chk.rule("FIXED-ORDER-BEFORE-BEND-ORDER", "CmpLineOrder::operator() (the order in which collinear segments are laid out side by side): when one of the "
                 "two segments is fixed, the side of the fixed segment the other one goes to is decided by fixedOrder() -- so that the fixed "
                 "segment does not block the movable one -- BEFORE the C-bend / S-bend order() of the two is consulted: the return that "
                 "compares the order() values is reached only when the fixedOrder() test did not decide (its condition is negated in the "
                 "path condition)", floor=1)
    fns = [f for f in prog.all_functions() if f.body and f.q.startswith("Avoid::CmpLineOrder::operator()")]
    if len(fns) != 1:
        raise AnalysisBroken("CmpLineOrder::operator() not found")
    fn = fns[0]
    def locals_from(callee_suffix):
        return {d.get("name") for d in fn.nodes() if d.get("k") == "VarDecl" and d.get("init") is not None and any(
            (c.get("cname") or "").endswith(callee_suffix) for c in walk(d["init"]))}
    fixed_v = locals_from("::fixedOrder")
    order_v = locals_from("ShiftSegment::order") | locals_from("NudgingShiftSegment::order")
    rets = [n for n in fn.nodes() if n.get("k") == "ReturnStmt" and n.get("ch")]
    ret_order = [n for n in rets if any(x.get("k") == "DeclRefExpr" and x.get("ref") in order_v for x in walk(n["ch"][0]))]
    if not fixed_v or not order_v or len(ret_order) != 1:
        raise AnalysisBroken("CmpLineOrder::operator(): the fixedOrder() / order() comparisons were not found (%s, %s, %d)" % (sorted(fixed_v), sorted(order_v), len(ret_order)))
    r.count()
    pc = path_condition(fn, ret_order[0], inline=False, early=True)
    dec = [a for a in atoms(pc) if any(re.search(r"\b%s\b" % re.escape(v), a) for v in fixed_v)]
    ok = bool(dec)
    why = "the C-bend order decides before the fixed segment is considered: a movable segment can be sorted onto the blocked side of a fixed one"
    if ok:
        # ... and the fixed-order decision itself does not wait for the bend order
        ret_fixed = [n for n in rets if any(x.get("k") == "DeclRefExpr" and x.get("ref") in fixed_v for x in walk(n["ch"][0]))]
        for rf in ret_fixed:
            mixed = [a for a in atoms(path_condition(fn, rf, inline=False))
                     if "order()" in a.replace(" ", "") or any(re.search(r"\b%s\b" % re.escape(v), a) for v in order_v)]
            if mixed:
                ok, why = False, "the fixed-segment decision is taken only under %s" % sorted(mixed)
    (r.ok if ok else r.bad)("order() consulted after fixedOrder()", fn.loc(ret_order[0]), "" if ok else why)


def rule_pairwise_stateless(chk, prog):
    from ..rules.loopstate import carried_locals
    from ..cfg import CFG
    r = chk.rule("PAIR-CONSTRAINTS-STATELESS", "nudgeOrthogonalRoutes, the loop that constrains the current segment against every previously "
                 "seen one: the separation distance and the equality flag of a pair are decided from that pair alone -- no local that "
                 "is assigned inside the loop carries its value to the next pair (except reviewed accumulators); "
                 "buildConnectorRouteCheckpointCache tests every checkpoint against every segment and every bend (no early exit); the same for "
                 "the connector-pair loop of buildOrthogonalNudgingOrderInfo (crossing count and flags are per pair)", floor=4)
    fn = prog.fn("Avoid::ImproveOrthogonalRoutes::nudgeOrthogonalRoutes")
    lps = [n for n in fn.nodes() if n.get("k") == "ForStmt" and "prevVars.begin()" in norm(n.get("init")) and "prevVars.end()" in norm(n.get("cond"))]
    if len(lps) != 1:
        raise AnalysisBroken("nudgeOrthogonalRoutes: loop over prevVars not recognised")
    carried = carried_locals(fn, lps[0])
    r.count()
    bad = [c for c in carried if c[2] is not None]
    if bad:
        nm, st, rd = bad[0]
        r.bad("pair loop: no carried state", fn.loc(st), "`%s` is declared outside the loop over previously seen segments, assigned inside it and "
              "read at line %s before being re-initialised for the pair: the gap / equality decided for one neighbour is inherited by the "
              "following, unrelated neighbours" % (nm, rd.get("l")))
    else:
        r.ok("pair loop: no carried state", fn.loc(lps[0]))
    # the ordering / shared-path information of a pair of connectors is decided from that pair alone
    fo = prog.fn("Avoid::ImproveOrthogonalRoutes::buildOrthogonalNudgingOrderInfo")
    pair = [n for n in fo.nodes() if n.get("k") == "ForStmt" and any((c.get("cname") or "").endswith("ConnectorCrossings::countForSegment") for c in walk(n.get("body") or {}))
            and any(x.get("k") == "ForStmt" for x in walk(n.get("body") or {}))]
    if not pair:
        raise AnalysisBroken("buildOrthogonalNudgingOrderInfo: the loop over connector pairs was not found")
    inner_pair = pair[-1]                    # the innermost loop that still contains the per-segment loop: one iteration = one pair
    r.count()
    reviewed = {"crossingsN": "total number of crossings, reported for debugging only"}
    leak = [c for c in carried_locals(fo, inner_pair) if c[0] not in reviewed]
    if leak:
        nm, st, rd = leak[0]
        r.bad("connector-pair loop of buildOrthogonalNudgingOrderInfo: no carried state", fo.loc(st), "`%s` is declared outside the loop over the partner "
              "connectors and updated inside it without being re-initialised for each pair: the crossing flags of one partner (e.g. `shares a "
              "path at an end`) are inherited by the following, unrelated partners, which are then forced onto the connector" % nm)
    else:
        r.ok("connector-pair loop of buildOrthogonalNudgingOrderInfo: no carried state", fo.loc(inner_pair))
    # the constraint of a pair is built from that pair's decision
    news = [n for n in walk(lps[0]["body"]) if n.get("k") == "CXXNewExpr" and n.get("at") in ("Avoid::Constraint",)]
    r.count()
    okc = False
    if len(news) == 1:
        ctor = [c for c in news[0]["ch"] if c.get("k") == "CXXConstructExpr"][0]
        a = [norm(x) for x in ctor["ch"]]
        okc = a[:2] == ["prevVar", "vs[index]"] and len(a) == 4
    (r.ok if okc else r.bad)("pair loop: constraint(prev, current, gap, equality)", fn.loc(news[0]) if news else fn.loc(lps[0]),
                             "" if okc else "the separation constraint of a pair is not Constraint(prevVar, vs[index], gap, equality)")
    f2 = prog.fn("Avoid::buildConnectorRouteCheckpointCache")
    g = CFG(f2)
    cl = [n for n in f2.nodes() if n.get("k") == "ForStmt" and "checkpoints.size()" in norm(n.get("cond"))]
    r.count()
    bad = None
    if len(cl) != 2:
        bad = "expected the two scans over the checkpoints (on a segment / at a bend), found %d" % len(cl)
    else:
        for lp in cl:
            ini = lp.get("init")
            if ini is None or ini.get("k") != "DeclStmt" or literal_value(ini["decls"][0].get("init")) != "0":
                bad = bad or "a checkpoint scan does not start at the first checkpoint"
            if any(x.get("k") in ("BreakStmt", "ReturnStmt", "GotoStmt") for x in walk(lp["body"])):
                bad = bad or "a checkpoint scan stops at the first checkpoint found: further checkpoints on the same segment are not " \
                             "recorded, so the segments next to it are not kept from sliding past them"
        outer = [n for n in f2.nodes() if n.get("k") == "ForStmt" and "displayRoute.size()" in norm(n.get("cond"))]
        if not outer or literal_value(outer[0]["init"]["decls"][0].get("init")) != "0":
            bad = bad or "not every route point is visited"
    (r.bad if bad else r.ok)("checkpoint cache complete", f2.where(), bad or "")


def rule_settings_dirty(chk, prog):
    """A changed routing parameter / option reaches the next transaction."""
    from ..cfg import CFG
    r = chk.rule("SETTINGS-DIRTY", "who-writes of Router::m_routing_parameters / m_routing_options outside the constructor: after every such "
                 "store, every path to the function's exit sets m_settings_changes = true (all parameters alike -- the nudging distance and "
                 "the nudging options are read by the post-processing of EVERY transaction); Router::processTransaction returns early only "
                 "if m_settings_changes is false (or SimpleRouting) and rerouteAndCallbackConnectors is reached otherwise", floor=3)
    k = 0
    for f in prog.all_functions():
        if f.body is None or f.tmpl == "pattern" or "/libavoid/" not in f.file or f.q == "Avoid::Router::Router":
            continue
        ws = [node for lhs, node, op in writes(f) if written_field(lhs)[0] in ("Avoid::Router::m_routing_parameters", "Avoid::Router::m_routing_options")]
        if not ws:
            continue
        g = CFG(f)
        dirty = [node["id"] for lhs, node, op in writes(f) if written_field(lhs)[0] == "Avoid::Router::m_settings_changes" and op == "=" and
                 literal_value(node["ch"][1]) == "true"]
        dirty += [c["id"] for c in calls(f) if c.get("cname") == "Avoid::Router::registerSettingsChange"]
        k += 1
        r.count()
        bad = None
        for w in ws:
            if w["id"] not in g.pos:
                raise AnalysisBroken("%s: store is not a CFG element" % f.q)
            p_ = g.must_follow(w["id"], dirty) if dirty else []
            if p_ is not None:
                bad = (f.loc(w), "after the store `%s` the function can return without marking the settings as changed%s: processTransaction() "
                       "then returns early and existing routes keep the old value" % (src(w)[:60], (" (%s)" % g.describe(p_)) if p_ else ""))
                break
        (r.bad(f.q, bad[0], bad[1]) if bad else r.ok(f.q, f.where()))
    if k < 2:
        raise AnalysisBroken("setters of the routing parameters / options not found")
    fn = prog.fn("Avoid::Router::processTransaction")
    g = CFG(fn)
    r.count()
    bad = None
    rets = [n for n in fn.nodes() if n.get("k") == "ReturnStmt" and literal_value(n["ch"][0]) == "false"] if True else []
    rr = [c for c in calls(fn) if c.get("cname") == "Avoid::Router::rerouteAndCallbackConnectors"]
    if not rr:
        bad = "processTransaction no longer calls rerouteAndCallbackConnectors"
    early = 0
    for rt in rets:
        if rr and g.search("entry", blocked=[rr[0]["id"]], targets=[rt["id"]]) is None:
            continue        # a return after the rerouting
        early += 1
        pc = path_condition(fn, rt, inline=False)
        f2 = ("and", pc, ("not", ("atom", "SimpleRouting")))
        if not entails(f2, ("atom", "(m_settings_changes == false)")) and not entails(f2, ("not", ("atom", "m_settings_changes"))):
            bad = bad or "processTransaction returns without rerouting under `%s`, which does not require m_settings_changes to be false" % show(pc)[:160]
    if not early and not bad:
        raise AnalysisBroken("processTransaction: the early `return false` was not recognised")
    (r.bad if bad else r.ok)("processTransaction honours the flag", fn.where(), bad or "")


def rule_fixed_flag(chk, prog):
    r = chk.rule("FIXED-ORDER-FLAG", "CmpLineOrder::operator() passes ONE flag (initialised false) to lhs->fixedOrder and rhs->fixedOrder and orders "
                 "by the fixed segment when either call set it; NudgingShiftSegment::fixedOrder therefore only ever raises its out-parameter "
                 "(stores `true`, or `flag || x` / `flag |= x`) -- a plain assignment makes the flag describe the right-hand segment only, and the "
                 "insertion order of linesort then decides on which side of a fixed segment a one-sidedly limited segment ends up", floor=2)
    fn = prog.fn("Avoid::NudgingShiftSegment::fixedOrder")
    pname = fn.params[0]["name"]
    r.count()
    bad = None
    k = 0
    for lhs, node, op in writes(fn):
        if norm(lhs) != pname:
            continue
        k += 1
        rhs = norm(node["ch"][1]) if len(node.get("ch", [])) > 1 else ""
        if op == "=" and literal_value(node["ch"][1]) == "true":
            continue
        if op == "|=":
            continue
        if op == "=" and re.match(r"^\(?%s \|\| " % re.escape(pname), rhs):
            continue
        bad = bad or (fn.loc(node), "`%s %s %s` can lower the flag that the comparator shares between its two calls" % (pname, op, rhs[:60]))
    if k == 0:
        raise AnalysisBroken("fixedOrder no longer writes its out-parameter")
    (r.bad("fixedOrder only raises the flag", bad[0], bad[1]) if bad else r.ok("fixedOrder only raises the flag", fn.where(), "%d store(s)" % k))
    cands = [f for f in prog.all_functions() if f.q == "Avoid::CmpLineOrder::operator()" and f.body is not None]
    if len(cands) != 1:
        raise AnalysisBroken("CmpLineOrder::operator() not found")
    cmpf = cands[0]
    cs = [c for c in calls(cmpf) if c.get("cname") == "Avoid::NudgingShiftSegment::fixedOrder"]
    r.count()
    bad = None
    if len(cs) != 2:
        bad = "expected two fixedOrder calls (lhs, rhs), found %d" % len(cs)
    else:
        flags = {norm(call_args(c)[0]) for c in cs}
        objs = sorted(norm(call_object(c)) for c in cs)
        decl = [n for n in cmpf.nodes() if n.get("k") == "VarDecl" and n.get("name") in flags]
        if len(flags) != 1:
            bad = "the two calls use different flags %s but the test below reads one" % sorted(flags)
        elif objs != ["lhs", "rhs"]:
            bad = "fixedOrder is called on %s, not on lhs and rhs" % objs
        elif not decl or literal_value(decl[0].get("init")) != "false":
            bad = "the shared flag is not initialised to false"
    (r.bad if bad else r.ok)("comparator shares one flag", cmpf.where(), bad or "")


_INT_WIDTH = {"unsigned short": 16, "short": 16, "unsigned char": 8, "char": 8, "signed char": 8, "unsigned int": 32, "int": 32, "unsigned long": 64,
              "long": 64, "unsigned long long": 64, "long long": 64}


def rule_id_width(chk, prog):
    """Connector / shape ids are user-chosen unsigned ints: a key that stores them in 16 bits makes different objects look alike."""
    import json
    import os
    from ..facts import VERIF
    r = chk.rule("ID-WIDTH", "every implicit conversion of a run-time integer (not a constant expression) to a type of at most 16 bits is one of the "
                 "reviewed sites of tables/narrowing_reviewed.json (vertex numbers within one shape, flag bits, corner numbers) -- in particular "
                 "the pair keys built from CONNECTOR IDS for the nudging code (Avoid::UnsignedPair) keep the ids at full width: truncated ids let "
                 "two unrelated connectors pass for a pair that shares an end point, and they are then tied together instead of nudged apart", floor=10)
    table = json.load(open(os.path.join(VERIF, "tables", "narrowing_reviewed.json")))["sites"]

    def constant(e):
        for x in walk(e):
            if x.get("k") == "DeclRefExpr" and x.get("rk") in ("Var", "ParmVar", "Field"):
                v = prog.vars.get(str(x.get("ref")))
                if v is None or "const" not in str(v.get("t", "")):
                    return False
            if x.get("k") in ("CallExpr", "CXXMemberCallExpr", "CXXOperatorCallExpr", "MemberExpr", "CXXThisExpr"):
                return False
        return True
    found = {}

    def scan(f, root):
        for n in walk(root):
            if n.get("k") == "ImplicitCastExpr" and n.get("ck") == "IntegralCast":
                to = str(n.get("t", "")).replace("const ", "")
                src_ = (n.get("ch") or [{}])[0]
                fr = str(src_.get("t", "")).replace("const ", "")
                if _INT_WIDTH.get(to, 99) <= 16 and _INT_WIDTH.get(fr, 0) > _INT_WIDTH.get(to, 99) and not constant(src_):
                    key = "%s: %s -> %s" % (re.sub(r"<[^<>]*>", "", f.q), fr, to)
                    found.setdefault(key, []).append((f, n, norm(src_)[:60]))
    for f in prog.all_functions():
        if "/tests/" in f.file or f.tmpl == "pattern":
            continue
        if f.body:
            scan(f, f.body)
        for ini in f.d.get("inits", []):
            if ini.get("expr"):
                scan(f, ini["expr"])
    for key in sorted(set(found) | set(table)):
        r.count()
        sites = found.get(key, [])
        if key not in table:
            f, n, text = sites[0]
            r.bad(key, f.loc(n), "`%s` is cut down to %s: ids / indices / counts that differ by a multiple of 2^16 become equal" % (text, key.rsplit("-> ", 1)[1]))
        elif len({(s_[1].get("l"), s_[2]) for s_ in sites}) > table[key][0]:
            f, n, text = sites[-1]
            r.bad(key, f.loc(n), "%d narrowing conversions in this function, %d were reviewed (%s)" % (len(sites), table[key][0], table[key][1][:80]))
        else:
            r.ok(key, sites[0][0].loc(sites[0][1]) if sites else "", "reviewed: " + table[key][1][:100])


def rule_overlaps_with(chk, prog):
    """NudgingShiftSegment::overlapsWith: which segments end up in one nudging region."""
    import itertools
    r = chk.rule("OVERLAPS-WITH", "NudgingShiftSegment::overlapsWith interpreted on two collinear segments whose spans overlap, over all orderings of their "
                 "movement intervals [min, max] on a small grid (fixed segments have min = max): the answer is true exactly when the two CLOSED "
                 "intervals meet -- touching intervals included, e.g. a fixed segment at p and a free segment flush against an obstacle at p, "
                 "which is the pair that has to be nudged apart; the relation is symmetric", floor=1)
    fn = prog.fn("Avoid::NudgingShiftSegment::overlapsWith")

    def pt(x, y):
        return default_obj(prog, "Avoid::Point", {"x": Fraction(x), "y": Fraction(y), "id": 0, "vn": 8})

    def seg(lo, hi, mn, mx):
        o = default_obj(prog, "Avoid::NudgingShiftSegment", {"minSpaceLimit": Fraction(mn), "maxSpaceLimit": Fraction(mx), "sBend": False, "zBend": False,
                                                            "finalSegment": False, "fixed": mn == mx})
        o.f["_low"], o.f["_high"] = pt(5, lo), pt(5, hi)
        return o
    n = 0
    bad = None
    vals = (0, 5, 9)
    for (a0, a1), (b0, b1) in itertools.product([(x, y) for x in vals for y in vals if x <= y], repeat=2):
        sa, sb = seg(0, 10, a0, a1), seg(4, 14, b0, b1)
        res = []
        for x, y in ((sa, sb), (sb, sa)):
            it = Interp(prog, Oracle([]))
            it.vhooks["Avoid::NudgingShiftSegment::lowPoint"] = lambda it_, recv, args: recv.f["_low"]
            it.vhooks["Avoid::NudgingShiftSegment::highPoint"] = lambda it_, recv, args: recv.f["_high"]
            try:
                res.append(bool(it.call(fn, x, None, None, arg_values=[y, 0])))
            except Unsupported as e:
                raise AnalysisBroken("overlapsWith outside the interpreter subset: %s" % e)
        n += 2
        want = a0 <= b1 and b0 <= a1
        if (res[0] != want or res[1] != want) and bad is None:
            bad = "movement intervals [%s,%s] and [%s,%s], spans overlapping: overlapsWith = %s / %s (other way round), the closed intervals %s" % (
                a0, a1, b0, b1, res[0], res[1], "meet" if want else "are disjoint")
    r.count()
    r.evaluations = n
    (r.bad if bad else r.ok)("overlapping spans", fn.where(), bad or "%d evaluations" % n)


def rule_gap_rewrite(chk, prog):
    """nudgeOrthogonalRoutes: after a failed solve, which separation constraints get the reduced distance."""
    r = chk.rule("GAP-REWRITE", "the loop of ImproveOrthogonalRoutes::nudgeOrthogonalRoutes that lowers the separation after an unsatisfied solve, "
                 "interpreted on a chain of constraints with one and with two unsatisfied ranges: every constraint from the one that ENTERS a "
                 "range (left == vs[first]) to the one that CLOSES it (right == vs[second]), both included, gets the reduced distance if its gap "
                 "is positive; zero gaps (channel edges) and constraints outside the ranges keep theirs -- a closing constraint that keeps the "
                 "full distance can never be satisfied, and nothing in its region is nudged", floor=2)
    fn = prog.fn("Avoid::ImproveOrthogonalRoutes::nudgeOrthogonalRoutes")
    loops = [n for n in fn.nodes() if n.get("k") == "ForStmt" and "cs.end()" in norm(n.get("cond")) and
             any(x.get("k") == "DeclRefExpr" and x.get("ref") == "withinUnsatisfiedGroup" for x in walk(n.get("body") or {}))]
    if len(loops) != 1:
        raise AnalysisBroken("nudgeOrthogonalRoutes: the gap-rewriting loop was not found")
    lp = loops[0]
    dids = {}
    for d in fn.nodes():
        if d.get("k") == "VarDecl" and d.get("name") in ("cs", "vs", "unsatisfiedRanges", "sepDist", "withinUnsatisfiedGroup"):
            dids.setdefault(d["name"], d["did"])
    if len(dids) != 5:
        raise AnalysisBroken("nudgeOrthogonalRoutes: locals of the gap-rewriting loop not found (%s)" % sorted(dids))
    # chain of 7 variables v0..v6; constraint k links v_k -> v_{k+1}
    for name, gaps, ranges in (("one range v1..v4", [4, 4, 0, 4, 4, 4], [(1, 4)]), ("two ranges v0..v2 and v4..v6", [4, 4, 4, 4, 0, 4], [(0, 2), (4, 6)])):
        vs = Vec([Obj("Avoid::Variable", {"id": i}) for i in range(7)], "Avoid::Variable *")
        cs = Vec([Obj("Avoid::Constraint", {"left": vs.items[k], "right": vs.items[k + 1], "gap": Fraction(g)}) for k, g in enumerate(gaps)], "Avoid::Constraint *")
        rng = Vec([Obj("std::pair", {"first": a, "second": b}) for a, b in ranges], "std::pair<unsigned long, unsigned long>")
        env = {dids["cs"]: Box(cs), dids["vs"]: Box(vs), dids["unsatisfiedRanges"]: Box(rng), dids["sepDist"]: Box(Fraction(3)),
               dids["withinUnsatisfiedGroup"]: Box(False), "this": None}
        it = Interp(prog, Oracle([]))
        r.count()
        try:
            it.ex(lp, env)
        except Unsupported as e:
            raise AnalysisBroken("gap-rewriting loop outside the interpreter subset (%s): %s" % (name, e))
        want = list(gaps)
        for a, b in ranges:
            for k in range(a, b):
                if want[k] > 0:
                    want[k] = 3
        got = [c.f["gap"] for c in cs.items]
        bad = None
        if [Fraction(x) for x in want] != got:
            bad = "gaps afterwards %s, expected %s (constraint k links v_k and v_k+1)" % ([str(x) for x in got], want)
        (r.bad if bad else r.ok)(name, fn.loc(lp), bad or "")


def rule_weight_writeback(chk, prog):
    """Holding a segment in the solver and refusing to move it on the way back must be the same decision."""
    from ..microai.interp import Oracle
    r = chk.rule("FIXED-DECISION-CONSISTENT", "NudgingShiftSegment::createSolverVariable and ::updatePositionsFromSolver interpreted on every segment kind "
                 "(fixed / free) x (S- or Z-bend / not) x (final segment / not), fixed ones also for connectors with a user-fixed route: the route "
                 "coordinate of the segment is written back exactly when the segment's solver variable is NOT the fixed one "
                 "(fixedSegmentID with fixedWeight) -- a segment the solver was allowed to move but whose new position is thrown away "
                 "leaves the segments ordered around it overlapping it, and one that is held fixed but written moves a fixed route", floor=8)
    fc = prog.fn("Avoid::NudgingShiftSegment::createSolverVariable")
    fu = prog.fn("Avoid::NudgingShiftSegment::updatePositionsFromSolver")
    Fr = Fraction
    n = 0
    for fixed in (False, True):
        for zig in (False, True):
            if fixed and zig:
                continue                      # fixed segments are built by the 4-argument constructor: never a zig-zag
            for final in (False, True):
                for fixedroute in (False, True):
                    if fixedroute and not fixed:
                        continue              # unreachable: every segment of a fixed-route connector is built fixed (FIXED-ROUTE-NOT-SHIFTABLE)
                    route = Obj("Avoid::Polygon", {"_id": 0, "ps": Vec([Obj("Avoid::Point", {"x": Fr(10 * i), "y": Fr(7), "id": 0, "vn": 8}) for i in range(4)], "Avoid::Point"), "ts": Vec([])})
                    hooks = {"Avoid::ConnRef::displayRoute": lambda it, nd, env, route=route: route,
                             "Avoid::ConnRef::router": lambda it, nd, env: Obj("Avoid::Router", {}),
                             "Avoid::Router::debugHandler": lambda it, nd, env: None,
                             "Avoid::Router::routingOption": lambda it, nd, env: False,
                             "Avoid::ConnRef::hasFixedRoute": lambda it, nd, env, fixedroute=fixedroute: fixedroute}
                    seg = default_obj(prog, "Avoid::NudgingShiftSegment", {
                        "connRef": Obj("Avoid::ConnRef", {"m_has_fixed_route": fixedroute}), "variable": None, "indexes": Vec([1, 2], "unsigned long"),
                        "fixed": fixed, "dimension": 1, "minSpaceLimit": Fr(0), "maxSpaceLimit": Fr(20), "finalSegment": final,
                        "sBend": zig, "zBend": False, "singleConnectedSegment": False, "checkpoints": Vec([], "Avoid::Point")})
                    created = []
                    it = Interp(prog, Oracle([]), hooks=hooks)
                    it.ctor_hooks = {"Avoid::Variable": lambda it_, o, args, env: (o.f.__setitem__("id", it_.ev(args[0], env)), o.f.__setitem__("desiredPosition", it_.ev(args[1], env)),
                                                                                   o.f.__setitem__("weight", it_.ev(args[2], env)), o.f.__setitem__("finalPosition", Fr(13)), created.append(o))}
                    n += 1
                    r.count()
                    inst = "%s, %s, %s, %s" % ("fixed" if fixed else "free", "S-bend" if zig else "no zig-zag", "final segment" if final else "inner segment",
                                               "user-fixed route" if fixedroute else "routed")
                    try:
                        it.call(fc, seg, None, None, arg_values=[False])
                        var = seg.f.get("variable")
                        if not isinstance(var, Obj):
                            raise AnalysisBroken("createSolverVariable left no variable")
                        var.f["finalPosition"] = Fr(13)
                        it.call(fu, seg, None, None, arg_values=[False])
                    except Unsupported as e:
                        raise AnalysisBroken("nudging segment methods outside the interpreter subset (%s): %s" % (inst, e))
                    except AssertFail as e:
                        r.bad(inst, fc.where(), "assertion fails: %s" % e)
                        continue
                    held = (var.f.get("id") == 1 and Fraction(var.f.get("weight")) == Fraction(100000))
                    written = any(Fraction(p_.f["y"]) != Fr(7) for p_ in route.f["ps"].items)
                    bad = None
                    if held and written:
                        bad = "the segment is held by the fixed solver variable but its route coordinate is overwritten with the solver's position"
                    elif not held and not written:
                        bad = ("the solver may move this segment (variable id %s, weight %s) but the new position is not written to the route: the "
                               "segments the solver ordered around it end up on top of it" % (var.f.get("id"), var.f.get("weight")))
                    (r.bad if bad else r.ok)(inst, fu.where(), bad or "")


def rule_fixed_route_segments(chk, prog):
    r = chk.rule("FIXED-ROUTE-NOT-SHIFTABLE", "buildOrthogonalNudgingSegments: a SHIFTABLE NudgingShiftSegment (8-argument constructor) is never built for a "
                 "segment of a connector with a user-specified fixed route -- every such construction is reached only past a test of "
                 "hasFixedRoute() (path condition incl. early `continue`s entails its negation): middle segments included, not just the ends", floor=1)
    fn = prog.fn("Avoid::buildOrthogonalNudgingSegments")
    k = 0
    for n in fn.nodes():
        if n.get("k") == "CXXNewExpr" and n.get("at") == "Avoid::NudgingShiftSegment":
            ctor = [c for c in n["ch"] if c.get("k") == "CXXConstructExpr"][0]
            if len(ctor["ch"]) != 8:
                continue
            k += 1
            r.count()
            pc = path_condition(fn, n, inline=False, early=True)
            fr = [a for a in atoms(pc) if a.endswith(".hasFixedRoute()")]
            ok = bool(fr) and entails(pc, ("not", ("atom", fr[0])))
            (r.ok if ok else r.bad)("shiftable segment at line %s" % n.get("l"), fn.loc(n), "" if ok else
                                    "a shiftable segment can be built for a connector whose route the user has fixed: nudging pushes and centres the "
                                    "middle segments of a fixed route")
    if k == 0:
        raise AnalysisBroken("buildOrthogonalNudgingSegments: no shiftable segment construction found")


def rule_junction_limits(chk, prog):
    r = chk.rule("JUNCTION-LIMITS-AT-MEETING-POINT", "buildOrthogonalNudgingSegments: the point that stands for a junction in the end-segment limits (end "
                 "segments at a junction are not nudged) is the junction's recommendedPosition() -- the point its connectors' routes run to after "
                 "hyperedge improvement (C12 JUNCTION-POSITION-WRITTEN) -- not position(), which still names the old place until the client moves "
                 "the junction: with nudgeOrthogonalSegmentsConnectedToShapes the final segments would be nudged off the junction", floor=1)
    fn = prog.fn("Avoid::buildOrthogonalNudgingSegments")
    rec = [c for c in calls(fn) if c.get("cname") == "Avoid::JunctionRef::recommendedPosition"]
    pos = [c for c in calls(fn) if c.get("cname") in ("Avoid::JunctionRef::position", "Avoid::Obstacle::position") and
           call_object(c) is not None and "junction" in norm(call_object(c)).lower()]
    r.count()
    ok = bool(rec) and not pos
    (r.ok if ok else r.bad)("junction limits", fn.loc((pos or rec or [fn.body])[0]) if (pos or rec) else fn.where(), "" if ok else
                            "the limits of segments ending at a junction are taken from position() instead of the point the routes meet at")


def rule_segments_represented(chk, prog):
    """Nudging can only keep apart what it knows about: every segment of every orthogonal connector is represented, movable or not."""
    r = chk.rule("SEGMENTS-ALL-REPRESENTED", "buildOrthogonalNudgingSegments: a connector is left out only because it is not orthogonally routed, and "
                 "a route segment only because it does not run in the dimension being processed or has zero length; every other `continue` "
                 "of the two loops follows the creation of a NudgingShiftSegment (shiftable or fixed) for the segment -- a straight connector's "
                 "single immovable segment, too, is what keeps other connectors' segments off its line", floor=3)
    fn = prog.fn("Avoid::buildOrthogonalNudgingSegments")
    conts = [n for n in fn.nodes() if n.get("k") == "ContinueStmt"]
    if len(conts) < 3:
        raise AnalysisBroken("buildOrthogonalNudgingSegments: skip sites not found")
    for c in conts:
        r.count()
        blk = [a for a in fn.ancestors(c) if a.get("k") == "CompoundStmt"][0]
        created = any(x.get("k") == "CXXNewExpr" and x.get("at") == "Avoid::NudgingShiftSegment" and x.get("l", 0) <= c.get("l", 0) for x in walk(blk))
        if created:
            r.ok("continue at line %s" % c.get("l"), fn.loc(c), "after a segment was created")
            continue
        ats = [a for a in atoms(path_condition(fn, c, inline=False)) if ".end()" not in a and ".size()" not in a]
        extra = [a for a in ats if not (re.search(r"routingType\(\) != Avoid::ConnType_Orthogonal", a) or
                                        re.search(r"\.ps\[\(?i( - 1)?\)?\]\[\w+\] == \w+\.ps\[\(?i( - 1)?\)?\]\[\w+\]\)$", a))]
        (r.ok if not extra else r.bad)("continue at line %s" % c.get("l"), fn.loc(c), "" if not extra else
                                       "a connector / segment is left out of nudging under %s: nothing then keeps other connectors' segments off it" % sorted(extra))


_PAIR_SITES_REVIEWED = {
    "Avoid::ImproveOrthogonalRoutes::buildOrthogonalNudgingOrderInfo": "conn = connRefs[ind1], conn2 = connRefs[ind2] with ind2 starting at ind1 + 1: two "
                                                                         "different entries of the router's connector list",
}


def rule_pair_distinct(chk, prog):
    from ..rules.guards import path_condition, atoms
    r = chk.rule("PAIR-IDS-DISTINCT", "UnsignedPair(id, id) asserts that its two ids differ: every pair built from the connector ids of two nudging "
                 "segments is built under a condition that says the two segments belong to different connectors (consecutive segments of ONE "
                 "connector meet at a checkpoint), or at the reviewed site where the connectors are two distinct list entries", floor=2)
    n = 0
    for fn in prog.all_functions():
        if not fn.body or "/libavoid/" not in fn.file:
            continue
        for c in fn.nodes():
            if c.get("k") not in ("CXXTemporaryObjectExpr", "CXXConstructExpr", "CXXFunctionalCastExpr") or "UnsignedPair" not in str(c.get("cname", "")) + str(c.get("t", "")):
                continue
            a = call_args(c)
            if len(a) != 2:
                continue
            n += 1
            r.count()
            x, y = norm(a[0]), norm(a[1])
            ox, oy = x.rsplit(".id()", 1)[0], y.rsplit(".id()", 1)[0]
            ats = atoms(path_condition(fn, c, inline=False))
            inst = "UnsignedPair(%s, %s) in %s" % (x, y, fn.q)
            if any(a_ in ("(%s != %s)" % (ox, oy), "(%s != %s)" % (oy, ox)) for a_ in ats):
                r.ok(inst, fn.loc(c), "under %s != %s" % (ox, oy))
            elif fn.q in _PAIR_SITES_REVIEWED:
                r.ok(inst, fn.loc(c), "reviewed: " + _PAIR_SITES_REVIEWED[fn.q])
            else:
                r.bad(inst, fn.loc(c), "the pair is built although nothing on the path says that %s and %s are different connectors: UnsignedPair asserts "
                      "ind1 != ind2" % (ox, oy))
    if n < 2:
        raise AnalysisBroken("UnsignedPair constructions not found (%d)" % n)


def run(chk):
    prog = chk.load()
    cg = CallGraph(prog)
    chk.guard(rule_pair_distinct, chk, prog)
    chk.guard(rule_segments_represented, chk, prog)
    chk.guard(rule_junction_limits, chk, prog)
    chk.guard(rule_fixed_route_segments, chk, prog)
    chk.guard(rule_weight_writeback, chk, prog)
    chk.guard(rule_end_segments, chk, prog)
    chk.guard(rule_fixed_stays, chk, prog)
    chk.guard(rule_no_growth, chk, prog, cg)
    chk.guard(rule_limits_narrow, chk, prog)
    chk.guard(rule_region_closure, chk, prog)
    chk.guard(rule_pairwise_stateless, chk, prog)
    chk.guard(rule_fixed_order_first, chk, prog)
    chk.guard(rule_settings_dirty, chk, prog)
    chk.guard(rule_fixed_flag, chk, prog)
    chk.guard(rule_id_width, chk, prog)
    chk.guard(rule_overlaps_with, chk, prog)
    chk.guard(rule_gap_rewrite, chk, prog)
    from ..rules import mirrors
    r = chk.rule("MIRROR", "NudgingShiftSegment::lowC/highC and the scan-line helpers firstObstacleAbove/Below, markShiftSegmentsAbove/Below "
                 "stay exact mirror images (tables/mirrors.json)", floor=3)
    mirrors.check(r, prog, ["Avoid::Node::", "Avoid::NudgingShiftSegment::"], sample=chk.sample)
