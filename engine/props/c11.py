"""C11 -- libavoid: pins, junctions and checkpoints are honoured: structural and symbolic clauses.

Decides:
  PIN-OFFER          a pin's vertex is offered to a connector end (dummy visibility edge / hyperedge vertex) only under
                     class match && (!exclusive || no users)                          (truth-table entailment)
  PIN-BOOKKEEPING    m_connend_users / m_active_pin are written only by usePin / freeActivePin (and the pin destructor);
                     usePin inserts exactly when it records the pin; freeActivePin erases and clears
  PIN-TEMP-VIS       in ConnRef::generatePath the temporary pin visibility installed with assignConnectionPinVisibility(true) is
                     removed with (false) on every path to a normal exit
  CHECKPOINT-DIRS    in generateCheckpointsPath every restriction setVisibleDirections(d) of a leg end is undone with
                     setVisibleDirections(ConnDirAll) on the same vertex whenever the restriction was applied, after the search
  PINS-FOLLOW-SHAPES every function that replaces an obstacle polygon / junction position or pre-positions for a queued move
                     contains, after the store, a loop over all m_connection_pins that updates each pin's position
  PIN-UPDATE-SOURCE  pins are repositioned from the shape's own polygon only (never the buffered routing polygon)
  PIN-REFRESH        updatePositionAndVisibility refreshes position, directions and visibility on every path
  PIN-POSITION       ShapeConnectionPin::position() symbolic over the shape's bounding box: proportional offsets give
                     min + t*(max-min) (edges moved inside by insideOffset), absolute offsets min + offset / max - inside
  PIN-DIRECTIONS     default visibility directions of a pin follow its attachment position (finite table)
Not decided: that the search picks the cheapest pin; numeric end-point equality after moves.
"""
import copy
import re
from fractions import Fraction

from ..astq import (strip, strip_casts, calls, call_args, call_object, writes, written_field, norm, literal_value, src,
                    single_assignment_locals)
from ..cfg import CFG
from ..facts import AnalysisBroken, walk
from ..microai.interp import Interp, Obj, Vec, Box, enumerate_paths, AssertFail, Thrown, Unsupported
from ..microai.poly import Poly, to_poly
from ..rules.guards import path_condition, atoms, entails, show, evalf

OFFER = ("and", ("atom", "(currPin.m_class_id == m_connection_pin_class_id)"),
         ("or", ("not", ("atom", "currPin.m_exclusive")), ("atom", "currPin.m_connend_users.empty()")))


def rule_pin_offer(chk, prog):
    r = chk.rule("PIN-OFFER", "ConnEnd::assignPinVisibilityTo / getHyperedgeVertex use a pin's vertex only under "
                 "pin.class == wanted class && (!pin.exclusive || pin.users.empty())", floor=3)
    fn = prog.fn("Avoid::ConnEnd::assignPinVisibilityTo")
    sal = single_assignment_locals(fn)
    k = 0
    for n in fn.nodes():
        if n.get("k") == "CXXNewExpr" and n.get("at") == "Avoid::EdgeInf":
            k += 1
            pc = path_condition(fn, n, inline=False)
            pct = _rename(pc)
            r.count()
            if entails(pct, OFFER):
                r.ok("assignPinVisibilityTo#%d" % k, fn.loc(n))
            else:
                r.bad("assignPinVisibilityTo#%d" % k, fn.loc(n), "a visibility edge to a pin is created under %s: not restricted to free pins of the "
                      "requested class" % show(pc)[:200])
    if k == 0:
        raise AnalysisBroken("assignPinVisibilityTo creates no edges")
    fn = prog.fn("Avoid::ConnEnd::getHyperedgeVertex")
    st = [node for lhs, node, op in writes(fn) if norm(lhs) == "vertex" and "m_vertex" in norm(node["ch"][1])]
    if not st:
        raise AnalysisBroken("getHyperedgeVertex: pin vertex selection not found")
    for s_ in st:
        pc = _rename(path_condition(fn, s_, inline=False))
        r.count()
        (r.ok if entails(pc, OFFER) else r.bad)("getHyperedgeVertex", fn.loc(s_), "" if entails(pc, OFFER) else
                                                "a pin vertex is chosen under %s" % show(pc)[:200])


def rule_pin_offer_twins(chk, prog):
    """The three places that decide which pins of a class a connector end may use must decide alike -- not just `no wider`."""
    r = chk.rule("PIN-OFFER-AGREE", "the availability test for the pins of a class -- class matches && (!exclusive || no user yet) -- is EQUIVALENT "
                 "(not merely implied) at its three sites: ConnEnd::assignPinVisibilityTo (which pins get visibility), "
                 "ConnEnd::getHyperedgeVertex and Obstacle::possiblePinPoints (which positions the orthogonal search may turn towards); a site "
                 "that is narrower than the others makes the search fail for pins the visibility graph offers", floor=3)

    def loopless(f):
        if f[0] == "atom":
            return ("const", True) if (".end()" in f[1] or ".begin()" in f[1]) else f
        if f[0] == "const":
            return f
        if f[0] == "not":
            inner = loopless(f[1])
            if f[1][0] == "atom" and inner == ("const", True):
                return ("const", True)
            return ("not", inner)
        return (f[0], loopless(f[1]), loopless(f[2]))

    def classify(pc):
        """Rename the class atom (the wanted class is a member in ConnEnd, a parameter in Obstacle) and compare with OFFER."""
        def ren(f):
            if f[0] == "atom":
                a = f[1].replace("curr.*.", "currPin.")
                if a.startswith("(currPin.m_class_id == ") and a.endswith(")"):
                    a = "(currPin.m_class_id == m_connection_pin_class_id)"
                return ("atom", a)
            if f[0] == "const":
                return f
            if f[0] == "not":
                return ("not", ren(f[1]))
            return (f[0], ren(f[1]), ren(f[2]))
        return ren(loopless(pc))
    sites = []
    fn = prog.fn("Avoid::ConnEnd::assignPinVisibilityTo")
    for n in fn.nodes():
        if n.get("k") == "CXXNewExpr" and n.get("at") == "Avoid::EdgeInf":
            sites.append(("assignPinVisibilityTo", fn, n))
    fn = prog.fn("Avoid::ConnEnd::getHyperedgeVertex")
    for lhs, node, op in writes(fn):
        if norm(lhs) == "vertex" and "m_vertex" in norm(node["ch"][1]):
            sites.append(("getHyperedgeVertex", fn, node))
    fn = prog.fn("Avoid::Obstacle::possiblePinPoints")
    for c in calls(fn):
        if c.get("cname", "").endswith("::push_back") and "m_vertex" in norm(call_args(c)[0]):
            sites.append(("possiblePinPoints", fn, c))
    names = {s_[0] for s_ in sites}
    if names != {"assignPinVisibilityTo", "getHyperedgeVertex", "possiblePinPoints"}:
        raise AnalysisBroken("pin availability sites not all found: %s" % sorted(names))
    for nm, f, node in sites:
        pc = classify(path_condition(f, node, inline=False))
        # the other conjuncts of the site's own path (is this end attached to a shape / pin at all, ...) are not part of the availability test:
        # compare on the three availability atoms only, for every valuation of the rest
        avail = sorted(atoms(OFFER))
        rest = sorted(atoms(pc) - set(avail))
        import itertools as _it
        narrower = wider = None
        for rv in _it.product((False, True), repeat=len(rest)):
            env0 = dict(zip(rest, rv))
            rows = []
            for av in _it.product((False, True), repeat=len(avail)):
                env = dict(env0)
                env.update(zip(avail, av))
                rows.append((evalf(pc, env), evalf(OFFER, env), dict(zip(avail, av))))
            if not any(a for a, b, e in rows):
                continue            # this valuation of the other conditions never reaches the site
            for a, b, e in rows:
                if b and not a:
                    narrower = narrower or e
                if a and not b:
                    wider = wider or e
        r.count()
        inst = "%s" % nm
        if wider:
            r.bad(inst, f.loc(node), "a pin is used although the availability test fails (%s)" % wider)
        elif narrower:
            r.bad(inst, f.loc(node), "an available pin is skipped here but offered by the other sites (%s)" % narrower)
        else:
            r.ok(inst, f.loc(node))


def _rename(f):
    if f[0] == "atom":
        return ("atom", f[1].replace("curr.*.", "currPin."))
    if f[0] == "const":
        return f
    if f[0] == "not":
        return ("not", _rename(f[1]))
    return (f[0], _rename(f[1]), _rename(f[2]))


def rule_bookkeeping(chk, prog):
    r = chk.rule("PIN-BOOKKEEPING", "ShapeConnectionPin::m_connend_users is modified only by ConnEnd::usePin (insert(this)) and "
                 "ConnEnd::freeActivePin (erase(this)) and emptied by the pin's destructor; ConnEnd::m_active_pin is stored only there; "
                 "freeActivePin always clears m_active_pin; Router::rerouteAndCallbackConnectors frees active pins before routing", floor=4)
    allowed_users = {"Avoid::ConnEnd::usePin": "insert", "Avoid::ConnEnd::freeActivePin": "erase"}
    for f in prog.all_functions():
        for n in calls(f):
            cn = n.get("cname", "")
            if not cn.startswith("std::set<Avoid::ConnEnd *"):
                continue
            meth = cn.split("::")[-1]
            if meth not in ("insert", "erase", "clear", "swap"):
                continue
            obj = call_object(n)
            if obj is None or not norm(obj).endswith("m_connend_users"):
                continue
            r.count()
            inst = "%s: m_connend_users.%s" % (f.q, meth)
            if allowed_users.get(f.q) == meth and norm(call_args(n)[0]) == "this":
                r.ok(inst, f.loc(n))
            elif f.q == "Avoid::ShapeConnectionPin::~ShapeConnectionPin":
                r.ok(inst, f.loc(n), "destructor", nontrivial=False)
            else:
                r.bad(inst, f.loc(n), "the set of users of a pin is modified outside usePin/freeActivePin")
        for lhs, node, op in writes(f):
            fq, elem, mn = written_field(lhs)
            if fq == "Avoid::ConnEnd::m_active_pin":
                r.count()
                if f.q in ("Avoid::ConnEnd::usePin", "Avoid::ConnEnd::freeActivePin") or f.kind == "ctor":
                    r.ok("%s: m_active_pin =" % f.q, f.loc(node))
                else:
                    r.bad("%s: m_active_pin =" % f.q, f.loc(node), "active pin changed outside usePin/freeActivePin")
    fn = prog.fn("Avoid::ConnEnd::freeActivePin")
    g = CFG(fn)
    clr = [node["id"] for lhs, node, op in writes(fn) if written_field(lhs)[0] == "Avoid::ConnEnd::m_active_pin" and literal_value(node["ch"][1]) == "null"]
    if not clr or g.exit_reachable_avoiding(clr) is not None:
        r.bad("freeActivePin clears", fn.where(), "freeActivePin can return with m_active_pin still set")
    else:
        r.ok("freeActivePin clears", fn.where())
    fn = prog.fn("Avoid::ConnEnd::usePin")
    ins = [n for n in calls(fn) if n.get("cname", "").endswith("::insert")]
    if not ins or not entails(path_condition(fn, ins[0], inline=False), ("atom", "m_active_pin")):
        r.bad("usePin inserts", fn.where(), "usePin does not register the connector end with the pin it records")
    else:
        r.ok("usePin inserts", fn.where())
    fn = prog.fn("Avoid::Router::rerouteAndCallbackConnectors")
    g = CFG(fn)
    free = [n for n in calls(fn) if n.get("cname") == "Avoid::ConnRef::freeActivePins"]
    gen = [n for n in calls(fn) if n.get("cname") == "Avoid::ConnRef::generatePath"]
    if not free or not gen:
        raise AnalysisBroken("rerouteAndCallbackConnectors: freeActivePins / generatePath calls not found")
    bad = None
    lp = [a for a in fn.ancestors(free[0]) if a.get("k") == "ForStmt"]
    if not lp:
        bad = "freeActivePins is not applied in a loop over all connectors"
    else:
        L = lp[0]
        ini = L["init"]["decls"][0] if L.get("init") is not None and L["init"].get("k") == "DeclStmt" else None
        sal = single_assignment_locals(fn)
        if ini is None or "connRefs.begin()" not in norm(ini.get("init")) or not (
                "connRefs.end()" in norm(L.get("cond"), sal) or norm(L.get("cond")) == "(%s != fin)" % ini["name"]):
            bad = "the pin-freeing loop does not cover connRefs.begin()..end()"
        elif g.iteration_can_skip(L, [free[0]["id"]]) is not None and [
                a for a in atoms(path_condition(fn, free[0], inline=False, early=True)) if not re.search(r"fixed.?route", a, re.I) and a != norm(L.get("cond"))]:
            # (connectors with a fixed route are not routed again and keep their pins: FIXED-ROUTE-KEEPS-PINS)
            bad = "freeActivePins is skipped for connectors that are routed again"
        else:
            cond_id = strip(L["cond"])["id"]
            for g_ in gen:
                if g.must_precede([cond_id], g_["id"]) is not None:
                    bad = "connectors are rerouted before the pins held from the previous routing are freed"
    (r.bad if bad else r.ok)("rerouteAndCallbackConnectors frees pins", fn.where(), bad or "")


def rule_temp_vis(chk, prog):
    r = chk.rule("PIN-TEMP-VIS", "ConnRef::generatePath: after assignConnectionPinVisibility(true) every path to a normal exit passes "
                 "assignConnectionPinVisibility(false)", floor=1)
    fn = prog.fn("Avoid::ConnRef::generatePath")
    g = CFG(fn)
    on = [n for n in calls(fn) if n.get("cname") == "Avoid::ConnRef::assignConnectionPinVisibility" and literal_value(call_args(n)[0]) == "true"]
    off = [n for n in calls(fn) if n.get("cname") == "Avoid::ConnRef::assignConnectionPinVisibility" and literal_value(call_args(n)[0]) == "false"]
    if not on:
        raise AnalysisBroken("generatePath: assignConnectionPinVisibility(true) not found")
    bad = None
    for o in on:
        w = g.must_follow(o["id"], [x["id"] for x in off])
        if w is not None:
            bad = "temporary pin visibility is left in the graph along %s" % g.describe(w)
    r.count(len(on))
    (r.bad if bad else r.ok)("Avoid::ConnRef::generatePath", fn.where(), bad or "")


def rule_checkpoint_dirs(chk, prog):
    r = chk.rule("CHECKPOINT-DIRS", "ConnRef::generateCheckpointsPath: for each leg end X (start, end) restricted with "
                 "X->setVisibleDirections(d != ConnDirAll) there is X->setVisibleDirections(ConnDirAll) whose execution condition is implied "
                 "by the restriction's condition, placed after the search of that leg and before the leg index is advanced", floor=2)
    fn = prog.fn("Avoid::ConnRef::generateCheckpointsPath")
    g = CFG(fn)
    cs = [n for n in calls(fn) if n.get("cname") == "Avoid::VertInf::setVisibleDirections"]
    search = [n for n in calls(fn) if n.get("cname", "").endswith("AStarPath::search")]
    if not cs or not search:
        raise AnalysisBroken("generateCheckpointsPath: direction handling not found")
    restr = [n for n in cs if norm(call_args(n)[0]) != "Avoid::ConnDirAll"]
    rest = [n for n in cs if norm(call_args(n)[0]) == "Avoid::ConnDirAll"]
    adv = [node for lhs, node, op in writes(fn) if norm(lhs) == "lastSuccessfulIndex" and op == "="]
    for x in restr:
        obj = norm(call_object(x))
        inst = "%s restricted" % obj
        r.count()
        cand = [y for y in rest if norm(call_object(y)) == obj]
        pcx = path_condition(fn, x, inline=False)
        ok = False
        why = "no matching setVisibleDirections(ConnDirAll)"
        for y in cand:
            pcy = path_condition(fn, y, inline=False)
            if not entails(pcx, pcy):
                why = "the restoring call runs under %s, which the restriction's condition %s does not imply" % (show(pcy)[:120], show(pcx)[:120])
                continue
            if g.must_precede([search[0]["id"]], y["id"]) is not None:
                why = "directions are restored before the search"
                continue
            if g.must_precede([x["id"]], search[0]["id"]) is None and False:
                pass
            late = [a for a in adv if a["id"] in g.pos and g.search([g.after(search[0]["id"])], blocked=[y["id"], _enclosing_if_cond(fn, y)], targets=[a["id"]]) is not None]
            if late:
                why = "the leg index is advanced on a path that bypasses the restoring call"
                continue
            ok = True
        (r.ok if ok else r.bad)(inst, fn.loc(x), "" if ok else why)
    # the restriction happens before the search
    for x in restr:
        if g.search([g.after(search[0]["id"])], targets=[x["id"]], blocked=[_loop_cond(fn, x)]) is not None:
            r.bad("%s order" % norm(call_object(x)), fn.loc(x), "direction restriction applied after the search of the same leg")


def _enclosing_if_cond(fn, n):
    for a in fn.ancestors(n):
        if a.get("k") == "IfStmt":
            return strip(a["cond"])["id"]
    return -1


def _loop_cond(fn, n):
    for a in fn.ancestors(n):
        if a.get("k") in ("ForStmt", "WhileStmt") and a.get("cond") is not None:
            return strip(a["cond"])["id"]
    return -1


POLY_FIELDS = {"Avoid::Obstacle::m_polygon", "Avoid::JunctionRef::m_position"}


def rule_pins_follow(chk, prog):
    r = chk.rule("PINS-FOLLOW-SHAPES", "every non-constructor function that stores Obstacle::m_polygon or JunctionRef::m_position, and the "
                 "moveAttachedConns / transformConnectionPinPositions functions, run -- after the store -- a loop over all "
                 "m_connection_pins whose every iteration calls ShapeConnectionPin::updatePosition / updatePositionAndVisibility, "
                 "or delegate to such a function", floor=4)
    updaters = set()
    cands = []
    for f in prog.all_functions():
        if f.kind in ("ctor", "dtor") or f.tmpl == "pattern":
            continue
        stores = [node for lhs, node, op in writes(f) if written_field(lhs)[0] in POLY_FIELDS and not written_field(lhs)[1]]
        named = f.q in ("Avoid::ShapeRef::moveAttachedConns", "Avoid::JunctionRef::moveAttachedConns", "Avoid::ShapeRef::transformConnectionPinPositions")
        if stores or named:
            cands.append((f, stores))
    # first pass: functions with a complete pin-update loop
    def has_loop(f, after_ids):
        g = CFG(f)
        # the pins may be walked in the set itself or in a local copy of the whole set (`std::vector<..> pins(set.begin(), set.end())`:
        # the set's own order is being rewritten by transformConnectionPinPositions)
        whole = ["m_connection_pins"]
        for d in f.nodes():
            if d.get("k") == "VarDecl" and d.get("init") is not None and d.get("name"):
                a = [norm(x) for x in (strip(d["init"]) or {}).get("ch", [])]
                if len(a) >= 2 and "m_connection_pins.begin()" in a[0] and "m_connection_pins.end()" in a[1]:
                    whole.append(d["name"])
        for lp in [n for n in f.nodes() if n.get("k") == "ForStmt"]:
            ini = lp.get("init")
            if ini is None or ini.get("k") != "DeclStmt" or not any(w + ".begin()" in norm(ini["decls"][0].get("init")) for w in whole):
                continue
            if not any(w + ".end()" in norm(lp.get("cond")) for w in whole):
                continue
            ups = [c["id"] for c in walk(lp["body"]) if c.get("cname", "").startswith("Avoid::ShapeConnectionPin::updatePosition")]
            if not ups or g.iteration_can_skip(lp, ups) is not None:
                continue
            # the loop is reached on every path after each store
            ok = True
            for sid in after_ids:
                if g.must_follow(sid, [ini["id"]]) is not None:
                    ok = False
            if ok:
                return True
        return False
    for f, stores in cands:
        if has_loop(f, [s_["id"] for s_ in stores]):
            updaters.add(f.key)
    for f, stores in sorted(cands, key=lambda x: x[0].key):
        r.count()
        if f.key in updaters:
            r.ok(f.q, f.where(), "updates every pin")
            continue
        # delegation: after the store, a call to an updater on every path
        g = CFG(f)
        dele = [n["id"] for n in calls(f) if n.get("callee") in updaters]
        if dele and all(g.must_follow(s_["id"], dele) is None for s_ in stores):
            r.ok(f.q, f.where(), "delegates to a function that updates every pin")
        else:
            r.bad(f.q, f.loc(stores[0]) if stores else f.where(), "replaces the shape geometry without repositioning the shape's connection pins "
                  "(pins and attached connector ends would stay at the old place)")


def rule_pin_update_source(chk, prog):
    r = chk.rule("PIN-UPDATE-SOURCE", "every call pin->updatePosition(P) with a polygon P passes the obstacle's own polygon -- the member "
                 "Obstacle::m_polygon that ShapeConnectionPin::position() reads through m_shape->polygon(), or the caller's polygon "
                 "parameter that the router also hands to setNewPoly -- never a derived polygon (routing/buffered polygon, a local)", floor=2)
    acc = prog.fn("Avoid::Obstacle::polygon")
    rets = [norm(n["ch"][0]) for n in acc.nodes() if n.get("k") == "ReturnStmt" and n.get("ch")]
    if rets != ["m_polygon"]:
        raise AnalysisBroken("Obstacle::polygon() no longer returns m_polygon: %s" % rets)
    k = 0
    for f in prog.all_functions():
        if f.tmpl == "pattern" or not f.file.endswith(".cpp") or "/libavoid/" not in f.file:
            continue
        for n in calls(f):
            if n.get("cname") != "Avoid::ShapeConnectionPin::updatePosition":
                continue
            a = call_args(n)
            if not a or "Polygon" not in strip(a[0]).get("t", ""):
                continue
            k += 1
            r.count()
            e = strip_casts(a[0])
            ok = (e.get("k") == "MemberExpr" and e.get("ref") == "Avoid::Obstacle::m_polygon" and norm(e) == "m_polygon") or \
                 (e.get("k") == "DeclRefExpr" and e.get("rk") == "ParmVar")
            inst = "%s: updatePosition(%s)" % (f.q, norm(a[0]))
            if ok:
                r.ok(inst, f.loc(n))
            else:
                r.bad(inst, f.loc(n), "pins are repositioned from `%s`, which is not the shape's own polygon: routes would end where "
                      "ShapeConnectionPin::position() does not put the pin" % norm(a[0]))
    # the polygon parameter of moveAttachedConns is, at its call sites, the very polygon given to setNewPoly
    mv = [(f, n) for f in prog.all_functions() for n in calls(f) if n.get("cname") == "Avoid::ShapeRef::moveAttachedConns"]
    for f, n in mv:
        arg = norm(call_args(n)[0])
        decls = {d.get("did", d.get("id")): d for d in f.nodes() if d.get("k") == "VarDecl"}

        def through_ref(e):
            e = strip_casts(e)
            d = decls.get(e.get("did")) if e.get("k") == "DeclRefExpr" else None
            if d is not None and d.get("init") is not None and d.get("t", "").endswith("&"):
                return norm(d["init"])
            return norm(e)
        sets = [through_ref(call_args(c)[0]) for c in calls(f) if c.get("cname") == "Avoid::Obstacle::setNewPoly"]
        r.count()
        if arg in sets:
            r.ok("%s: moveAttachedConns(%s)" % (f.q, arg), f.loc(n), "same polygon as setNewPoly")
        else:
            r.bad("%s: moveAttachedConns(%s)" % (f.q, arg), f.loc(n), "pins are pre-positioned for `%s` but the shape is moved to %s" % (arg, sets))
    if k < 2:
        raise AnalysisBroken("only %d polygon updatePosition call sites found" % k)


def rule_pin_refresh(chk, prog):
    r = chk.rule("PIN-REFRESH", "ShapeConnectionPin::updatePositionAndVisibility (the only refresh after a shape transformation): every path to "
                 "a normal exit resets the vertex to position(), stores visDirections = directions() and rebuilds visibility; "
                 "updatePosition(P) resets the vertex to position(P) on every path", floor=4)
    fn = prog.fn("Avoid::ShapeConnectionPin::updatePositionAndVisibility")
    g = CFG(fn)
    sal = single_assignment_locals(fn)
    need = {
        "vertex reset to position()": [n["id"] for n in calls(fn) if n.get("cname") == "Avoid::VertInf::Reset" and
                                       norm(call_args(n)[-1], sal).replace("this.", "").startswith("position(")],
        "visDirections = directions()": [node["id"] for lhs, node, op in writes(fn) if written_field(lhs)[0] == "Avoid::VertInf::visDirections"
                                         and "directions()" in norm(node["ch"][1], sal)],
        "updateVisibility()": [n["id"] for n in calls(fn) if n.get("cname") == "Avoid::ShapeConnectionPin::updateVisibility"],
    }
    for what, ids in need.items():
        r.count()
        if not ids:
            r.bad("updatePositionAndVisibility: " + what, fn.where(), "missing: a transformed pin keeps its stale " + what.split(" ")[0])
            continue
        w = g.exit_reachable_avoiding(ids)
        if w is not None:
            r.bad("updatePositionAndVisibility: " + what, fn.where(), "skipped on %s: the pin's routing vertex keeps stale data while "
                  "position()/directions() report the new one" % g.describe(w))
        else:
            r.ok("updatePositionAndVisibility: " + what, fn.where())
    for f in prog.fns("Avoid::ShapeConnectionPin::updatePosition"):
        g = CFG(f)
        pn = f.params[0]["name"] if f.params else "?"
        ids = [n["id"] for n in calls(f) if n.get("cname") == "Avoid::VertInf::Reset" and
               norm(call_args(n)[-1]) in (pn, "position(%s)" % pn, "this.position(%s)" % pn)]
        r.count()
        w = g.exit_reachable_avoiding(ids) if ids else []
        if w is not None:
            r.bad("updatePosition(%s)" % (f.params[0]["t"] if f.params else ""), f.where(), "the vertex is not reset to the new position on every path")
        else:
            r.ok("updatePosition(%s)" % (f.params[0]["t"] if f.params else ""), f.where())


def rule_connend_queue(chk, prog):
    from ..microai.interp import default_obj, Oracle
    import itertools
    r = chk.rule("CONNEND-QUEUE", "ActionInfo::addConnEndUpdate interpreted on every sequence of up to three queued end-point changes (end "
                 "type src/tar, user change or pin-follow update): per end type at most one entry is kept; a user change replaces the "
                 "queued entry of its end, a pin-follow update (shape moved) never replaces a queued change and is appended only when its "
                 "end has none -- so re-attaching an end and moving the old shape in one transaction keeps the user's choice; ShapeRef:: and "
                 "JunctionRef::moveAttachedConns both queue their updates with the pin-move flag set", floor=3)
    fn = prog.fn("Avoid::ActionInfo::addConnEndUpdate")
    n = 0
    bad = None
    ops = [(t, u) for t in (1, 2) for u in (False, True)]
    for k in (1, 2, 3):
        for seq in itertools.product(ops, repeat=k):
            ai = default_obj(prog, "Avoid::ActionInfo", {"type": 6, "conns": Vec([], "std::pair<unsigned int, Avoid::ConnEnd>")})
            it = Interp(prog, Oracle([]))
            model = []
            try:
                for j, (t, pinmove) in enumerate(seq):
                    ce = default_obj(prog, "Avoid::ConnEnd", {})
                    ce.f["_tag"] = j
                    it.call(fn, ai, None, None, arg_values=[t, ce, pinmove])
                    ex = [m for m in model if m[0] == t]
                    if ex:
                        if not pinmove:
                            ex[0][1] = j
                    else:
                        model.append([t, j])
            except (Unsupported, AssertFail) as e:
                raise AnalysisBroken("ActionInfo::addConnEndUpdate outside the interpreter subset: %s" % e)
            n += 1
            got = [[p_.f["first"], p_.f["second"].f.get("_tag")] for p_ in ai.f["conns"].items]
            if got != model:
                bad = bad or "after %s the queue is %s, expected %s" % (
                    ["%s %s" % ("src" if t == 1 else "tar", "pin-follow" if u else "user") for t, u in seq], got, model)
    r.count(n)
    (r.bad if bad else r.ok)("addConnEndUpdate", fn.where(), bad or "%d sequences" % n)
    # the two producers of pin-follow updates must mark them as such
    for q in ("Avoid::ShapeRef::moveAttachedConns", "Avoid::JunctionRef::moveAttachedConns"):
        f = prog.fn(q)
        sal = single_assignment_locals(f)
        cs = [c for c in calls(f) if c.get("cname") == "Avoid::Router::modifyConnector"]
        r.count()
        if not cs:
            r.bad(q, f.where(), "no longer queues an end-point update for the attached connector ends")
            continue
        prob = None
        for c in cs:
            a = call_args(c)
            v = None
            if len(a) >= 4:
                x = strip_casts(a[3])
                if x is not None and x.get("k") == "DeclRefExpr" and x.get("did") in sal:
                    x = strip_casts(sal[x["did"]])
                v = literal_value(x) if x is not None else None
            if str(v).lower() not in ("true", "1"):
                prob = prob or (c, "the update that follows the moved %s is queued as a USER change (pin-move flag %s): ActionInfo::addConnEndUpdate lets it "
                                "replace a change the user queued for the same end in this transaction" % ("shape" if "ShapeRef" in q else "junction", v))
        (r.bad if prob else r.ok)(q, f.loc(prob[0]) if prob else f.loc(cs[0]), prob[1] if prob else "pin-move flag true")


def rule_pin_position(chk, prog):
    r = chk.rule("PIN-POSITION", "ShapeConnectionPin::position(newPoly), symbolic over the bounding box (x0,y0,x1,y1), offsets and insideOffset: "
                 "proportional: x = x0 + inside | x1 - inside | x0 + t*(x1-x0) for LEFT | RIGHT | t; absolute: x = x0 + inside | x1 - inside | "
                 "x0 + off for MIN | MAX (or off == width) | off; same for y; junction pins sit at the junction position", floor=2)
    fn = prog.fn("Avoid::ShapeConnectionPin::position")
    x0, y0, x1, y1, ins = (Poly.var(v) for v in ("x0", "y0", "x1", "y1", "ins"))
    box = Obj("Avoid::Box", {"min": Obj("Avoid::Point", {"x": x0, "y": y0, "id": 0, "vn": 8}), "max": Obj("Avoid::Point", {"x": x1, "y": y1, "id": 0, "vn": 8})})
    hooks = {"Avoid::PolygonInterface::offsetBoundingBox": lambda it, n, env: copy.deepcopy(box),
             "Avoid::PolygonInterface::empty": lambda it, n, env: False,
             "Avoid::Polygon::empty": lambda it, n, env: False}
    npoly = Obj("Avoid::Polygon", {"_id": 0, "ps": Vec([]), "ts": Vec([])})
    for prop in (True, False):
        bad = None
        n_rows = 0
        xs = [("LEFT/MIN", Fraction(0)), ("RIGHT", Fraction(1)), ("MAX", Fraction(-1)), ("t", Poly.var("tx"))]
        ys = [("TOP/MIN", Fraction(0)), ("BOTTOM", Fraction(1)), ("MAX", Fraction(-1)), ("t", Poly.var("ty"))]
        for (xn, xo) in xs:
            for (yn, yo) in ys:
                if prop and (xn == "MAX" or yn == "MAX"):
                    continue
                if not prop and (xn == "RIGHT" or yn == "BOTTOM"):
                    continue
                from ..microai.interp import default_obj
                pin = default_obj(prog, "Avoid::ShapeConnectionPin", {"m_junction": None, "m_shape": Obj("Avoid::ShapeRef", {}), "m_using_proportional_offsets": prop,
                                                        "m_x_offset": xo, "m_y_offset": yo, "m_inside_offset": ins})

                def run(o, pin=pin):
                    it = Interp(prog, o, hooks=hooks)
                    try:
                        return ("ret", it.call(fn, copy.deepcopy(pin), None, None, arg_values=[Box(copy.deepcopy(npoly))]))
                    except AssertFail as e:
                        return ("assert", str(e))
                try:
                    rows = enumerate_paths(run, limit=500)
                except Unsupported as e:
                    raise AnalysisBroken("ShapeConnectionPin::position outside the interpreter subset: %s" % e)
                n_rows += len(rows)
                for val, descr, out in rows:
                    if out[0] != "ret":
                        bad = "assertion path"
                        continue
                    d = {descr[k]: v for k, v in val.items()}
                    # skip sign classes where a symbolic offset coincides with a special value (t == 0, t == 1, off == width ...)
                    special = False
                    for k_, v_ in d.items():
                        if v_ == 0:
                            special = True
                    if special:
                        continue
                    px, py = to_poly(out[1].f["x"]), to_poly(out[1].f["y"])
                    wx = {"LEFT/MIN": x0 + ins, "RIGHT": x1 - ins, "MAX": x1 - ins}.get(xn)
                    wy = {"TOP/MIN": y0 + ins, "BOTTOM": y1 - ins, "MAX": y1 - ins}.get(yn)
                    if wx is None:
                        wx = x0 + (Poly.var("tx") * (x1 - x0) if prop else Poly.var("tx"))
                    if wy is None:
                        wy = y0 + (Poly.var("ty") * (y1 - y0) if prop else Poly.var("ty"))
                    if px != wx:
                        bad = "%s offsets, x attachment %s: x = %r, expected %r" % ("proportional" if prop else "absolute", xn, px, wx)
                    if py != wy:
                        bad = "%s offsets, y attachment %s: y = %r, expected %r" % ("proportional" if prop else "absolute", yn, py, wy)
        r.count(n_rows)
        (r.bad if bad else r.ok)("position/%s" % ("proportional" if prop else "absolute"), fn.where(), bad or "%d paths" % n_rows)


def rule_pin_directions(chk, prog):
    r = chk.rule("PIN-DIRECTIONS", "ShapeConnectionPin::directions(): explicit directions are returned unchanged; otherwise LEFT/RIGHT/TOP/BOTTOM "
                 "attachment gives ConnDirLeft/Right/Up/Down (combined for corners) and a centre pin gets ConnDirAll", floor=1)
    fn = prog.fn("Avoid::ShapeConnectionPin::directions")
    e = prog.enums.get("Avoid::ConnDirFlag")
    if e is None:
        raise AnalysisBroken("enum Avoid::ConnDirFlag not found")
    CD = {x["name"]: int(x["v"]) for x in e["enumerators"]}
    bad = None
    n = 0
    for vis in (CD["ConnDirNone"], CD["ConnDirUp"], CD["ConnDirLeft"] | CD["ConnDirDown"]):
        for xo, xd in ((Fraction(0), CD["ConnDirLeft"]), (Fraction(1), CD["ConnDirRight"]), (Fraction(1, 2), 0), (Fraction(1, 4), 0)):
            for yo, yd in ((Fraction(0), CD["ConnDirUp"]), (Fraction(1), CD["ConnDirDown"]), (Fraction(1, 2), 0)):
                from ..microai.interp import default_obj
                pin = default_obj(prog, "Avoid::ShapeConnectionPin", {"m_visibility_directions": vis, "m_x_offset": xo, "m_y_offset": yo})
                it = Interp(prog, type("O", (), {"choose": lambda *a, **k: 0})())
                try:
                    got = it.call(fn, pin, None, None, arg_values=[])
                except Unsupported as ex:
                    raise AnalysisBroken("directions() outside the interpreter subset: %s" % ex)
                n += 1
                want = vis if vis != CD["ConnDirNone"] else ((xd | yd) or CD["ConnDirAll"])
                if got != want:
                    bad = "directions() = %s for offsets (%s,%s) explicit=%s, expected %s" % (got, xo, yo, vis, want)
    r.count(n)
    (r.bad if bad else r.ok)("Avoid::ShapeConnectionPin::directions", fn.where(), bad or "%d rows" % n)


def rule_breakpoint_twins(chk, prog):
    from ..sibling.mirror import mirror_blocks_equal
    r = chk.rule("BREAKPOINT-TWINS", "LineSegment::insertBreakpointsBegin / insertBreakpointsFinish enter the vertices at the two ends of a horizontal "
                 "line into the crossing vertical line's breakpoint set by mirror-image code (begin <-> finish): same position, same vertex, the "
                 "direction flags computed for the same dimension -- a pin's permitted directions are read for the wrong axis if one end differs", floor=1)
    fa = prog.fn("Avoid::LineSegment::insertBreakpointsBegin")
    fb = prog.fn("Avoid::LineSegment::insertBreakpointsFinish")
    la = [n for n in fa.nodes() if n.get("k") == "ForStmt"]
    lb = [n for n in fb.nodes() if n.get("k") == "ForStmt"]
    if len(la) != 1 or len(lb) != 1:
        raise AnalysisBroken("insertBreakpointsBegin / Finish: expected one loop over the line's vertices each")
    r.count()
    ok, where = mirror_blocks_equal(la[0]["body"], lb[0]["body"], "begin/finish")
    if ok:
        r.ok("breakpoint insertion at both ends", fa.where())
    else:
        r.bad("breakpoint insertion at both ends", fb.loc(lb[0]), "the two ends differ: ...%s... vs ...%s..." % (where[0][-70:], where[1][-70:]))


def rule_checkpoints_on_segment(chk, prog):
    """Which checkpoints keep a route segment where it is (nudging must not centre a segment past its checkpoint)."""
    from ..microai.interp import Oracle, default_obj
    r = chk.rule("CHECKPOINTS-ON-SEGMENT", "Polygon::checkpointsOnSegment(k, modifier) interpreted on a five-point route that has one checkpoint at every "
                 "position code 0..8 (even codes: on route point code/2, odd codes: inside the segment after it): it returns exactly the "
                 "checkpoints with code in [2k, 2k+2] -- the segment's two corners and its interior --, without the start corner (2k) for "
                 "modifier +1 and without the end corner (2k+2) for modifier -1, for every segment k and modifier in {-1, 0, +1} "
                 "(the contract stated in geomtypes.h; nudging reads it to decide how far a segment may move)", floor=12)
    fn = prog.fn("Avoid::Polygon::checkpointsOnSegment")
    for k in range(4):
        for mod in (-1, 0, 1):
            cps = Vec([Obj("std::pair", {"first": c, "second": default_obj(prog, "Avoid::Point", {"x": Fraction(c), "y": Fraction(0), "id": 0, "vn": 8})})
                       for c in (4, 0, 7, 1, 8, 2, 5, 3, 6)], "std::pair<unsigned long, Avoid::Point>")
            poly = default_obj(prog, "Avoid::Polygon", {"checkpointsOnRoute": cps})
            it = Interp(prog, Oracle([]))
            r.count()
            try:
                out = it.call(fn, poly, None, None, arg_values=[k, mod])
            except Unsupported as e:
                raise AnalysisBroken("checkpointsOnSegment outside the interpreter subset: %s" % e)
            got = sorted(int(p_.f["x"]) for p_ in out.items)
            want = [c for c in (2 * k, 2 * k + 1, 2 * k + 2) if not (mod > 0 and c == 2 * k) and not (mod < 0 and c == 2 * k + 2)]
            (r.ok if got == want else r.bad)("segment %d, modifier %+d" % (k, mod), fn.where(), "" if got == want else
                                             "returns the checkpoints with codes %s, expected %s" % (got, want))


def rule_checkpoints_change_reroutes(chk, prog):
    r = chk.rule("CHECKPOINT-CHANGE-REROUTES", "ConnRef::setRoutingCheckpoints, like its sibling setRoutingType, reaches its end only through "
                 "makePathInvalid() and Router::modifyConnector(this): the route an already routed connector has was computed for the previous "
                 "checkpoints, and nothing else in a transaction looks at a connector whose reroute flag is clear -- without the two calls the "
                 "connector never visits the new checkpoints", floor=2)
    for q, cond in (("Avoid::ConnRef::setRoutingCheckpoints", False), ("Avoid::ConnRef::setRoutingType", True)):
        fn = prog.fn(q)
        g = CFG(fn)
        r.count()
        inv = [c for c in calls(fn) if c.get("cname") == "Avoid::ConnRef::makePathInvalid"]
        mod = [c for c in calls(fn) if (c.get("cname") or "").startswith("Avoid::Router::modifyConnector")]
        bad = None
        if not inv or not mod:
            bad = "%s is not called: the connector keeps the route computed for the previous %s" % (
                "makePathInvalid()" if not inv else "Router::modifyConnector", "type" if cond else "checkpoints")
        elif not cond:
            for what, cs_ in (("makePathInvalid()", inv), ("Router::modifyConnector", mod)):
                w = g.exit_reachable_avoiding([c["id"] for c in cs_])
                if w is not None:
                    bad = bad or "a path through the function avoids %s (%s)" % (what, g.describe(w))
        else:
            ats = atoms(path_condition(fn, inv[0], inline=False))
            if len(ats) != 1 or "m_type" not in sorted(ats)[0]:
                bad = "makePathInvalid() only under %s" % sorted(ats)
        (r.bad if bad else r.ok)(q.split("::")[-1], fn.where(), bad or "")


def rule_no_nested_transaction(chk, prog):
    from ..callgraph import CallGraph
    r = chk.rule("NO-NESTED-TRANSACTION", "Router::processActions moves the ends of the connectors attached to a moved shape / junction through the "
                 "public Router::modifyConnector, which starts processTransaction() itself when transactions are off; the action being "
                 "processed is still in the list then, so the nested transaction processes it again, without end.  Every call of "
                 "processTransaction that the call graph reaches from processActions is guarded by !m_consolidate_actions, and processActions "
                 "sets m_consolidate_actions before its first call that reaches such a site and restores the saved value on every way out", floor=3)
    cg = CallGraph(prog)
    pa = prog.fn("Avoid::Router::processActions")
    pt = prog.fn("Avoid::Router::processTransaction")
    reach = cg.reachable([pa.key])
    sites = [(f, n) for f, n in cg.callers(pt.key) if f.key in reach and f.key != pa.key]
    if not sites:
        raise AnalysisBroken("no call of processTransaction is reachable from processActions any more: rule out of date")
    g = CFG(pa)
    sets = [node for lhs, node, op in writes(pa) if written_field(lhs)[0] == "Avoid::Router::m_consolidate_actions" and op == "="]
    force = [n for n in sets if literal_value(n["ch"][1]) == "true"]
    saved = [d for d in pa.nodes() if d.get("k") == "VarDecl" and d.get("init") is not None and "m_consolidate_actions" in norm(d["init"])]
    restore = [n for n in sets if saved and any(x.get("k") == "DeclRefExpr" and x.get("did") == saved[0].get("did") for x in walk(n["ch"][1]))]
    for f, n in sites:
        r.count()
        inst = "processTransaction() in %s" % f.q
        pc = path_condition(f, n, inline=False)
        if not entails(pc, ("not", ("atom", "m_consolidate_actions"))):
            r.bad(inst, f.loc(n), "this call is reachable from processActions (%s) and not guarded by !m_consolidate_actions" % " -> ".join(
                k.split("(")[0].split("::")[-1] for k in (cg.path(pa.key, lambda k_: k_ == f.key) or [])))
            continue
        bad = None
        if not force or not saved or not restore:
            bad = "processActions does not %s: with transactions off the nested call processes the same action list again (endless recursion)" % (
                "force m_consolidate_actions to true" if not force else "save / restore m_consolidate_actions")
        else:
            first = [c for c in calls(pa) if c.get("callee") and f.key in cg.reachable([c["callee"]] + sorted(cg.overriders.get(c["callee"], ())) if c.get("virt") else [c["callee"]])]
            for c in first:
                w = g.must_precede([force[0]["id"]], c["id"])
                if w is not None:
                    bad = "the call at line %s reaches %s before m_consolidate_actions is forced (%s)" % (c.get("l"), f.q, g.describe(w))
                    break
            if not bad:
                w = g.must_follow(force[0], [x["id"] for x in restore])
                if w is not None:
                    bad = "a way out of processActions leaves m_consolidate_actions forced (%s): transactions stay on for the caller" % g.describe(w)
        (r.bad if bad else r.ok)(inst, f.loc(n), bad or "")


def rule_fixed_route_keeps_pins(chk, prog):
    r = chk.rule("FIXED-ROUTE-KEEPS-PINS", "Router::rerouteAndCallbackConnectors frees the active pins of the connectors it is about to route again; "
                 "a connector with a fixed route is skipped by the routing loops that follow, so its pins must not be freed either (path "
                 "condition of the freeActivePins call entails !hasFixedRoute()) -- otherwise its exclusive pin looks free and the next "
                 "connector of that class takes it too", floor=1)
    fn = prog.fn("Avoid::Router::rerouteAndCallbackConnectors")
    fr = [c for c in calls(fn) if c.get("cname") == "Avoid::ConnRef::freeActivePins"]
    if not fr:
        raise AnalysisBroken("rerouteAndCallbackConnectors no longer frees active pins: rule out of date")
    gen = [c for c in calls(fn) if c.get("cname") == "Avoid::ConnRef::generatePath"]
    fixed_atom = lambda a: re.search(r"fixed.?route", a, re.I) is not None
    skip = [c for c in gen if any(fixed_atom(a) for a in atoms(path_condition(fn, c, inline=False, early=True)))]
    if not skip:
        raise AnalysisBroken("the routing loops of rerouteAndCallbackConnectors no longer skip fixed-route connectors: rule out of date")
    for c in fr:
        r.count()
        pc = path_condition(fn, c, inline=False, early=True)
        ats = [a for a in atoms(pc) if fixed_atom(a)]
        ok = bool(ats) and entails(pc, ("not", ("atom", ats[0])))
        (r.ok if ok else r.bad)("freeActivePins in rerouteAndCallbackConnectors", fn.loc(c), "" if ok else
                                "the pins of fixed-route connectors are freed although those connectors are not routed again (condition: %s)" % show(pc))


def rule_endpoint_takes_connend(chk, prog):
    r = chk.rule("ENDPOINT-TAKES-NEW-CONNEND", "ConnRef::common_updateEndPoint: whenever the new end is a pin / junction connection, the connector's "
                 "m_src_connend (m_dst_connend) becomes a fresh copy of the GIVEN ConnEnd -- under no condition other than the end type and "
                 "connEnd.isPinConnection(), and after the old one has been disconnected and freed; keeping the old ConnEnd because `the shape "
                 "is the same` keeps the old pin class as well", floor=2)
    fn = prog.fn("Avoid::ConnRef::common_updateEndPoint")
    pname = fn.params[1]["name"] if len(fn.params) > 1 else "connEnd"
    for fld in ("Avoid::ConnRef::m_src_connend", "Avoid::ConnRef::m_dst_connend"):
        r.count()
        news = [node for lhs, node, op in writes(fn) if written_field(lhs)[0] == fld and op == "=" and any(
            x.get("k") == "CXXNewExpr" for x in walk(node["ch"][1]))]
        bad = None
        if not news:
            bad = "%s is never given a copy of the new ConnEnd" % fld.split("::")[-1]
        else:
            n0 = news[0]
            ctor = [x for x in walk(n0["ch"][1]) if x.get("k") == "CXXConstructExpr"]
            if not ctor or pname not in norm(ctor[0]):
                bad = "the stored ConnEnd is not a copy of the given one"
            tname = fn.params[0]["name"]
            ats = [a for a in atoms(path_condition(fn, n0, inline=False)) if not re.search(r"\b%s\b" % re.escape(tname), a)
                   and a != "%s.isPinConnection()" % pname]
            if ats:
                bad = bad or "the new ConnEnd is stored only under %s" % sorted(ats)
            dis = [c for c in calls(fn) if c.get("cname") == "Avoid::ConnEnd::disconnect" and fld.split("::")[-1] in norm(call_object(c))]
            if dis:
                dats = [a for a in atoms(path_condition(fn, dis[0], inline=False)) if not re.search(r"\b%s\b" % re.escape(fn.params[0]["name"]), a)
                        and a != fld.split("::")[-1]]
                if dats:
                    bad = bad or "the old ConnEnd is disconnected only under %s" % sorted(dats)
        (r.bad if bad else r.ok)(fld.split("::")[-1], fn.loc(news[0]) if news else fn.where(), bad or "")


def rule_pin_by_vertex(chk, prog):
    from ..microai.interp import Oracle, default_obj
    r = chk.rule("ACTIVE-PIN-BY-VERTEX", "ConnEnd::usePinVertex interpreted on a shape with two pins of one class at ONE position (four exclusive "
                 "directional pins at a shape's centre are the usual case) and a third of another class, for each pin's vertex: usePin is "
                 "called exactly once, with the pin whose vertex IS the vertex the route went through -- matching by class and position marks "
                 "the wrong pin as used, so the used one still looks free", floor=3)
    fn = prog.fn("Avoid::ConnEnd::usePinVertex")

    def pt(x, y):
        return default_obj(prog, "Avoid::Point", {"x": Fraction(x), "y": Fraction(y)})
    for k in range(3):
        r.count()
        vs = [default_obj(prog, "Avoid::VertInf", {"point": pt(5, 5)}) for _ in range(3)]
        pins = [default_obj(prog, "Avoid::ShapeConnectionPin", {"m_class_id": c, "m_vertex": v}) for c, v in zip((1, 1, 2), vs)]
        shape = default_obj(prog, "Avoid::ShapeRef", {"m_connection_pins": Vec(list(pins), "Avoid::ShapeConnectionPin *")})
        ce = default_obj(prog, "Avoid::ConnEnd", {"m_anchor_obj": shape, "m_active_pin": None, "m_connection_pin_class_id": 1})
        used = []
        it = Interp(prog, Oracle([]), max_steps=100000)
        it.vhooks["Avoid::ConnEnd::usePin"] = lambda it_, recv, args: used.append(args[0])
        bad = None
        try:
            it.call(fn, ce, None, None, arg_values=[vs[k]])
        except Unsupported as e:
            raise AnalysisBroken("usePinVertex outside the interpreter subset: %s" % e)
        except AssertFail as e:
            bad = "assertion fails: %s" % e
        if not bad:
            if len(used) != 1:
                bad = "usePin is called %d times" % len(used)
            elif used[0] is not pins[k]:
                bad = "the route went through the vertex of pin %d, pin %d is marked as used" % (k, [i_ for i_, p_ in enumerate(pins) if p_ is used[0]][0])
        (r.bad if bad else r.ok)("route through pin %d of three (pins 0 and 1 share class and position)" % k, fn.where(), bad or "")


def rule_improver_checkpoints(chk, prog):
    r = chk.rule("IMPROVER-KEEPS-CHECKPOINTS", "the hyperedge improver (on by default) rewrites the display routes of all connectors attached to "
                 "junctions from its own tree: to keep a connector's checkpoints on its route it has to read them -- some function of "
                 "HyperedgeImprover / HyperedgeTreeNode / HyperedgeTreeEdge refers to ConnRef::routingCheckpoints() or m_checkpoints (to leave "
                 "such hyperedges alone, or to pin the segments that carry a checkpoint)", floor=1)
    readers = []
    for f in prog.all_functions():
        if not f.body or not str(f.q).startswith(("Avoid::HyperedgeImprover::", "Avoid::HyperedgeTreeNode::", "Avoid::HyperedgeTreeEdge::")):
            continue
        for n in f.nodes():
            if n.get("cname") == "Avoid::ConnRef::routingCheckpoints" or (n.get("k") == "MemberExpr" and n.get("ref") in (
                    "Avoid::ConnRef::m_checkpoints", "Avoid::ConnRef::m_checkpoint_vertices")):
                readers.append((f, n))
    r.count()
    ex = prog.fn("Avoid::HyperedgeImprover::execute")
    (r.ok if readers else r.bad)("improver reads the checkpoints", readers[0][0].loc(readers[0][1]) if readers else ex.where(), "" if readers else
                                 "no function of the hyperedge improver ever looks at a connector's checkpoints: the route it writes back for a "
                                 "junction-attached connector with checkpoints does not visit them")


def run(chk):
    prog = chk.load()
    chk.guard(rule_improver_checkpoints, chk, prog)
    chk.guard(rule_checkpoints_change_reroutes, chk, prog)
    chk.guard(rule_no_nested_transaction, chk, prog)
    chk.guard(rule_fixed_route_keeps_pins, chk, prog)
    chk.guard(rule_endpoint_takes_connend, chk, prog)
    chk.guard(rule_pin_by_vertex, chk, prog)
    chk.guard(rule_checkpoints_on_segment, chk, prog)
    chk.guard(rule_pin_offer, chk, prog)
    chk.guard(rule_pin_offer_twins, chk, prog)
    chk.guard(rule_bookkeeping, chk, prog)
    chk.guard(rule_temp_vis, chk, prog)
    chk.guard(rule_checkpoint_dirs, chk, prog)
    chk.guard(rule_pins_follow, chk, prog)
    chk.guard(rule_pin_update_source, chk, prog)
    chk.guard(rule_pin_refresh, chk, prog)
    chk.guard(rule_connend_queue, chk, prog)
    chk.guard(rule_pin_position, chk, prog)
    chk.guard(rule_pin_directions, chk, prog)
    chk.guard(rule_breakpoint_twins, chk, prog)
