"""C12 -- libavoid hyperedges stay spanning trees over the same terminals: the write-back of a hyperedge tree.

The property (tree-ness after arbitrary rerouting / improvement on run-time graphs) is NOT decided.  Decided is the part that is
visible in code: how a HyperedgeTreeNode/HyperedgeTreeEdge tree -- the temporary mirror that rerouting and improvement edit -- is written
back to connectors and junctions.

  TREE-WRITEBACK     HyperedgeTreeNode::addConns + listJunctionsAndConnectors + writeEdgesToConns (two passes), interpreted on abstract
                     trees (hand-made shapes and all generated trees up to 7 nodes: leaves are terminals, branching nodes junctions,
                     degree-2 nodes junctions or plain bends): every tree edge gets a connector; the edges of one junction-free path
                     share one connector and different paths get different ones; every connector gets exactly one source end (the
                     junction it starts at) and exactly one target end (the junction or terminal the path ends at); every terminal is
                     the end of exactly one connector -- so connectors + junctions form the same tree, with exactly the tree's terminals
                     as leaves; the lists of junctions / connectors name each exactly once; each connector's written route runs through
                     the points of its path, between the positions of its two ends
  REROUTE-LISTS      HyperedgeRerouter::performRerouting: for every hyperedge with terminals the tree is written back (addConns, then
                     listJunctionsAndConnectors into the *new* lists, then both passes of writeEdgesToConns), and every old connector /
                     junction registered as deleted is handed to Router::deleteConnector / deleteJunction (no iteration skips)
Not decided: that the MTST / improver produce a tree over all terminals; junction positions; cycles in user-built hyperedges.
"""
import itertools
import re
from fractions import Fraction

from ..astq import strip, strip_casts, calls, call_args, call_object, norm, writes, written_field, literal_value
from ..cfg import CFG
from ..facts import AnalysisBroken, walk
from ..microai.interp import Interp, Obj, Vec, Box, Oracle, AssertFail, Thrown, Unsupported, default_obj


def P(prog, x, y):
    return default_obj(prog, "Avoid::Point", {"x": Fraction(x), "y": Fraction(y), "id": 0, "vn": 8})


def build(prog, spec):
    nodes = {}
    for nm, (kind, pt) in spec["nodes"].items():
        n = default_obj(prog, "Avoid::HyperedgeTreeNode", {"edges": Vec([], "Avoid::HyperedgeTreeEdge *"), "point": P(prog, *pt)})
        n.f["_name"] = nm
        if kind in ("J", "X"):
            n.f["junction"] = default_obj(prog, "Avoid::JunctionRef", {"m_position": P(prog, *pt)})
            n.f["junction"].f["_name"] = "J:" + nm
        if kind in ("T", "S", "D", "X"):
            # X: the dummy centre vertex of a terminal whose pin class has several pins, after the spanning tree has passed THROUGH it
            # (MinimumTerminalSpanningTree::addNode turns the already existing terminal node into a junction): junction and terminal at once
            n.f["finalVertex"] = default_obj(prog, "Avoid::VertInf", {"point": P(prog, *pt)})
            n.f["finalVertex"].f["_name"] = "T:" + nm
        if kind == "S":
            n.f["isConnectorSource"] = True
        if kind in ("D", "Q", "X"):
            # D: the dummy end-point vertex behind a connection pin; Q: its orthogonal-partner copy (same position), through which the
            # spanning tree reaches D when the pin is entered in the other dimension.  Both are flagged by the tree builder
            # (rule DUMMY-NODES-FLAGGED checks MinimumTerminalSpanningTree::buildHyperedgeTreeToRoot for that).
            n.f["isPinDummyEndpoint"] = True
        nodes[nm] = n
    edges = []
    for a, b in spec["edges"]:
        e = default_obj(prog, "Avoid::HyperedgeTreeEdge", {"conn": None})
        e.f["ends"] = Obj("std::pair", {"first": nodes[a], "second": nodes[b]})
        e.f["_name"] = (a, b)
        nodes[a].f["edges"].items.append(e)
        nodes[b].f["edges"].items.append(e)
        edges.append(e)
    return nodes, edges


def expected_paths(spec, root):
    """Maximal paths of the tree whose inner nodes are plain (non-junction, non-terminal): (start junction, [nodes...], end)."""
    adj = {}
    for a, b in spec["edges"]:
        adj.setdefault(a, []).append(b)
        adj.setdefault(b, []).append(a)
    kind = {k: v[0] for k, v in spec["nodes"].items()}
    paths = []

    def walk_from(j, parent):
        for nb in adj.get(j, []):
            if nb == parent:
                continue
            path = [j, nb]
            prev, cur = j, nb
            while kind[cur] in ("N", "Q"):
                nxt = [x for x in adj[cur] if x != prev]
                if len(nxt) != 1:
                    break
                prev, cur = cur, nxt[0]
                path.append(cur)
            paths.append(path)
            if kind[cur] in ("J", "X"):
                walk_from(cur, path[-2])
    walk_from(root, None)
    return paths


def run_tree(prog, spec, root, old_conns_know_terminals=True):
    nodes, edges = build(prog, spec)
    conns = []

    def conn_ctor(it, o, args, env):
        o.f["_ends"] = {}
        o.f["_id"] = len(conns)
        conns.append(o)
        o.f["m_display_route"] = default_obj(prog, "Avoid::Polygon", {"ps": Vec([], "Avoid::Point")})

    def ce_ctor(it, o, args, env):
        if args:
            o.f["_junction"] = it.ev(args[0], env)

    def upd(it, n, env):
        c = it.ev(call_object(n), env)
        a = call_args(n)
        ty, ce = it.ev(a[0], env), it.ev(a[1], env)
        c.f["_ends"].setdefault(ty, []).append(ce)
        c.f["m_dst_connend" if ty == 2 else "m_src_connend"] = ce
        return None

    def getce(it, n, env):
        a = call_args(n)
        v = it.ev(a[0], env)
        if not old_conns_know_terminals:
            return False
        ce = default_obj(prog, "Avoid::ConnEnd", {})
        ce.f["_terminal"] = v.f["_name"]
        it.lv(a[1], env).set(ce)
        return True
    hooks = {"Avoid::Router::removeObjectFromQueuedActions": lambda it, n, env: None, "Avoid::ConnRef::makeActive": lambda it, n, env: None,
             "Avoid::ConnRef::updateEndPoint": upd, "Avoid::ConnRef::getConnEndForEndpointVertex": getce,
             "Avoid::ConnEnd::junction": lambda it, n, env: it.ev(call_object(n), env).f.get("_junction"),
             "Avoid::Router::debugHandler": lambda it, n, env: None, "Avoid::ConnRef::router": lambda it, n, env: None}
    it = Interp(prog, Oracle([]), hooks=hooks)
    it.ctor_hooks = {"Avoid::ConnRef": conn_ctor, "Avoid::ConnEnd": ce_ctor}
    router = default_obj(prog, "Avoid::Router", {})
    old = default_obj(prog, "Avoid::ConnRef", {})
    it.call(prog.fn("Avoid::HyperedgeTreeNode::addConns"), nodes[root], None, None,
            arg_values=[None, router, Box(Vec([old] if old_conns_know_terminals else [], "Avoid::ConnRef *")), None])
    js, cs = Vec([], "Avoid::JunctionRef *"), Vec([], "Avoid::ConnRef *")
    it.call(prog.fn("Avoid::HyperedgeTreeNode::listJunctionsAndConnectors"), nodes[root], None, None, arg_values=[None, Box(js), Box(cs)])
    wr = prog.fn("Avoid::HyperedgeTreeNode::writeEdgesToConns")
    for ps in (0, 1):
        it.call(wr, nodes[root], None, None, arg_values=[None, ps])
    return nodes, edges, conns, js, cs


def check_tree(prog, spec, root, old_conns_know_terminals=True):
    """Returns None or a description of the first deviation."""
    try:
        nodes, edges, conns, js, cs = run_tree(prog, spec, root, old_conns_know_terminals)
    except AssertFail as e:
        return "assertion fails while writing the tree back: %s" % e
    kind = {k: v[0] for k, v in spec["nodes"].items()}
    pt = {k: v[1] for k, v in spec["nodes"].items()}
    paths = expected_paths(spec, root)
    by_edge = {}
    for e in edges:
        if e.f["conn"] is None:
            return "tree edge %s-%s gets no connector" % e.f["_name"]
        by_edge[frozenset(e.f["_name"])] = e.f["conn"]
    used = []
    for path in paths:
        cset = {id(by_edge[frozenset((path[i], path[i + 1]))]) for i in range(len(path) - 1)}
        if len(cset) != 1:
            return "the junction-free path %s is split over %d connectors" % ("-".join(path), len(cset))
        c = by_edge[frozenset((path[0], path[1]))]
        if any(c is u for u in used):
            return "two different paths share connector %d" % c.f["_id"]
        used.append(c)

        def name(ce):
            return ce.f["_junction"].f["_name"] if ce.f.get("_junction") is not None else ce.f.get("_terminal")
        ends = {k: [name(x) for x in v] for k, v in c.f["_ends"].items()}
        want_src = "J:" + path[0]
        want_tar = ("J:" if kind[path[-1]] in ("J", "X") else "T:") + path[-1]
        if ends.get(1) != [want_src]:
            return "connector for path %s: source end(s) %s, expected exactly [%s]" % ("-".join(path), ends.get(1), want_src)
        if ends.get(2) != [want_tar]:
            return "connector for path %s: target end(s) %s, expected exactly [%s] (a dangling or doubly attached connector)" % (
                "-".join(path), ends.get(2), want_tar)
        rt = [(p_.f["x"], p_.f["y"]) for p_ in c.f["m_display_route"].f["ps"].items]
        want_rt = [tuple(Fraction(v) for v in pt[n_]) for n_ in path]
        if kind[path[-1]] == "D":
            # the dummy vertex behind a pin (and its orthogonal-partner copy, if the path went through it) is not part of the route;
            # the route ends at the pin position (the node before them), whether or not pin and dummy coincide
            want_rt = [tuple(Fraction(v) for v in pt[n_]) for n_ in path if kind[n_] not in ("D", "Q")]
        if rt != want_rt and rt != want_rt[::-1]:
            return "connector for path %s: written route %s, expected the points of the path %s (in either direction)" % (
                "-".join(path), [(str(a), str(b)) for a, b in rt], [(str(a), str(b)) for a, b in want_rt])
    if len(conns) != len(paths):
        return "%d connectors created for %d junction-free paths" % (len(conns), len(paths))
    for nm, k in kind.items():
        if k == "X":
            n_att = sum(1 for c in conns for v in c.f["_ends"].values() for x in v if x.f.get("_terminal") == "T:" + nm)
            if n_att != 1:
                return ("terminal T:%s, whose node the tree passes through (it is a junction as well), is the end of %d connectors, expected exactly 1: "
                        "the hyperedge loses this terminal" % (nm, n_att))
    want_js = sorted("J:" + k for k, v in kind.items() if v in ("J", "X"))
    got_js = sorted(j.f["_name"] for j in js.items)
    if got_js != want_js:
        return "list of junctions is %s, expected each junction once: %s" % (got_js, want_js)
    if sorted(c.f["_id"] for c in cs.items) != sorted(c.f["_id"] for c in conns):
        return "list of connectors names %s, expected each of the %d connectors once" % (sorted(c.f["_id"] for c in cs.items), len(conns))
    return None


HAND = [
    ("star", {"nodes": {"J": ("J", (0, 0)), "a": ("T", (10, 0)), "b": ("T", (0, 10)), "c": ("S", (-10, 0))},
              "edges": [("J", "a"), ("J", "b"), ("J", "c")]}, "J"),
    ("two junctions with a bend", {"nodes": {"J": ("J", (0, 0)), "n": ("N", (5, 0)), "a": ("T", (5, 5)), "K": ("J", (0, 10)), "b": ("T", (5, 10)),
                                             "c": ("T", (-5, 10)), "d": ("S", (-9, 0))},
                                   "edges": [("J", "n"), ("n", "a"), ("J", "K"), ("K", "b"), ("K", "c"), ("J", "d")]}, "J"),
    ("degree-2 junction", {"nodes": {"J": ("J", (0, 0)), "a": ("T", (10, 0)), "b": ("T", (0, 10)), "K": ("J", (-10, 0)), "c": ("T", (-20, 0))},
                           "edges": [("J", "a"), ("J", "b"), ("J", "K"), ("K", "c")]}, "J"),
    ("centre pin terminal (pin and dummy vertex coincide)",
     {"nodes": {"J": ("J", (0, 0)), "x": ("N", (6, 0)), "p": ("N", (10, 0)), "t": ("D", (10, 0)), "b": ("T", (0, 9)), "c": ("S", (-9, 0))},
      "edges": [("J", "x"), ("x", "p"), ("p", "t"), ("J", "b"), ("J", "c")]}, "J"),
    ("border pin terminal (dummy vertex at the shape centre)",
     {"nodes": {"J": ("J", (0, 0)), "p": ("N", (10, 0)), "t": ("D", (14, 0)), "b": ("T", (0, 9)), "c": ("S", (-9, 0))},
      "edges": [("J", "p"), ("p", "t"), ("J", "b"), ("J", "c")]}, "J"),
    ("border pin entered in the other dimension (dummy reached through its orthogonal-partner copy)",
     {"nodes": {"J": ("J", (0, 0)), "x": ("N", (10, 0)), "p": ("N", (10, 6)), "q": ("Q", (10, 9)), "t": ("D", (10, 9)), "b": ("T", (0, 9)), "c": ("S", (-9, 0))},
      "edges": [("J", "x"), ("x", "p"), ("p", "q"), ("q", "t"), ("J", "b"), ("J", "c")]}, "J"),
    ("centre pin entered in the other dimension (pin, partner copy and dummy vertex all coincide)",
     {"nodes": {"J": ("J", (0, 0)), "x": ("N", (10, 0)), "p": ("N", (10, 9)), "q": ("Q", (10, 9)), "t": ("D", (10, 9)), "b": ("T", (0, 9)), "c": ("S", (-9, 0))},
      "edges": [("J", "x"), ("x", "p"), ("p", "q"), ("q", "t"), ("J", "b"), ("J", "c")]}, "J"),
    ("terminal with a two-pin class that the tree passes through (its dummy centre node is junction and terminal at once)",
     {"nodes": {"x": ("X", (0, 0)), "p": ("N", (-4, 0)), "a": ("T", (-10, 0)), "q": ("N", (4, 0)), "b": ("T", (10, 0))},
      "edges": [("x", "p"), ("p", "a"), ("x", "q"), ("q", "b")]}, "x"),
    ("long bends", {"nodes": {"J": ("J", (0, 0)), "p": ("N", (3, 0)), "q": ("N", (3, 3)), "a": ("T", (6, 3)), "b": ("T", (0, 9)), "c": ("S", (-9, 0))},
                    "edges": [("J", "p"), ("p", "q"), ("q", "a"), ("J", "b"), ("J", "c")]}, "J"),
]


def generated_trees(max_nodes=7):
    """All unlabelled-shape trees via Pruefer sequences on up to max_nodes nodes (deduplicated by degree sequence + edges), with kinds:
    leaves terminals (the first leaf a connector source), nodes of degree >= 3 junctions, degree-2 nodes junction or plain (both)."""
    out = []
    seen = set()
    for n in range(4, max_nodes + 1):
        for seq in itertools.product(range(n), repeat=n - 2):
            deg = [1] * n
            for x in seq:
                deg[x] += 1
            edges = []
            d = list(deg)
            for x in seq:
                for leaf in range(n):
                    if d[leaf] == 1:
                        edges.append((leaf, x))
                        d[leaf] -= 1
                        d[x] -= 1
                        break
            rest = [i for i in range(n) if d[i] == 1]
            edges.append((rest[0], rest[1]))
            key = tuple(sorted(tuple(sorted(e)) for e in edges))
            if key in seen:
                continue
            seen.add(key)
            if max(deg) < 3:
                continue            # a path: no junction, not a hyperedge
            twos = [i for i in range(n) if deg[i] == 2]
            if len(twos) > 2:
                continue
            for mask in range(1 << len(twos)):
                kinds = {}
                first_leaf = True
                for i in range(n):
                    if deg[i] == 1:
                        kinds[i] = "S" if first_leaf else "T"
                        first_leaf = False
                    elif deg[i] >= 3:
                        kinds[i] = "J"
                    else:
                        kinds[i] = "J" if mask & (1 << twos.index(i)) else "N"
                root = [i for i in range(n) if kinds[i] == "J" and deg[i] >= 3][0]
                spec = {"nodes": {"v%d" % i: (kinds[i], (3 * i, (i * i) % 7)) for i in range(n)},
                        "edges": [("v%d" % a, "v%d" % b) for a, b in edges]}
                out.append(("generated n=%d %s kinds=%s" % (n, key, "".join(kinds[i] for i in range(n))), spec, "v%d" % root))
    return out


def rule_writeback(chk, prog, tier):
    r = chk.rule("TREE-WRITEBACK", "addConns / listJunctionsAndConnectors / writeEdgesToConns interpreted on abstract hyperedge trees: one "
                 "connector per junction-free path, exactly one source and one target end per connector, every terminal the end of exactly "
                 "one connector, junction and connector lists complete and duplicate-free, routes through the path's points", floor=5)
    cases = list(HAND) + generated_trees(7 if tier == "thorough" else 6)
    n = 0
    seen_bad = 0
    for name, spec, root in cases:
        try:
            bad = check_tree(prog, spec, root)
        except (Unsupported, Thrown) as e:
            raise AnalysisBroken("hyperedge write-back outside the interpreter subset (%s): %s" % (name, e))
        n += 1
        if name in [h[0] for h in HAND]:
            r.count()
            (r.bad if bad else r.ok)(name, prog.fn("Avoid::HyperedgeTreeNode::addConns").where(), bad or "")
        elif bad:
            seen_bad += 1
            if seen_bad <= 3:
                r.count()
                r.bad(name, prog.fn("Avoid::HyperedgeTreeNode::addConns").where(), bad)
    # a hyperedge registered by its terminals (registerHyperedgeForRerouting(ConnEndList)) has no old connectors to take the
    # terminal ConnEnds from: m_deleted_connectors_vector[i] is empty on that path
    r.count()
    name, spec, root = HAND[0]
    try:
        bad = check_tree(prog, spec, root, old_conns_know_terminals=False)
    except (Unsupported, Thrown) as e:
        raise AnalysisBroken("hyperedge write-back outside the interpreter subset (terminal registration): %s" % e)
    inst = "star registered by terminals (no old connectors)"
    if bad:
        r.bad(inst, prog.fn("Avoid::HyperedgeTreeEdge::addConns").where(), bad + " -- HyperedgeTreeEdge::addConns takes a terminal's ConnEnd only from "
              "the hyperedge's previous connectors")
    else:
        r.ok(inst, prog.fn("Avoid::HyperedgeTreeEdge::addConns").where())
    r.count(n - len(HAND))
    if not seen_bad:
        r.ok("generated trees", prog.fn("Avoid::HyperedgeTreeNode::addConns").where(), "%d trees" % (n - len(HAND)))
    chk.sample({"rule": "TREE-WRITEBACK", "trees": n})


def rule_reroute_lists(chk, prog):
    r = chk.rule("REROUTE-LISTS", "HyperedgeRerouter::performRerouting: per hyperedge (skipped only when it has no terminal vertices) the "
                 "tree root's addConns precedes listJunctionsAndConnectors (into m_new_junctions_vector[i] / m_new_connectors_vector[i]) "
                 "and both passes of writeEdgesToConns; every entry of m_deleted_connectors_vector[i] reaches Router::deleteConnector and "
                 "every entry of m_deleted_junctions_vector[i] reaches Router::deleteJunction", floor=4)
    fn = prog.fn("Avoid::HyperedgeRerouter::performRerouting")
    g = CFG(fn)
    lp = [n for n in fn.nodes() if n.get("k") == "ForStmt" and "num_hyperedges" in norm(n.get("cond"))]
    if len(lp) != 1:
        raise AnalysisBroken("performRerouting: loop over the hyperedges not recognised")
    lp = lp[0]
    ac = [c for c in walk(lp["body"]) if c.get("cname") == "Avoid::HyperedgeTreeNode::addConns"]
    lj = [c for c in walk(lp["body"]) if c.get("cname") == "Avoid::HyperedgeTreeNode::listJunctionsAndConnectors"]
    we = [c for c in walk(lp["body"]) if c.get("cname") == "Avoid::HyperedgeTreeNode::writeEdgesToConns"]
    r.count()
    bad = None
    if not ac or not lj or not we:
        bad = "write-back step missing (addConns / listJunctionsAndConnectors / writeEdgesToConns)"
    else:
        conts = [n["id"] for n in walk(lp["body"]) if n.get("k") == "ContinueStmt"]
        for what, c in (("addConns", ac[0]), ("listJunctionsAndConnectors", lj[0])):
            if g.iteration_can_skip(lp, [c["id"]] + conts) is not None:
                bad = bad or "%s can be skipped for a hyperedge that has terminals" % what
        wl0 = [x for x in fn.ancestors(we[0]) if x.get("k") == "ForStmt" and x is not lp]
        if not wl0 or g.iteration_can_skip(wl0[0], [we[0]["id"]]) is not None:
            bad = bad or "writeEdgesToConns can be skipped in a pass"
        elif wl0[0].get("init") is None or g.iteration_can_skip(lp, [n_["id"] for n_ in walk(wl0[0]["init"]) if n_.get("id") in g.pos] + conts) is not None:
            bad = bad or "the route-writing passes can be skipped for a hyperedge that has terminals"
        if g.search([g.after(ac[0]["id"])], blocked=[], targets=[lj[0]["id"]]) is None:
            bad = bad or "the new junctions / connectors are listed before they are created"
        a = [norm(x) for x in call_args(lj[0])]
        if "m_new_junctions_vector[i]" not in a[1] or "m_new_connectors_vector[i]" not in a[2]:
            bad = bad or "new objects are listed into %s / %s" % (a[1], a[2])
        wl = [x for x in fn.ancestors(we[0]) if x.get("k") == "ForStmt" and x is not lp]
        if not wl or "(pass < 2)" not in norm(wl[0].get("cond")) or norm(call_args(we[0])[1]) != "pass":
            bad = bad or "routes are not written in both passes"
        cont_conds = []
        from ..rules.guards import path_condition, show
        for n in walk(lp["body"]):
            if n.get("k") == "ContinueStmt":
                cont_conds.append(show(path_condition(fn, n, inline=False)))
        if any("m_terminal_vertices_vector[i].empty()" not in c_ for c_ in cont_conds):
            bad = bad or "a hyperedge is skipped under %s" % cont_conds
    (r.bad if bad else r.ok)("write-back per hyperedge", fn.loc(lp), bad or "")
    for cname, vec in (("Avoid::Router::deleteConnector", "m_deleted_connectors_vector[i]"), ("Avoid::Router::deleteJunction", "m_deleted_junctions_vector[i]")):
        cs = [c for c in walk(lp["body"]) if c.get("cname") == cname]
        r.count()
        bad = None
        if not cs:
            bad = "%s is never called" % cname
        else:
            il = [x for x in fn.ancestors(cs[0]) if x.get("k") == "ForStmt"][0]
            if vec + ".begin()" not in norm(il.get("init")) or vec + ".end()" not in norm(il.get("cond")):
                bad = "%s is not applied to all of %s" % (cname.split("::")[-1], vec)
            elif g.iteration_can_skip(il, [cs[0]["id"]]) is not None:
                bad = "some entries of %s are not deleted" % vec
            elif norm(call_args(cs[0])[0]) not in ("curr.*",):
                bad = "%s(%s)" % (cname.split("::")[-1], norm(call_args(cs[0])[0]))
        (r.bad if bad else r.ok)(cname.split("::")[-1] + " for " + vec, fn.loc(cs[0]) if cs else fn.where(), bad or "")
    clr = [c for c in calls(fn) if c.get("cname", "").endswith("::clear") and norm(call_object(c)) in ("m_terminals_vector", "m_root_junction_vector")]
    r.count()
    (r.ok if len(clr) == 2 and all(g.exit_reachable_avoiding([c["id"]]) is None for c in clr) else r.bad)(
        "inputs cleared", fn.where(), "" if len(clr) == 2 else "registered hyperedges are not cleared after rerouting (they would be rerouted again)")


def rule_results_readable(chk, prog):
    """After a transaction the inputs are cleared (REROUTE-LISTS `inputs cleared`) and the results stay: the accessor must serve every one."""
    from ..microai.interp import MapVal
    r = chk.rule("RESULTS-READABLE", "HyperedgeRerouter::newAndDeletedObjectLists(index) interpreted on the state performRerouting leaves "
                 "behind (registered inputs m_terminals_vector / m_root_junction_vector cleared, the four result vectors holding one list "
                 "per processed hyperedge, 3 hyperedges): for EVERY index it returns without a failing assertion, and the four lists it "
                 "returns are the ones stored for that index -- the client cannot learn which objects replaced a hyperedge otherwise", floor=3)
    fn = prog.fn("Avoid::HyperedgeRerouter::newAndDeletedObjectLists")
    fields = (("m_new_junctions_vector", "newJunctionList", "Avoid::JunctionRef"), ("m_deleted_junctions_vector", "deletedJunctionList", "Avoid::JunctionRef"),
              ("m_new_connectors_vector", "newConnectorList", "Avoid::ConnRef"), ("m_deleted_connectors_vector", "deletedConnectorList", "Avoid::ConnRef"))
    n_h = 3
    for idx in range(n_h):
        rr = default_obj(prog, "Avoid::HyperedgeRerouter", {})
        rr.f["m_terminals_vector"] = Vec([], "Avoid::ConnEndList")
        rr.f["m_root_junction_vector"] = Vec([], "Avoid::JunctionRef *")
        rr.f["m_terminal_vertices_vector"] = Vec([], "Avoid::VertexSet")
        want = {}
        for fld, res, t in fields:
            outer = []
            for h in range(n_h):
                objs = [Obj(t, {"_name": "%s[%d].%d" % (fld, h, k)}) for k in range(1 + (h + len(fld)) % 2)]
                outer.append(Vec(objs, t + " *"))
                if h == idx:
                    want[res] = objs
            rr.f[fld] = Vec(outer, "std::list<%s *>" % t)
        it = Interp(prog, Oracle([]), max_steps=20000)
        r.count()
        inst = "index %d of %d processed hyperedges" % (idx, n_h)
        try:
            out = it.call(fn, rr, None, None, arg_values=[idx])
        except Unsupported as e:
            raise AnalysisBroken("newAndDeletedObjectLists outside the interpreter subset: %s" % e)
        except AssertFail as e:
            r.bad(inst, fn.where(), "assertion fails although the results of this hyperedge are stored: %s" % e)
            continue
        bad = None
        for fld, res, t in fields:
            got = out.f.get(res)
            items = got.items if got is not None else None
            if items is None or len(items) != len(want[res]) or any(a is not b for a, b in zip(items, want[res])):
                bad = bad or "%s is not %s[%d]" % (res, fld, idx)
        (r.bad if bad else r.ok)(inst, fn.where(), bad or "")


def rule_object_lists(chk, prog):
    r = chk.rule("OBJECT-LISTS", "bookkeeping of created / removed hyperedge objects: HyperedgeRerouter::findAttachedObjects records every "
                 "connector and every junction it visits as deleted (on every path); in HyperedgeImprover every `new ConnRef` / `new "
                 "JunctionRef` is appended to m_new_connectors / m_new_junctions, every connector or junction dropped from the tree "
                 "(`edge->conn = nullptr`, `node->junction = nullptr` without handing it to another node) is first appended to "
                 "m_deleted_connectors / m_deleted_junctions, and execute() hands every entry of both lists to the router", floor=7)
    # ---- rerouter
    for f in prog.fns("Avoid::HyperedgeRerouter::findAttachedObjects"):
        g = CFG(f)
        p1 = f.params[1]
        kind = "junction" if "JunctionRef" in p1["t"] else "connector"
        vec = "m_deleted_%ss_vector[index]" % kind
        pb = [c["id"] for c in calls(f) if c.get("cname", "").endswith("::push_back") and norm(call_object(c)) == vec and norm(call_args(c)[0]) == p1["name"]]
        r.count()
        w = g.exit_reachable_avoiding(pb) if pb else []
        if w is not None:
            r.bad("findAttachedObjects(%s)" % kind, f.where(), "a visited %s is not recorded in %s%s: after rerouting it is neither deleted nor "
                  "reported, and stays live outside the hyperedge tree" % (kind, vec, (" on " + g.describe(w)) if w else ""))
        else:
            r.ok("findAttachedObjects(%s)" % kind, f.where())
    # ---- improver
    imp = [f for f in prog.all_functions() if f.cls == "Avoid::HyperedgeImprover" and f.body is not None]
    n_new = n_drop = 0
    for f in imp:
        g = None
        for n in f.nodes():
            if n.get("k") == "CXXNewExpr" and n.get("at") in ("Avoid::ConnRef", "Avoid::JunctionRef"):
                g = g or CFG(f)
                lst = "m_new_connectors" if n["at"].endswith("ConnRef") else "m_new_junctions"
                pb = [c["id"] for c in calls(f) if c.get("cname", "").endswith("::push_back") and norm(call_object(c)) == lst]
                n_new += 1
                r.count()
                anchor = n
                for a in f.ancestors(n):
                    if a.get("id") in g.pos:
                        anchor = a
                        break
                w = g.must_follow(anchor["id"], pb) if pb and anchor.get("id") in g.pos else []
                inst = "%s: new %s" % (f.q, n["at"].split("::")[-1])
                if w is not None:
                    r.bad(inst, f.loc(n), "an object created during improvement is not recorded in %s" % lst)
                else:
                    r.ok(inst, f.loc(n))
        for lhs, node, op in writes(f):
            fq = written_field(lhs)[0]
            if op != "=" or fq not in ("Avoid::HyperedgeTreeEdge::conn", "Avoid::HyperedgeTreeNode::junction"):
                continue
            rhs = strip_casts(node["ch"][1])
            if rhs.get("k") not in ("CXXNullPtrLiteralExpr", "GNUNullExpr"):
                continue
            g = g or CFG(f)
            n_drop += 1
            r.count()
            what = norm(lhs)
            lst = "m_deleted_connectors" if fq.endswith("conn") else "m_deleted_junctions"
            pb = [c["id"] for c in calls(f) if c.get("cname", "").endswith("::push_back") and norm(call_object(c)) == lst and norm(call_args(c)[0]) == what]
            handed = [nd["id"] for l2, nd, o2 in writes(f) if o2 == "=" and written_field(l2)[0] == fq and norm(nd["ch"][1]) == what]
            inst = "%s: %s = nullptr" % (f.q, what)
            if node["id"] not in g.pos:
                raise AnalysisBroken("store %s is not a CFG element" % inst)
            w = g.must_precede(pb + handed, node["id"])
            if w is not None:
                r.bad(inst, f.loc(node), "the %s is dropped from the hyperedge tree without being recorded in %s (or handed to another "
                      "node) on %s: it is never deleted and missing from the reported lists" % ("connector" if fq.endswith("conn") else "junction", lst, g.describe(w)))
            else:
                r.ok(inst, f.loc(node))
    if n_new < 2 or n_drop < 2:
        raise AnalysisBroken("HyperedgeImprover: creation / removal sites not recognised (%d, %d)" % (n_new, n_drop))
    ex = prog.fn("Avoid::HyperedgeImprover::execute")
    g = CFG(ex)
    for cname, lst in (("Avoid::Router::deleteConnector", "m_deleted_connectors"), ("Avoid::Router::deleteJunction", "m_deleted_junctions")):
        cs = [c for c in calls(ex) if c.get("cname") == cname]
        r.count()
        bad = None
        if not cs:
            bad = "%s is never called" % cname
        else:
            il = [x for x in ex.ancestors(cs[0]) if x.get("k") == "ForStmt"]
            if not il or lst + ".begin()" not in norm(il[0].get("init")) or lst + ".end()" not in norm(il[0].get("cond")) or \
                    g.iteration_can_skip(il[0], [cs[0]["id"]]) is not None or norm(call_args(cs[0])[0]) != "curr.*":
                bad = "not every entry of %s is deleted" % lst
            else:
                ini = [x["id"] for x in walk(il[0].get("init") or {}) if x.get("id") in g.pos]
                if ini and g.exit_reachable_avoiding(ini[:1]) is not None:
                    bad = "execute() can return without deleting the entries of %s" % lst
        (r.bad if bad else r.ok)("execute: " + lst, ex.loc(cs[0]) if cs else ex.where(), bad or "")


def rule_dummy_flagged(chk, prog):
    """TREE-WRITEBACK models the dummy vertex behind a pin AND its orthogonal-partner copy as flagged nodes; this is where they get flagged."""
    from ..rules.guards import path_condition, atoms
    r = chk.rule("DUMMY-NODES-FLAGGED", "MinimumTerminalSpanningTree::buildHyperedgeTreeToRoot: the tree node of a dummy pin-helper vertex is "
                 "flagged isPinDummyEndpoint, and so is the node before it when that is the vertex's orthogonal-partner copy (same position; "
                 "the tree passes through it when the pin is entered in the other dimension) -- writeEdgesToConns drops exactly the flagged "
                 "nodes from the end of a route, so an unflagged copy leaves the route ending at the shape centre instead of at the pin", floor=2)
    fn = prog.fn("Avoid::MinimumTerminalSpanningTree::buildHyperedgeTreeToRoot")
    cur, prev = [], []
    for lhs, node, op in writes(fn):
        if op != "=" or written_field(lhs)[0] != "Avoid::HyperedgeTreeNode::isPinDummyEndpoint" or literal_value(node["ch"][1]) != "true":
            continue
        ats = atoms(path_condition(fn, node, inline=True))
        obj = norm(lhs).split(".")[0]
        helper = any("isDummyPinHelper()" in a and "currVert" in a for a in ats)
        if obj == "currentNode" and helper:
            cur.append(node)
        if obj == "prevNode" and helper and any("m_orthogonalPartner" in a and "prevVert" in a for a in ats):
            prev.append(node)
    r.count()
    (r.ok if cur else r.bad)("dummy vertex node flagged", fn.loc(cur[0]) if cur else fn.where(), "" if cur else
                             "no store `currentNode->isPinDummyEndpoint = true` under currVert->id.isDummyPinHelper()")
    r.count()
    (r.ok if prev else r.bad)("orthogonal-partner copy flagged", fn.loc(prev[0]) if prev else fn.where(), "" if prev else
                              "the node before a dummy pin-helper vertex is not flagged when it is that vertex's orthogonal partner: routes of pins "
                              "entered in the other dimension keep the copy's point and end at the shape centre")


_ZL_TREES = [
    ("junction moved onto the terminal of one of its connectors",
     {"nodes": {"J": ("J", (0, 0)), "a": ("T", (0, 0)), "b": ("T", (5, 0)), "c": ("T", (0, 5))}, "edges": [("J", "a"), ("J", "b"), ("J", "c")]},
     [["J-a"], ["J-b"], ["J-c"]]),
    ("zero-length edge junction - bend inside a longer connector",
     {"nodes": {"J": ("J", (0, 0)), "n": ("N", (0, 0)), "a": ("T", (4, 0)), "b": ("T", (5, 5)), "c": ("T", (0, 5))},
      "edges": [("J", "n"), ("n", "a"), ("J", "b"), ("J", "c")]}, [["J-n", "n-a"], ["J-b"], ["J-c"]]),
    ("zero-length edge between two bends",
     {"nodes": {"J": ("J", (0, 0)), "n": ("N", (3, 0)), "m": ("N", (3, 0)), "a": ("T", (3, 4)), "b": ("T", (5, 5)), "c": ("T", (0, 5))},
      "edges": [("J", "n"), ("n", "m"), ("m", "a"), ("J", "b"), ("J", "c")]}, [["J-n", "n-m", "m-a"], ["J-b"], ["J-c"]]),
    ("bend moved onto its terminal",
     {"nodes": {"J": ("J", (0, 0)), "n": ("N", (3, 0)), "a": ("T", (3, 0)), "b": ("T", (5, 5)), "c": ("T", (0, 5))},
      "edges": [("J", "n"), ("n", "a"), ("J", "b"), ("J", "c")]}, [["J-n", "n-a"], ["J-b"], ["J-c"]]),
    ("bend moved onto its terminal, which is the connector's SOURCE end",
     {"nodes": {"J": ("J", (0, 0)), "n": ("N", (3, 0)), "a": ("S", (3, 0)), "b": ("T", (5, 5)), "c": ("S", (0, 5))},
      "edges": [("J", "n"), ("n", "a"), ("J", "b"), ("J", "c")]}, [["J-n", "n-a"], ["J-b"], ["J-c"]]),
    ("the same, reached from the terminal's side first (edge list of the bend starts with the zero-length edge)",
     {"nodes": {"J": ("J", (0, 0)), "a": ("S", (3, 0)), "n": ("N", (3, 0)), "b": ("T", (5, 5)), "c": ("T", (0, 5))},
      "edges": [("n", "a"), ("J", "n"), ("J", "b"), ("J", "c")]}, [["J-n", "n-a"], ["J-b"], ["J-c"]]),
    ("junction, bend and terminal all at one point",
     {"nodes": {"J": ("J", (0, 0)), "n": ("N", (0, 0)), "a": ("T", (0, 0)), "b": ("T", (5, 5)), "c": ("T", (0, 5))},
      "edges": [("J", "n"), ("n", "a"), ("J", "b"), ("J", "c")]}, [["J-n", "n-a"], ["J-b"], ["J-c"]]),
    ("two junctions at one point",
     {"nodes": {"J": ("J", (0, 0)), "K": ("J", (0, 0)), "a": ("T", (4, 0)), "b": ("T", (5, 5)), "c": ("T", (0, 5)), "d": ("T", (-4, 0))},
      "edges": [("J", "K"), ("K", "a"), ("K", "d"), ("J", "b"), ("J", "c")]}, [["J-K"], ["K-a"], ["K-d"], ["J-b"], ["J-c"]]),
]


def _improver_scene(prog, spec, conn_edges, major):
    from ..microai.interp import MapVal, SetVal
    nodes, edges = build(prog, spec)
    conns = []
    for ci, lst in enumerate(conn_edges):
        c = Obj("Avoid::ConnRef", {"_id": ci})
        conns.append(c)
        for e in edges:
            if "-".join(e.f["_name"]) in lst:
                e.f["conn"] = c
    for e in edges:
        e.f["hasFixedRoute"] = False
        if e.f["conn"] is None:
            raise AnalysisBroken("improver scenario: edge %s without connector" % (e.f["_name"],))
    imp = default_obj(prog, "Avoid::HyperedgeImprover", {"m_can_make_major_changes": major})
    for fld, t in (("m_deleted_connectors", "Avoid::ConnRef *"), ("m_deleted_junctions", "Avoid::JunctionRef *"), ("m_new_connectors", "Avoid::ConnRef *"),
                   ("m_new_junctions", "Avoid::JunctionRef *")):
        imp.f[fld] = Vec([], t)
    imp.f["m_hyperedge_tree_junctions"] = MapVal({n.f["junction"]: n for n in nodes.values() if n.f.get("junction") is not None})
    roots = SetVal()
    roots.items.add(nodes["J"].f["junction"])
    imp.f["m_hyperedge_tree_roots"] = roots
    imp.f["m_router"] = default_obj(prog, "Avoid::Router", {})
    return nodes, edges, conns, imp


def _tree_state(root):
    """(sorted positions of the leaves, connectors owning an edge) of the tree reachable from root."""
    out, seen, stack, live = [], set(), [root], []
    while stack:
        n = stack.pop()
        if id(n) in seen:
            continue
        seen.add(id(n))
        es = n.f["edges"].items
        if len(es) == 1:
            fv = n.f.get("finalVertex")
            out.append((n.f["point"].f["x"], n.f["point"].f["y"], bool(n.f.get("isConnectorSource")),
                        fv.f.get("_name") if fv is not None else None))
        for e in es:
            live.append(e.f["conn"])
            for end in (e.f["ends"].f["first"], e.f["ends"].f["second"]):
                if end is not None:
                    stack.append(end)
    return sorted(out), live


def _improver_interp(prog):
    it = Interp(prog, Oracle([]), max_steps=400000)
    it.vhooks["Avoid::JunctionRef::positionFixed"] = lambda it_, recv, args: False
    it.vhooks["Avoid::ConnRef::hasFixedRoute"] = lambda it_, recv, args: False
    it.vhooks["Avoid::Router::removeObjectFromQueuedActions"] = lambda it_, recv, args: None
    it.vhooks["Avoid::ConnRef::makeActive"] = lambda it_, recv, args: None
    it.vhooks["Avoid::JunctionRef::makeActive"] = lambda it_, recv, args: None
    it.vhooks["Avoid::Obstacle::makeActive"] = lambda it_, recv, args: None
    it.vhooks["Avoid::ConnRef::updateEndPoint"] = lambda it_, recv, args: None
    it.vhooks["Avoid::ConnRef::id"] = lambda it_, recv, args: recv.f.get("_id", 99)
    it.vhooks["Avoid::JunctionRef::id"] = lambda it_, recv, args: 77
    it.ctor_hooks = {"Avoid::ConnRef": lambda it_, o, args, env: o.f.__setitem__("_id", 100 + len(o.f)),
                     "Avoid::JunctionRef": lambda it_, o, args, env: o.f.__setitem__("_new", True),
                     "Avoid::ConnEnd": lambda it_, o, args, env: None}
    return it


def _conservation(conns, conn_edges, imp, before_leaves, root):
    after_leaves, live = _tree_state(root)
    for c in conns:
        if not any(x is c for x in live) and not any(x is c for x in imp.f["m_deleted_connectors"].items):
            return ("the connector of edge(s) %s owns no edge of the tree any more and is not recorded as deleted: its route and its junction end "
                    "are never written back again" % conn_edges[c.f["_id"]])
    if after_leaves != before_leaves:
        fmt = lambda ls: ["(%s,%s)%s%s" % (a, b, " source" if s_ else "", " " + v if v else "") for a, b, s_, v in ls]
        return ("the tree's terminals (position, source-end flag, end vertex) were %s, afterwards %s -- the route of a connector whose terminal "
                "lost its role is written back to front / without its end" % (fmt(before_leaves), fmt(after_leaves)))
    # a connector is one junction-free path: along the tree its identity changes at junctions only
    seen, stack = set(), [root]
    while stack:
        n = stack.pop()
        if id(n) in seen:
            continue
        seen.add(id(n))
        es = n.f["edges"].items
        if n.f.get("junction") is None and len(es) >= 2:
            cs = {id(e.f["conn"]) for e in es}
            if len(es) > 2:
                return "the node at (%s,%s) has %d edges but no junction" % (n.f["point"].f["x"], n.f["point"].f["y"], len(es))
            if len(cs) != 1:
                return ("at the plain node (%s,%s) the connector changes (%s) although there is no junction: one of them no longer reaches a junction "
                        "and the route written back for it stops short" % (n.f["point"].f["x"], n.f["point"].f["y"],
                                                                           sorted(str(e.f["conn"].f.get("_id")) for e in es)))
        for e in es:
            for end in (e.f["ends"].f["first"], e.f["ends"].f["second"]):
                if end is not None:
                    stack.append(end)
    return None


_MJ_TREES = [
    ("a longer collinear edge shares its first stretch with the edge to a terminal",
     {"nodes": {"J": ("J", (0, 0)), "a": ("T", (5, 0)), "n": ("N", (9, 0)), "d": ("T", (9, 4)), "b": ("T", (0, 5))},
      "edges": [("J", "a"), ("J", "n"), ("n", "d"), ("J", "b")]}, [["J-a"], ["J-n", "n-d"], ["J-b"]]),
    ("a bend of one connector lies on the terminal of another",
     {"nodes": {"J": ("J", (0, 0)), "a": ("T", (5, 0)), "n": ("N", (5, 0)), "d": ("T", (5, 4)), "b": ("T", (0, 5))},
      "edges": [("J", "a"), ("J", "n"), ("n", "d"), ("J", "b")]}, [["J-a"], ["J-n", "n-d"], ["J-b"]]),
    ("the same, edge to the bend listed first",
     {"nodes": {"J": ("J", (0, 0)), "n": ("N", (5, 0)), "d": ("T", (5, 4)), "a": ("T", (5, 0)), "b": ("T", (0, 5))},
      "edges": [("J", "n"), ("n", "d"), ("J", "a"), ("J", "b")]}, [["J-a"], ["J-n", "n-d"], ["J-b"]]),
    ("two connectors leave the junction along a common stretch (the move the function exists for)",
     {"nodes": {"J": ("J", (0, 0)), "n": ("N", (5, 0)), "x": ("T", (5, 4)), "m": ("N", (5, 0)), "y": ("T", (5, -4)), "b": ("T", (0, 5))},
      "edges": [("J", "n"), ("n", "x"), ("J", "m"), ("m", "y"), ("J", "b")]}, [["J-n", "n-x"], ["J-m", "m-y"], ["J-b"]]),
    ("common stretch and two other connectors (junction is split under major changes)",
     {"nodes": {"J": ("J", (0, 0)), "n": ("N", (5, 0)), "x": ("T", (5, 4)), "m": ("N", (5, 0)), "y": ("T", (5, -4)), "b": ("T", (0, 5)), "c": ("T", (0, -5))},
      "edges": [("J", "n"), ("n", "x"), ("J", "m"), ("m", "y"), ("J", "b"), ("J", "c")]}, [["J-n", "n-x"], ["J-m", "m-y"], ["J-b"], ["J-c"]]),
]


def rule_zero_length(chk, prog):
    """The improver's tree surgery never erases a connector or a terminal from the tree silently."""
    r = chk.rule("ZERO-LENGTH-EDGES", "HyperedgeImprover::removeZeroLengthEdges interpreted on hand-made trees with zero-length edges (junction on "
                 "a terminal, junction on a bend, bend on bend, bend on its terminal, all three at one point, two junctions at one point), with "
                 "and without major changes: afterwards every connector still owns at least one edge of the tree or is recorded in "
                 "m_deleted_connectors, and the terminal positions (leaves) of the tree are the same -- a connector whose last edge is "
                 "collapsed is never written back again (stale route, end left on a deleted junction)", floor=8)
    cands = [f for f in prog.fns("Avoid::HyperedgeImprover::removeZeroLengthEdges") if f.params and "HyperedgeTreeNode" in f.params[0]["t"]]
    if len(cands) != 1:
        raise AnalysisBroken("HyperedgeImprover::removeZeroLengthEdges(HyperedgeTreeNode *, ...) not found")
    fn = cands[0]
    for name, spec, conn_edges in _ZL_TREES:
        for major in (False, True):
            nodes, edges, conns, imp = _improver_scene(prog, spec, conn_edges, major)
            before_leaves, _ = _tree_state(nodes["J"])
            it = _improver_interp(prog)
            inst = "%s%s" % (name, ", major changes allowed" if major else "")
            r.count()
            try:
                it.call(fn, imp, None, None, arg_values=[nodes["J"], None])
            except Unsupported as e:
                raise AnalysisBroken("removeZeroLengthEdges outside the interpreter subset (%s): %s" % (inst, e))
            except AssertFail as e:
                r.bad(inst, fn.where(), "assertion fails: %s" % e)
                continue
            bad = _conservation(conns, conn_edges, imp, before_leaves, nodes["J"])
            (r.bad if bad else r.ok)(inst, fn.where(), bad or "")
    r2 = chk.rule("JUNCTION-MOVES", "HyperedgeImprover::moveJunctionAlongCommonEdge interpreted (repeatedly, as its caller does) on hand-made trees "
                  "where the far node of a candidate common edge is the TERMINAL of a connector, and on the genuine common-stretch cases, with and "
                  "without major changes: the same conservation of connectors and terminal positions; a junction is never moved onto a terminal", floor=8)
    fm = prog.fn("Avoid::HyperedgeImprover::moveJunctionAlongCommonEdge")
    variants = [(n_, s_, c_, None) for n_, s_, c_ in _MJ_TREES]
    variants.append((_MJ_TREES[3][0] + "; the connector that stays behind has a fixed route", _MJ_TREES[3][1], _MJ_TREES[3][2], "J-b"))
    for name, spec, conn_edges, fixed_edge in variants:
        for major in (False, True):
            nodes, edges, conns, imp = _improver_scene(prog, spec, conn_edges, major)
            for e in edges:
                if "-".join(e.f["_name"]) == fixed_edge:
                    e.f["hasFixedRoute"] = True
            before_leaves, _ = _tree_state(nodes["J"])
            it = _improver_interp(prog)
            inst = "%s%s" % (name, ", major changes allowed" if major else "")
            r2.count()
            node = nodes["J"]
            root = nodes["b"]          # a terminal that no scenario touches: the tree is walked from there afterwards
            moved = 0
            try:
                for _ in range(6):
                    node = it.call(fm, imp, None, None, arg_values=[node, Box(False)])
                    if node is None:
                        break
                    moved += 1
            except Unsupported as e:
                raise AnalysisBroken("moveJunctionAlongCommonEdge outside the interpreter subset (%s): %s" % (inst, e))
            except AssertFail as e:
                r2.bad(inst, fm.where(), "assertion fails: %s" % e)
                continue
            bad = _conservation(conns, conn_edges, imp, before_leaves, root)
            if bad is None and "common stretch" in name and not moved and (major or "two other connectors" not in name):
                bad = "the junction is not moved along the common stretch at all (the improvement is gone)"
            (r2.bad if bad else r2.ok)(inst, fm.where(), bad or ("%d move(s)" % moved))


def rule_shift_terminal(chk, prog):
    r = chk.rule("SHIFT-NOT-ONTO-TERMINAL", "HyperedgeShiftSegment::setBalanceCount (+ adjustPosition when the balance is non-zero) interpreted on a "
                 "segment through a junction whose own connector's terminal lies straight ahead, in both dimensions and both directions: the "
                 "junction is never shifted exactly onto that terminal (the connector would shrink to a zero-length edge); when the next stop "
                 "is short of the terminal the segment still moves there (the improvement is kept)", floor=8)
    cls = "Avoid::HyperedgeShiftSegment"
    fb, fa = prog.fn(cls + "::setBalanceCount"), prog.fn(cls + "::adjustPosition")
    for dim in (0, 1):
        for sign in (-1, 1):
            for terminal_first in (True, False):
                def xy(along, across):            # `across` is the coordinate the segment is shifted in (dimension), `along` the other one
                    return (across, along) if dim == 0 else (along, across)
                t_at, stop_at = (5, 8) if terminal_first else (9, 5)
                spec = {"nodes": {"J": ("J", xy(0, 0)), "a": ("T", xy(0, sign * t_at)), "m": ("N", xy(10, 0)), "p": ("T", xy(10, sign * stop_at)),
                                  "q": ("T", xy(10, -sign * 8)), "z": ("T", xy(-6, 0))},
                        "edges": [("J", "a"), ("J", "m"), ("m", "p"), ("m", "q"), ("J", "z")]}
                # (z makes J a real junction with three connectors; m - p / m - q pull the segment towards `sign`)
                nodes, edges = build(prog, spec)
                seg = default_obj(prog, cls, {"dimension": dim, "minSpaceLimit": Fraction(-100), "maxSpaceLimit": Fraction(100), "isImmovable": False,
                                              "m_balance_count_set": False, "m_balance_count": 0, "m_at_limit": False})
                seg.f["nodes"] = Vec([nodes["J"], nodes["m"]], "Avoid::HyperedgeTreeNode *")
                it = Interp(prog, Oracle([]))
                inst = "shift in %s towards %s, terminal %s" % ("xy"[dim], "lower" if sign < 0 else "higher", "is the next stop" if terminal_first else "lies beyond the next stop")
                r.count()
                try:
                    it.call(fb, seg, None, None, arg_values=[])
                    if seg.f["m_balance_count"] != 0:
                        it.call(fa, seg, None, None, arg_values=[])
                except Unsupported as e:
                    raise AnalysisBroken("HyperedgeShiftSegment outside the interpreter subset (%s): %s" % (inst, e))
                except AssertFail as e:
                    r.bad(inst, fb.where(), "assertion fails: %s" % e)
                    continue
                pj = (nodes["J"].f["point"].f["x"], nodes["J"].f["point"].f["y"])
                pa = (nodes["a"].f["point"].f["x"], nodes["a"].f["point"].f["y"])
                bad = None
                if pj == pa:
                    bad = "the junction is shifted to (%s,%s), exactly onto the terminal of one of its own connectors" % pj
                elif not terminal_first and pj[dim] != sign * stop_at:
                    bad = "the segment should move to %d (next stop, short of the terminal), the junction is at %s" % (sign * stop_at, pj[dim])
                (r.bad if bad else r.ok)(inst, fb.where(), bad or "")


def rule_merge_far_end(chk, prog):
    r = chk.rule("MERGE-KEEPS-FAR-END", "JunctionRef::removeJunctionAndMergeConnectors interpreted for a two-connector junction whose second connector "
                 "ends at a shape pin, at ANOTHER JUNCTION, or at a free point, with either connector listed first: the surviving connector's "
                 "junction end is re-attached to exactly what the deleted connector's far end was attached to (same kind, same object, same pin "
                 "class), the other connector and the junction are handed to the router for deletion", floor=6)
    fn = prog.fn("Avoid::JunctionRef::removeJunctionAndMergeConnectors")

    def pt(x, y):
        return P(prog, x, y)
    for kind in ("pin", "junction", "point"):
        for swap in (False, True):
            J = default_obj(prog, "Avoid::JunctionRef", {"m_id": 5})
            K = default_obj(prog, "Avoid::JunctionRef", {"m_id": 6})
            S = default_obj(prog, "Avoid::ShapeRef", {"m_id": 7})
            c1 = default_obj(prog, "Avoid::ConnRef", {"m_id": 1})
            c2 = default_obj(prog, "Avoid::ConnRef", {"m_id": 2})

            def ce(conn, typ, anchor, cls, endtype):
                return default_obj(prog, "Avoid::ConnEnd", {"m_type": typ, "m_anchor_obj": anchor, "m_connection_pin_class_id": cls, "m_conn_ref": conn,
                                                            "m_point": pt(1, 2), "m_directions": 15, "m_active_pin": None, "_endtype": endtype})
            e1 = ce(c1, 2, J, 2147483646, 1)
            e2 = ce(c2, 2, J, 2147483646, 1 if not swap else 2)
            other = {"pin": ce(c2, 1, S, 3, 2), "junction": ce(c2, 2, K, 2147483646, 2), "point": ce(c2, 0, None, 2147483647, 2)}[kind]
            if swap:
                other.f["_endtype"] = 1
                c2.f["m_dst_connend"], c2.f["m_src_connend"] = e2, other
            else:
                c2.f["m_src_connend"], c2.f["m_dst_connend"] = e2, other
            c1.f["m_src_connend"], c1.f["m_dst_connend"] = e1, ce(c1, 0, None, 2147483647, 2)
            J.f["m_following_conns"] = Vec([e1, e2], "Avoid::ConnEnd *")
            J.f["m_router"] = default_obj(prog, "Avoid::Router", {})
            mods, dels, delj = [], [], []
            it = Interp(prog, Oracle([]))
            it.vhooks["Avoid::Router::modifyConnector"] = lambda it_, recv, args, m=mods: m.append(args)
            it.vhooks["Avoid::Router::deleteConnector"] = lambda it_, recv, args, d=dels: d.append(args[0])
            it.vhooks["Avoid::Router::deleteJunction"] = lambda it_, recv, args, d=delj: d.append(args[0])
            it.vhooks["Avoid::ConnEnd::endpointType"] = lambda it_, recv, args: recv.f["_endtype"]
            it.vhooks["Avoid::ConnEnd::position"] = lambda it_, recv, args: recv.f["m_point"]
            inst = "far end at a %s%s" % ({"pin": "shape pin", "junction": "second junction", "point": "free point"}[kind], ", far end is the source end" if swap else "")
            r.count()
            try:
                res = it.call(fn, J, None, None, arg_values=[])
            except Unsupported as e:
                raise AnalysisBroken("removeJunctionAndMergeConnectors outside the interpreter subset (%s): %s" % (inst, e))
            except AssertFail as e:
                r.bad(inst, fn.where(), "assertion fails: %s" % e)
                continue
            bad = None
            if len(mods) != 1 or mods[0][0] is not c1 or mods[0][1] != 1:
                bad = "the surviving connector's junction end is not the one that is modified"
            else:
                got = mods[0][2]
                if not isinstance(got, Obj) or got.f.get("m_type") != other.f["m_type"] or got.f.get("m_anchor_obj") is not other.f["m_anchor_obj"] \
                        or got.f.get("m_connection_pin_class_id") != other.f["m_connection_pin_class_id"]:
                    kinds = {0: "free point", 1: "shape pin", 2: "junction"}
                    bad = "the merged connector is re-attached to a %s (object %s), the deleted connector ended at a %s (object %s): the hyperedge " \
                          "loses that attachment" % (kinds.get(got.f.get("m_type") if isinstance(got, Obj) else None, "?"),
                                                     (got.f.get("m_anchor_obj").f.get("m_id") if isinstance(got, Obj) and got.f.get("m_anchor_obj") is not None else None),
                                                     kinds[other.f["m_type"]], other.f["m_anchor_obj"].f["m_id"] if other.f["m_anchor_obj"] is not None else None)
            if bad is None and (len(dels) != 1 or dels[0] is not c2):
                bad = "the second connector is not handed to Router::deleteConnector"
            if bad is None and (len(delj) != 1 or delj[0] is not J):
                bad = "the junction is not handed to Router::deleteJunction"
            if bad is None and res is not c1:
                bad = "the merged connector is not returned"
            (r.bad if bad else r.ok)(inst, fn.where(), bad or "")


def rule_execute_coverage(chk, prog):
    from ..rules.guards import path_condition, atoms, show
    r = chk.rule("IMPROVER-COVERS-HYPEREDGE", "HyperedgeImprover::execute: (a) a connector is left out of the temporary hyperedge trees only when neither "
                 "of its ends is attached to a junction -- the `continue` in the loop over all connectors depends on nothing else (not on the "
                 "routing type: the junction is moved for all of its connectors or the left-out one keeps a route to the old position); "
                 "(b) with major changes allowed, updateConnEnds runs for every tree root whatever the improvement did (merging junctions "
                 "re-attaches connectors just as splitting does); (c) writeEdgesToConns runs for every root in both passes", floor=3)
    fn = prog.fn("Avoid::HyperedgeImprover::execute")
    g = CFG(fn)
    loops = [n for n in fn.nodes() if n.get("k") == "WhileStmt" and "connRefs.end()" in norm(n.get("cond"))]
    r.count()
    if len(loops) != 1:
        raise AnalysisBroken("execute: the loop over all connectors was not found")
    bad = None
    conts = [n for n in walk(loops[0]["body"]) if n.get("k") == "ContinueStmt"]
    if not conts:
        raise AnalysisBroken("execute: the connector loop has no skip")
    for c in conts:
        ats = atoms(path_condition(fn, c, inline=False))
        extra = [a for a in ats if a not in ("jFront", "jBack") and "connRefs.end()" not in a]
        if extra:
            bad = bad or "a connector is left out of the hyperedge trees under %s" % extra[:2]
    (r.bad if bad else r.ok)("connectors taken into the trees", fn.loc(conts[0]), bad or "")
    uc = [c for c in calls(fn) if c.get("cname") == "Avoid::HyperedgeTreeNode::updateConnEnds"]
    r.count()
    bad = None
    if len(uc) != 1:
        raise AnalysisBroken("execute: updateConnEnds call not found")
    ats = [a for a in atoms(path_condition(fn, uc[0], inline=False)) if ".end()" not in a]
    if ats != ["m_can_make_major_changes"]:
        bad = "connector ends are re-attached only under %s (expected: whenever major changes are allowed)" % sorted(ats)
    else:
        lp = [a for a in fn.ancestors(uc[0]) if a.get("k") == "ForStmt"]
        if not lp or "m_hyperedge_tree_roots" not in norm(lp[0].get("init")) or g.iteration_can_skip(lp[0], [uc[0]["id"]]) is not None:
            bad = "updateConnEnds does not run for every hyperedge tree root"
    (r.bad if bad else r.ok)("connector ends re-attached", fn.loc(uc[0]), bad or "")
    wb = [c for c in calls(fn) if c.get("cname") == "Avoid::HyperedgeImprover::writeHyperedgeSegmentsBackToConnPaths"]
    fw = prog.fn("Avoid::HyperedgeImprover::writeHyperedgeSegmentsBackToConnPaths")
    gw = CFG(fw)
    we = [c for c in calls(fw) if c.get("cname") == "Avoid::HyperedgeTreeNode::writeEdgesToConns"]
    r.count()
    bad = None
    if not wb or g.exit_reachable_avoiding([c["id"] for c in wb]) is not None:
        bad = "execute can finish without writing the routes back (writeHyperedgeSegmentsBackToConnPaths)"
    elif not we:
        bad = "routes are never written back"
    else:
        lps = [a for a in fw.ancestors(we[0]) if a.get("k") == "ForStmt"]
        ats = [a for a in atoms(path_condition(fw, we[0], inline=False)) if ".end()" not in a and "pass" not in a]
        if ats:
            bad = "routes are written back only under %s" % ats
        elif len(lps) < 2 or gw.iteration_can_skip(lps[0], [we[0]["id"]]) is not None or "(pass < 2)" not in norm(lps[-1].get("cond")):
            bad = "writeEdgesToConns can be skipped for a root or a pass"
    (r.bad if bad else r.ok)("routes written back", fn.loc(we[0]) if we else fn.where(), bad or "")


def rule_recommended_position(chk, prog):
    r = chk.rule("JUNCTION-POSITION-WRITTEN", "the hyperedge code tells a junction where its connectors now meet through "
                 "JunctionRef::setRecommendedPosition (the improver moves the meeting point of a junction's connectors whether or not the "
                 "junction is position-fixed, and rewrites their routes to it): interpreted for a free and for a position-fixed junction, "
                 "recommendedPosition() afterwards returns exactly the point that was set -- otherwise the routes end where the junction "
                 "says it is not", floor=2)
    fs, fg = prog.fn("Avoid::JunctionRef::setRecommendedPosition"), prog.fn("Avoid::JunctionRef::recommendedPosition")
    for fixed in (False, True):
        j = default_obj(prog, "Avoid::JunctionRef", {"m_position": P(prog, 3, 4), "m_recommended_position": P(prog, 3, 4), "m_position_fixed": fixed})
        it = Interp(prog, Oracle([]))
        r.count()
        try:
            it.call(fs, j, None, None, arg_values=[P(prog, 30, 40)])
            got = it.call(fg, j, None, None, arg_values=[])
        except (Unsupported, AssertFail) as e:
            raise AnalysisBroken("JunctionRef::setRecommendedPosition outside the interpreter subset: %s" % e)
        ok = isinstance(got, Obj) and (got.f["x"], got.f["y"]) == (Fraction(30), Fraction(40))
        (r.ok if ok else r.bad)("%s junction" % ("position-fixed" if fixed else "free"), fs.where(), "" if ok else
                                "after setRecommendedPosition((30,40)) the junction recommends (%s,%s)" % ((got.f["x"], got.f["y"]) if isinstance(got, Obj) else ("?", "?")))


def rule_shift_takes_in_terminal(chk, prog):
    from ..rules.guards import path_condition, atoms
    r = chk.rule("SHIFT-TAKES-IN-IMMOVABLE", "HyperedgeShiftSegment::adjustPosition merges the tree nodes it finds at its new position into the segment; "
                 "when such a node is immovable (a terminal, a fixed junction) the segment becomes immovable with it (`isImmovable = true` "
                 "under node->isImmovable(), in the block that inserts the node) -- otherwise the next shift drags the terminal off its "
                 "attachment point", floor=1)
    fn = prog.fn("Avoid::HyperedgeShiftSegment::adjustPosition")
    ins = [c for c in calls(fn) if re.search(r"::insert(<|$)", str(c.get("cname", ""))) and call_object(c) is not None and norm(call_object(c)) == "nodes"]
    if not ins:
        raise AnalysisBroken("adjustPosition: the insertion of reached nodes into the segment was not found")
    r.count()
    sets = []
    for lhs, node, op in writes(fn):
        if op == "=" and written_field(lhs)[0] == "Avoid::HyperedgeShiftSegment::isImmovable" and literal_value(node["ch"][1]) == "true":
            ats = atoms(path_condition(fn, node, inline=False))
            if any(a.endswith(".isImmovable()") for a in ats):
                sets.append(node)
    blk_ok = False
    for st in sets:
        for c in ins:
            blk = [a for a in fn.ancestors(c) if a.get("k") == "CompoundStmt"][0]
            if any(x is st for x in walk(blk)):
                blk_ok = True
    (r.ok if blk_ok else r.bad)("segment inherits immovability", fn.loc(ins[0]), "" if blk_ok else
                                "a node taken into the segment does not make the segment immovable when the node is: a terminal merged into a shifting "
                                "segment is moved with it")


def rule_improver_lists_fresh(chk, prog):
    r = chk.rule("IMPROVER-LISTS-FRESH", "Router::rerouteAndCallbackConnectors clears the hyperedge improver (its lists of new / deleted objects) on EVERY "
                 "path, whatever the improvement options say: the lists handed out by newAndDeletedObjectListsFromHyperedgeImprovement() "
                 "describe this transaction, not an earlier one whose objects have since been freed", floor=1)
    fn = prog.fn("Avoid::Router::rerouteAndCallbackConnectors")
    g = CFG(fn)
    cl = [c for c in calls(fn) if c.get("cname") == "Avoid::HyperedgeImprover::clear"]
    r.count()
    w = g.exit_reachable_avoiding([c["id"] for c in cl]) if cl else []
    (r.ok if w is None else r.bad)("improver cleared on every path", fn.loc(cl[0]) if cl else fn.where(), "" if w is None else
                                   "a transaction can complete without clearing the improver's lists%s: with the improvement options off they keep "
                                   "naming the junctions / connectors of the last improved transaction" % ((" (" + g.describe(w) + ")") if w else ""))


def rule_registered_once(chk, prog):
    """calcHyperedgeConnectors: every registered hyperedge is collected exactly once."""
    from ..microai.interp import SetVal
    r = chk.rule("REGISTERED-ONCE", "HyperedgeRerouter::calcHyperedgeConnectors (with both findAttachedObjects overloads) interpreted on a hyperedge with "
                 "two junctions J1 - J2 and four terminals: registered once through J1; registered TWICE, through J1 and through J2; and two "
                 "separate hyperedges registered side by side: every connector and every junction of a registered hyperedge appears in the "
                 "deleted-object lists of exactly ONE registration index (what is listed twice is rerouted and freed twice), and the terminal "
                 "vertices are recorded under that index", floor=3)
    fn = prog.fn("Avoid::HyperedgeRerouter::calcHyperedgeConnectors")

    def scene(tag):
        J1 = default_obj(prog, "Avoid::JunctionRef", {"_name": tag + "J1"})
        J2 = default_obj(prog, "Avoid::JunctionRef", {"_name": tag + "J2"})
        conns = {}
        for nm, (a, b) in {"a": (None, J1), "b": (None, J1), "c": (J1, J2), "d": (J2, None), "e": (J2, None)}.items():
            c = default_obj(prog, "Avoid::ConnRef", {"_name": tag + nm})
            c.f["_anchors"] = (a, b)
            c.f["m_src_vert"] = default_obj(prog, "Avoid::VertInf", {"_name": tag + nm + ".src"})
            c.f["m_dst_vert"] = default_obj(prog, "Avoid::VertInf", {"_name": tag + nm + ".dst"})
            conns[nm] = c
        J1.f["_conns"] = [conns[k] for k in "abc"]
        J2.f["_conns"] = [conns[k] for k in "cde"]
        return J1, J2, conns
    cases = []
    J1, J2, cs = scene("")
    cases.append(("registered once through J1", [J1], [(J1, J2)], [cs]))
    J1, J2, cs = scene("")
    cases.append(("registered twice, through J1 and through J2", [J1, J2], [(J1, J2)], [cs]))
    J1, J2, cs = scene("p.")
    K1, K2, ds = scene("q.")
    cases.append(("two separate hyperedges", [J1, K2], [(J1, J2), (K1, K2)], [cs, ds]))
    for name, roots, hes, conn_sets in cases:
        n = len(roots)
        rr = default_obj(prog, "Avoid::HyperedgeRerouter", {"m_router": default_obj(prog, "Avoid::Router", {})})
        rr.f["m_root_junction_vector"] = Vec(list(roots), "Avoid::JunctionRef *")
        rr.f["m_terminals_vector"] = Vec([Vec([], "Avoid::ConnEnd") for _ in range(n)], "Avoid::ConnEndList")
        for fld, t in (("m_deleted_junctions_vector", "std::list<Avoid::JunctionRef *>"), ("m_deleted_connectors_vector", "std::list<Avoid::ConnRef *>"),
                       ("m_new_junctions_vector", "std::list<Avoid::JunctionRef *>"), ("m_new_connectors_vector", "std::list<Avoid::ConnRef *>")):
            rr.f[fld] = Vec([], t)
        rr.f["m_terminal_vertices_vector"] = Vec([], "std::set<Avoid::VertInf *>")
        rr.f["m_added_vertices"] = Vec([], "Avoid::VertInf *")
        it = Interp(prog, Oracle([]), max_steps=400000)
        it.vhooks["Avoid::ConnRef::assignConnectionPinVisibility"] = lambda it_, recv, args: None
        warned = []
        it.hooks["Avoid::err_printf"] = lambda it_, n_, env_, warned=warned: warned.append(1)
        it.vhooks["Avoid::Obstacle::attachedConnectors"] = lambda it_, recv, args: Vec(list(recv.f["_conns"]), "Avoid::ConnRef *")
        it.vhooks["Avoid::ConnRef::endpointAnchors"] = lambda it_, recv, args: Obj("std::pair", {"first": recv.f["_anchors"][0], "second": recv.f["_anchors"][1]})
        r.count()
        try:
            it.call(fn, rr, None, None, arg_values=[])
        except Unsupported as e:
            raise AnalysisBroken("calcHyperedgeConnectors outside the interpreter subset (%s): %s" % (name, e))
        except AssertFail as e:
            r.bad(name, fn.where(), "assertion fails: %s" % e)
            continue
        bad = "a well-formed hyperedge (a junction with three connectors) is reported invalid and ignored" if warned else None
        dj, dc = rr.f["m_deleted_junctions_vector"].items, rr.f["m_deleted_connectors_vector"].items
        for (A_, B_), cs_ in zip(hes, conn_sets):
            for obj, lists, what in [(A_, dj, "junction"), (B_, dj, "junction")] + [(c_, dc, "connector") for c_ in cs_.values()]:
                idx = [i_ for i_, l_ in enumerate(lists) for x in l_.items if x is obj]
                if len(idx) != 1:
                    bad = bad or "%s %s is listed for deletion %d times (registration indexes %s), expected exactly once" % (
                        what, obj.f["_name"], len(idx), idx)
            tv = rr.f["m_terminal_vertices_vector"].items
            want_t = {cs_[k].f["m_src_vert"].f["_name"] for k in "ab"} | {cs_[k].f["m_dst_vert"].f["_name"] for k in "de"}
            got_t = [{v.f["_name"] for v in (s_.items if hasattr(s_, "items") else [])} for s_ in tv]
            if bad is None and sum(1 for g_ in got_t if g_ == want_t) != 1:
                bad = "the terminal vertices of the hyperedge %s are recorded as %s" % (sorted(want_t), [sorted(g_) for g_ in got_t])
        (r.bad if bad else r.ok)(name, fn.where(), bad or "")


def run(chk):
    prog = chk.load()
    chk.guard(rule_registered_once, chk, prog)
    from .c10 import rule_junction_limits
    chk.guard(rule_junction_limits, chk, prog)        # nudging keeps the ends of a hyperedge's connectors on the junction the improver moved
    chk.guard(rule_improver_lists_fresh, chk, prog)
    chk.guard(rule_shift_takes_in_terminal, chk, prog)
    chk.guard(rule_recommended_position, chk, prog)
    chk.guard(rule_writeback, chk, prog, chk.tier)
    chk.guard(rule_dummy_flagged, chk, prog)
    chk.guard(rule_zero_length, chk, prog)
    chk.guard(rule_shift_terminal, chk, prog)
    chk.guard(rule_merge_far_end, chk, prog)
    chk.guard(rule_execute_coverage, chk, prog)
    chk.guard(rule_reroute_lists, chk, prog)
    chk.guard(rule_results_readable, chk, prog)
    chk.guard(rule_object_lists, chk, prog)
