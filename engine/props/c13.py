"""C13 -- libtopology: layout steps never pull an edge through a node: the step-length clauses.

The property (no segment enters a node, no overlap, bends stay on corners -- for all run-time geometries) is NOT decided.
Decided is the mechanism it rests on, "move only as far (alpha) as the first topology constraint allows, then split or merge":

  ALPHA-EXACT      TriConstraint::maxSafeAlpha, symbolic over the initial / final positions of u, v, w and p, g, for both orientations:
                   returns 1 when the final positions satisfy the constraint or nothing moves, and otherwise the alpha at which the
                   constraint's own slack() becomes exactly 0 on the line from initial to final positions (rational identity);
                   Node::posOnLine(dim, alpha) = initial + alpha (final - initial)
  SOLVE-MIN-ALPHA  TopologyConstraints::solve: the scan visits every topology constraint and keeps the smallest alpha together with
                   its constraint; every node is moved to posOnLine(dim, min alpha) (only when min alpha > 0); the limiting constraint
                   is satisfied (split / merge) whenever min alpha < 1; the function reports whether a constraint limited the move,
                   and ColaTopologyAddon::applyForcesAndConstraints repeats while it does
Not decided: that the generated constraints cover every node/segment pair; overlap freedom; convexity of bends.
"""
import re
from fractions import Fraction

from ..astq import strip, strip_casts, calls, call_args, call_object, norm, writes, written_field, literal_value, single_assignment_locals
from ..cfg import CFG
from ..facts import AnalysisBroken, walk
from ..microai.interp import Interp, Obj, Vec, Box, Oracle, enumerate_paths, AssertFail, Thrown, Unsupported, default_obj
from ..microai.poly import Poly, Rat, to_poly, num_den
from ..rules.guards import path_condition, atoms, entails, show


def rule_alpha(chk, prog):
    r = chk.rule("ALPHA-EXACT", "decision tree of TriConstraint::maxSafeAlpha over symbolic positions (u1,u2,v1,v2,w1,w2), p, g and both "
                 "orientations: every leaf returns 1 (final slack >= 0, or zero denominator), the alpha with slack(u(a), v(a), w(a)) = 0 "
                 "for x(a) = x1 + a (x2 - x1) (checked as a rational identity through the function's own slack()), or -- for a negative "
                 "ratio -- the (negative) final slack; Node::posOnLine is the same interpolation", floor=3)
    fn = prog.fn("topology::TriConstraint::maxSafeAlpha")
    slack = prog.fn("topology::TriConstraint::slack")
    V = {k: Poly.var(k) for k in ("u1", "u2", "v1", "v2", "w1", "w2", "p", "g")}

    def node(tag):
        rect = Obj("vpsc::Rectangle", {"_c": V[tag + "1"]})
        var = default_obj(prog, "vpsc::Variable", {"finalPosition": V[tag + "2"]})
        return default_obj(prog, "topology::Node", {"rect": rect, "var": var, "id": 0})
    hooks = {"vpsc::Rectangle::getCentreD": lambda it, n, env: it.ev(call_object(n), env).f["_c"],
             "topology::Log*": lambda it, n, env: -1,          # logging off: FILE_LOG(level) tests level > ReportingLevel()
             "topology::Output2FILE::Stream": lambda it, n, env: None}
    for left in (False, True):
        tc = default_obj(prog, "topology::TriConstraint", {"u": node("u"), "v": node("v"), "w": node("w"), "p": V["p"], "g": V["g"],
                                                            "leftOf": left, "scanDim": 0})

        def run(o):
            it = Interp(prog, o, hooks=hooks)
            try:
                return ("ret", it.call(fn, tc, None, None, arg_values=[]))
            except AssertFail as e:
                return ("assert", str(e))
        try:
            rows = enumerate_paths(run, limit=200)
        except Unsupported as e:
            raise AnalysisBroken("TriConstraint::maxSafeAlpha outside the interpreter subset: %s" % e)
        r.count()
        bad = None
        n_alpha = 0
        for val, descr, out in rows:
            if out[0] == "assert":
                continue            # the debug assertion iSlack >= fSlack guards an infeasible combination
            a = out[1]
            if not isinstance(a, (Poly, Rat)) and a == 1:
                continue
            # slack at the interpolated positions must vanish identically, or the value is the final slack itself
            it = Interp(prog, Oracle([]), hooks=hooks)
            from ..microai.poly import r_add, r_mul, r_sub
            pos = [r_add(V[t + "1"], r_mul(a, r_sub(V[t + "2"], V[t + "1"]))) for t in ("u", "v", "w")]
            s_at = it.call(slack, tc, None, None, arg_values=pos)
            num, den = num_den(s_at)
            fs = it.call(slack, tc, None, None, arg_values=[V["u2"], V["v2"], V["w2"]])
            if to_poly(num) == to_poly(Fraction(0)):
                n_alpha += 1
                continue
            try:
                same_as_final = (to_poly(a) == to_poly(fs))
            except Exception:
                same_as_final = False
            if same_as_final:
                continue
            bad = bad or "a path returns alpha = %s, at which the constraint's slack is %s (not 0): the move stops short of / beyond the point " \
                         "where the bend straightens or the segment touches the node" % (a, s_at)
        if n_alpha == 0:
            bad = bad or "no path returns the limiting alpha"
        (r.bad if bad else r.ok)("maxSafeAlpha (leftOf=%s)" % left, fn.where(), bad or "%d paths" % len(rows))
    f2 = prog.fn("topology::Node::posOnLine")
    n_ = node("u")
    it = Interp(prog, Oracle([]), hooks=hooks)
    try:
        got = it.call(f2, n_, None, None, arg_values=[0, Poly.var("a")])
    except (Unsupported, AssertFail) as e:
        raise AnalysisBroken("Node::posOnLine outside the interpreter subset: %s" % e)
    want = to_poly(V["u1"]) + to_poly(Poly.var("a")) * (to_poly(V["u2"]) - to_poly(V["u1"]))
    r.count()
    (r.ok if to_poly(got) == want else r.bad)("Node::posOnLine", f2.where(), "" if to_poly(got) == want else "posOnLine(a) = %s, expected initial + a (final - initial)" % got)


def rule_solve(chk, prog):
    r = chk.rule("SOLVE-MIN-ALPHA", "TopologyConstraints::solve: argmin scan over all topology constraints (initial value 1; strictly "
                 "smaller alpha replaces both the value and the constraint; no constraint skipped); all nodes moved to "
                 "posOnLine(dim, minTAlpha) under minTAlpha > 0; minT->satisfy() under minTAlpha < 1 && minT; returns minT != nullptr; "
                 "the add-on repeats while solve() reports a limiting constraint", floor=5)
    fn = prog.fn("topology::TopologyConstraints::solve")
    g = CFG(fn)
    sal = single_assignment_locals(fn)
    msa = [c for c in calls(fn) if c.get("cname") == "topology::TriConstraint::maxSafeAlpha"]
    r.count()
    bad = None
    if len(msa) != 1:
        raise AnalysisBroken("solve(): maxSafeAlpha call not found")
    lp = [a for a in fn.ancestors(msa[0]) if a.get("k") == "ForStmt"]
    if not lp or "ts.begin()" not in norm(lp[0].get("init")) or "ts.end()" not in norm(lp[0].get("cond")):
        bad = "the alpha scan does not cover all topology constraints"
    elif g.iteration_can_skip(lp[0], [msa[0]["id"]]) is not None:
        bad = "a topology constraint can be skipped by the alpha scan"
    else:
        upd = [node for lhs, node, op in writes(fn) if norm(lhs) == "minTAlpha" and node["id"] in {x.get("id") for x in walk(lp[0]["body"])}]
        updT = [node for lhs, node, op in writes(fn) if norm(lhs) == "minT" and node["id"] in {x.get("id") for x in walk(lp[0]["body"])}]
        if len(upd) != 1 or len(updT) != 1:
            bad = "minimum alpha / limiting constraint are not updated together"
        else:
            pc1 = show(path_condition(fn, upd[0], inline=False))
            pc2 = show(path_condition(fn, updT[0], inline=False))
            if ("(tAlpha < minTAlpha)" not in pc1 and "(tAlpha <= minTAlpha)" not in pc1 and "(minTAlpha > tAlpha)" not in pc1) or pc1 != pc2 or norm(upd[0]["ch"][1]) != "tAlpha" or norm(updT[0]["ch"][1]) not in ("t", "i.*"):
                bad = "the scan does not keep the smallest alpha with its constraint (update under %s)" % pc1[:120]
        init = [n for n in fn.nodes() if n.get("k") == "VarDecl" and n.get("name") == "minTAlpha"]
        if not init or literal_value(init[0].get("init")) != "1":
            bad = bad or "the scan does not start from alpha = 1 (a full step)"
    (r.bad if bad else r.ok)("argmin over all topology constraints", fn.loc(msa[0]), bad or "")
    mv = [c for c in calls(fn) if c.get("cname") == "vpsc::Rectangle::moveCentreD"]
    r.count()
    bad = None
    if len(mv) != 1:
        bad = "nodes are not moved"
    else:
        a = [norm(x, sal) for x in call_args(mv[0])]
        lp2 = [x for x in fn.ancestors(mv[0]) if x.get("k") == "ForStmt"]
        pc = path_condition(fn, mv[0], inline=False)
        if a[0] != "dim" or "posOnLine(dim, minTAlpha)" not in a[1]:
            bad = "nodes are moved to %s in dimension %s, not to posOnLine(dim, minTAlpha)" % (a[1], a[0])
        elif not lp2 or "nodes.begin()" not in norm(lp2[0].get("init")) or "nodes.end()" not in norm(lp2[0].get("cond")) or \
                g.iteration_can_skip(lp2[0], [mv[0]["id"]]) is not None:
            bad = "not every node is moved"
        elif [x for x in atoms(pc) if "nodes.end()" not in x] != ["(minTAlpha > 0)"]:
            bad = "nodes are moved under %s" % show(pc)[:120]
        else:
            who = norm(call_object(mv[0]), sal)
            arg_obj = a[1].split(".posOnLine")[0]
            if arg_obj + ".rect" != who and who != "i.*.rect":
                bad = "the rectangle of one node is moved to the position of another (%s vs %s)" % (who, arg_obj)
    (r.bad if bad else r.ok)("all nodes moved by the limiting alpha", fn.loc(mv[0]) if mv else fn.where(), bad or "")
    st = [c for c in calls(fn) if c.get("cname") == "topology::TopologyConstraint::satisfy"]
    r.count()
    bad = None
    if len(st) != 1 or norm(call_object(st[0])) != "minT":
        bad = "the limiting constraint is not satisfied (no split / merge)"
    else:
        pc = path_condition(fn, st[0], inline=False)
        need = ("and", ("atom", "(minTAlpha < 1)"), ("atom", "minT"))
        if not entails(need, pc):
            bad = "the limiting constraint is satisfied only under %s" % show(pc)[:120]
        elif mv and g.search("entry", blocked=[mv[0]["id"]], targets=[st[0]["id"]]) is not None and False:
            bad = "split / merge happens before the move"
    (r.bad if bad else r.ok)("limiting constraint satisfied", fn.loc(st[0]) if st else fn.where(), bad or "")
    rets = [n for n in fn.nodes() if n.get("k") == "ReturnStmt" and n.get("ch")]
    r.count()
    okr = len(rets) == 1 and norm(rets[0]["ch"][0]) in ("(minT != nullptr)", "(minT != 0)")
    (r.ok if okr else r.bad)("reports whether the move was limited", fn.loc(rets[0]) if rets else fn.where(),
                             "" if okr else "solve() returns %s" % [norm(x["ch"][0]) for x in rets])
    f2 = prog.fn("topology::ColaTopologyAddon::applyForcesAndConstraints")
    sv = [c for c in calls(f2) if c.get("cname") == "topology::TopologyConstraints::solve"]
    r.count()
    bad = None
    if not sv:
        bad = "the add-on no longer calls TopologyConstraints::solve"
    else:
        lp3 = [x for x in f2.ancestors(sv[0]) if x.get("k") in ("DoStmt", "WhileStmt", "ForStmt")]
        if not lp3:
            bad = "solve() is called once only: after a split / merge the remaining part of the step is dropped"
        else:
            cond = norm(lp3[0].get("cond"))
            sal2 = single_assignment_locals(f2)
            tgt = [norm(lhs) for lhs, node, op in writes(f2) if sv[0]["id"] in {x.get("id") for x in walk(node)}]
            ini = [n.get("name") for n in f2.nodes() if n.get("k") == "VarDecl" and n.get("init") is not None and sv[0]["id"] in {x.get("id") for x in walk(n["init"])}]
            names = tgt + ini
            if not names or not any(nm in cond for nm in names):
                bad = "the loop around solve() (`%s`) does not depend on its result" % cond
    (r.bad if bad else r.ok)("add-on repeats while limited", f2.loc(sv[0]) if sv else f2.where(), bad or "")


def rule_corner_tables(chk, prog):
    """The (dimension, corner) tables of libtopology, tied to one geometric definition."""
    r = chk.rule("CORNER-TABLES", "the tables over (dimension, rectangle corner) agree with the geometry TL=(minX,maxY), TR=(maxX,maxY), "
                 "BL=(minX,minY), BR=(maxX,minY): EdgePoint::pos(dim) = centre(dim) + EdgePoint::offset(dim) = the corner's coordinate "
                 "(symbolic); transferStraightConstraintChoose sends a constraint whose scan position lies on the new bend to the low "
                 "segment exactly when its corner is on the high side in the other dimension; resize's SubstituteNodes attaches a corner to "
                 "the low (lhs) dummy node exactly when the corner is on the low side in the resize dimension -- so the x and the y pass "
                 "treat a transposed picture alike", floor=3)
    RI = {}
    for e in prog.enums.values():
        if e.get("q") == "topology::EdgePoint::RectIntersect":
            RI = {c["name"]: int(c["v"]) for c in e["enumerators"]}
    if set(RI) < {"TL", "TR", "BL", "BR", "CENTRE"}:
        raise AnalysisBroken("EdgePoint::RectIntersect enumerators not found")
    geom = {"TL": ("minX", "maxY"), "TR": ("maxX", "maxY"), "BL": ("minX", "minY"), "BR": ("maxX", "minY")}
    V = {k: Poly.var(k) for k in ("minX", "maxX", "minY", "maxY")}
    half = Fraction(1, 2)
    hooks = {
        "vpsc::Rectangle::getMinX": lambda it, n, env: V["minX"], "vpsc::Rectangle::getMaxX": lambda it, n, env: V["maxX"],
        "vpsc::Rectangle::getMinY": lambda it, n, env: V["minY"], "vpsc::Rectangle::getMaxY": lambda it, n, env: V["maxY"],
        "vpsc::Rectangle::getMinD": lambda it, n, env: V["minX"] if it.ev(call_args(n)[0], env) == 0 else V["minY"],
        "vpsc::Rectangle::getMaxD": lambda it, n, env: V["maxX"] if it.ev(call_args(n)[0], env) == 0 else V["maxY"],
        "vpsc::Rectangle::getCentreD": lambda it, n, env: (to_poly(V["minX"]) + to_poly(V["maxX"])) * half if it.ev(call_args(n)[0], env) == 0
        else (to_poly(V["minY"]) + to_poly(V["maxY"])) * half,
        "vpsc::Rectangle::length": lambda it, n, env: (to_poly(V["maxX"]) - to_poly(V["minX"])) if it.ev(call_args(n)[0], env) == 0
        else (to_poly(V["maxY"]) - to_poly(V["minY"])),
        "topology::Log*": lambda it, n, env: -1, "topology::Output2FILE::Stream": lambda it, n, env: None,
    }
    fpos, foff = prog.fn("topology::EdgePoint::pos"), prog.fn("topology::EdgePoint::offset")
    node = default_obj(prog, "topology::Node", {"rect": Obj("vpsc::Rectangle", {}), "id": 7})
    offs = {}
    bad = None
    for cn, xy in geom.items():
        for dim in (0, 1):
            ep = default_obj(prog, "topology::EdgePoint", {"node": node, "rectIntersect": RI[cn]})
            it = Interp(prog, Oracle([]), hooks=hooks)
            try:
                p = it.call(fpos, ep, None, None, arg_values=[dim])
                o = it.call(foff, ep, None, None, arg_values=[dim])
            except (Unsupported, AssertFail) as e:
                raise AnalysisBroken("EdgePoint::pos/offset outside the interpreter subset: %s" % e)
            want = to_poly(V[xy[dim]])
            centre = (to_poly(V["minX"]) + to_poly(V["maxX"])) * half if dim == 0 else (to_poly(V["minY"]) + to_poly(V["maxY"])) * half
            offs[(cn, dim)] = to_poly(o)
            if to_poly(p) != want:
                bad = bad or "EdgePoint::pos(%s) of corner %s is %s, the corner's coordinate is %s" % ("xy"[dim], cn, to_poly(p), want)
            elif centre + to_poly(o) != want:
                bad = bad or "centre + EdgePoint::offset(%s) of corner %s is %s, the corner's coordinate is %s" % ("xy"[dim], cn, centre + to_poly(o), want)
    r.count(8)
    (r.bad if bad else r.ok)("EdgePoint::pos / offset", fpos.where(), bad or "")

    def high(cn, dim):          # corner on the high side of its rectangle in dimension dim (by the geometric definition)
        return geom[cn][dim].startswith("max")
    # ---- transfer of straight constraints at a new bend
    ft = prog.fn("topology::transferStraightConstraintChoose::operator()")
    bad = None
    for dim in (0, 1):
        for cn in geom:
            sent = []
            hk = dict(hooks)
            hk["topology::Segment::transferStraightConstraint"] = lambda it, n, env: sent.append(it.ev(call_object(n), env).f["_tag"])
            lseg, rseg = Obj("topology::Segment", {"_tag": "low"}), Obj("topology::Segment", {"_tag": "high"})
            ign = default_obj(prog, "topology::StraightConstraint", {"scanDim": dim})
            c = default_obj(prog, "topology::StraightConstraint", {"scanDim": dim, "pos": Fraction(5), "ri": RI[cn]})
            fun = default_obj(prog, "topology::transferStraightConstraintChoose", {"lSeg": lseg, "rSeg": rseg, "lMin": Fraction(0), "mid": Fraction(5),
                                                                                     "rMax": Fraction(9), "ignore": ign})
            it = Interp(prog, Oracle([]), hooks=hk)
            try:
                it.call(ft, fun, None, None, arg_values=[c])
            except (Unsupported, AssertFail) as e:
                raise AnalysisBroken("transferStraightConstraintChoose outside the interpreter subset: %s" % e)
            want = "low" if high(cn, 1 - dim) else "high"
            if sent != [want]:
                bad = bad or "scan dimension %s, corner %s on the new bend: constraint goes to the %s segment, expected the %s one (the node " \
                             "lies on the %s side of the bend)" % ("xy"[dim], cn, sent, want, "low" if want == "low" else "high")
    r.count(8)
    (r.bad if bad else r.ok)("transferStraightConstraintChoose tie-break", ft.where(), bad or "")
    # ---- resize: which dummy node a corner is attached to
    cands = [f for f in prog.fns("topology::SubstituteNodes::operator()") if f.params and "EdgePoint" in f.params[0]["t"]]
    if len(cands) != 1:
        raise AnalysisBroken("SubstituteNodes::operator()(EdgePoint*) not found")
    fs = cands[0]
    bad = None
    from ..microai.interp import MapVal
    for dim in (0, 1):
        for cn in list(geom) + ["CENTRE"]:
            lhs, rhs, cen = (Obj("topology::Node", {"_tag": t, "id": 7}) for t in ("lhs", "rhs", "centre"))
            info = default_obj(prog, "topology::ResizeInfo", {"lhsNode": lhs, "rhsNode": rhs})
            ep = default_obj(prog, "topology::EdgePoint", {"node": node, "rectIntersect": RI[cn]})
            tn = Vec([None] * 7 + [cen], "topology::Node *")
            fun = default_obj(prog, "topology::SubstituteNodes", {"dim": dim, "resizes": MapVal({7: info}), "tn": tn})
            it = Interp(prog, Oracle([]), hooks=hooks)
            try:
                it.call(fs, fun, None, None, arg_values=[ep])
            except (Unsupported, AssertFail) as e:
                raise AnalysisBroken("SubstituteNodes outside the interpreter subset: %s" % e)
            got = ep.f["node"].f.get("_tag")
            want = "centre" if cn == "CENTRE" else ("rhs" if high(cn, dim) else "lhs")
            if got != want:
                bad = bad or "resize in %s: a bend at corner %s is attached to the %s dummy node, expected %s" % ("xy"[dim], cn, got, want)
    r.count(10)
    (r.bad if bad else r.ok)("SubstituteNodes corner -> dummy node", fs.where(), bad or "")
    # ---- which corner a new straight constraint keeps clear of the segment
    fc = prog.fn("topology::Segment::createStraightConstraint")
    bad = None
    n_c = 0
    for dim in (0, 1):
        for node_left in (False, True):
            for low_half in (False, True):
                made = []

                def sc_ctor(it, o, args, env):
                    made.append([it.ev(a, env) for a in args])
                hk = dict(hooks)
                hk["topology::Segment::connectedToNode"] = lambda it, n, env: False

                def fwd(it, n, env, node_left=node_left):
                    a = call_args(n)
                    if len(a) >= 3:
                        it.lv(a[2], env).set(Fraction(1, 2))
                    return Fraction(1000) if node_left else Fraction(-1000)
                hk["topology::Segment::forwardIntersection"] = fwd
                hk["topology::EdgePoint::pos"] = lambda it, n, env: it.ev(call_object(n), env).f["_p"]
                hk["vpsc::Rectangle::getCentreD"] = lambda it, n, env: Fraction(10)
                hk["vpsc::Rectangle::getCentreX"] = lambda it, n, env: Fraction(10)
                hk["vpsc::Rectangle::getCentreY"] = lambda it, n, env: Fraction(10)
                other = default_obj(prog, "topology::Node", {"id": 1})
                st = default_obj(prog, "topology::EdgePoint", {"node": other, "rectIntersect": RI["CENTRE"], "_p": Fraction(0)})
                en = default_obj(prog, "topology::EdgePoint", {"node": other, "rectIntersect": RI["CENTRE"], "_p": Fraction(100)})
                seg = default_obj(prog, "topology::Segment", {"start": st, "end": en, "edge": default_obj(prog, "topology::Edge", {"id": 3}),
                                                               "straightConstraints": Vec([], "topology::StraightConstraint *")})
                it = Interp(prog, Oracle([]), hooks=hk)
                it.ctor_hooks = {"topology::StraightConstraint": sc_ctor}
                try:
                    it.call(fc, seg, None, None, arg_values=[dim, node, Fraction(3) if low_half else Fraction(30)])
                except (Unsupported, AssertFail) as e:
                    raise AnalysisBroken("Segment::createStraightConstraint outside the interpreter subset: %s" % e)
                n_c += 1
                if len(made) != 1:
                    bad = bad or "no straight constraint created (dim %s, nodeLeft %s)" % ("xy"[dim], node_left)
                    continue
                ri = made[0][3]
                name = [k for k, v in RI.items() if v == ri][0]
                # the corner kept clear: on the side of the node facing the segment in the scan dimension, and in the half where the
                # scan line meets the node in the other dimension
                if name not in geom or high(name, dim) != node_left or high(name, 1 - dim) != (not low_half):
                    bad = bad or "scan dimension %s, segment %s of the node, scan line in the %s half: corner %s is chosen" % (
                        "xy"[dim], "beyond (high side)" if node_left else "before (low side)", "low" if low_half else "high", name)
    r.count(n_c)
    (r.bad if bad else r.ok)("createStraightConstraint corner choice", fc.where(), bad or "")


_LOG_HOOKS = {"topology::Log*": lambda it, n, env: -1, "topology::Output2FILE::Stream": lambda it, n, env: None}


def rule_prune(chk, prog):
    """EdgePoint::prune: merging the two segments at a straightened bend loses nothing."""
    r = chk.rule("PRUNE-MERGE", "EdgePoint::prune interpreted on an edge A -> P -> B with 0..2 StraightConstraints on either segment "
                 "(about the pruned bend's own node and about other nodes): the merged segment runs A -> B and is linked into both end "
                 "points and into the edge's first/last segment, the segment count drops by one, both ends get their bend constraint "
                 "rebuilt, and EVERY StraightConstraint of both old segments is offered to transferStraightConstraint of the merged "
                 "segment exactly once (a constraint that is not carried over leaves the merged segment unguarded against that node "
                 "until the next scan); on a CLOSED path (cluster boundary) pruning the anchor point or another point leaves a closed path "
                 "through all remaining points", floor=8)
    fn = prog.fn("topology::EdgePoint::prune")
    SC = "topology::StraightConstraint *"
    n_eval = 0
    for n_in, n_out, first_is_in, last_is_out in [(0, 0, True, True), (1, 0, True, False), (0, 1, False, True), (2, 1, False, False),
                                                   (1, 2, True, True), (2, 2, False, True)]:
        N = default_obj(prog, "topology::Node", {"id": 1})
        M = default_obj(prog, "topology::Node", {"id": 2})
        e = default_obj(prog, "topology::Edge", {"nSegments": 4})
        A = default_obj(prog, "topology::EdgePoint", {"node": M, "rectIntersect": 0})
        B = default_obj(prog, "topology::EdgePoint", {"node": M, "rectIntersect": 1})
        P = default_obj(prog, "topology::EdgePoint", {"node": N, "rectIntersect": 3})
        cs_in = [default_obj(prog, "topology::StraightConstraint", {"node": (N, M)[i % 2], "pos": i}) for i in range(n_in)]
        cs_out = [default_obj(prog, "topology::StraightConstraint", {"node": (N, M)[i % 2], "pos": 10 + i}) for i in range(n_out)]
        other1 = default_obj(prog, "topology::Segment", {"edge": e})
        other2 = default_obj(prog, "topology::Segment", {"edge": e})
        sin = default_obj(prog, "topology::Segment", {"edge": e, "start": A, "end": P, "straightConstraints": Vec(list(cs_in), SC)})
        sout = default_obj(prog, "topology::Segment", {"edge": e, "start": P, "end": B, "straightConstraints": Vec(list(cs_out), SC)})
        A.f["outSegment"] = sin
        A.f["inSegment"] = other1
        P.f["inSegment"] = sin
        P.f["outSegment"] = sout
        B.f["inSegment"] = sout
        B.f["outSegment"] = other2
        e.f["firstSegment"] = sin if first_is_in else other1
        e.f["lastSegment"] = sout if last_is_out else other2
        rec, rebuilt = [], []
        hooks = dict(_LOG_HOOKS)
        it = Interp(prog, Oracle([]), hooks=hooks)
        it.vhooks["topology::Segment::transferStraightConstraint"] = lambda it_, recv, args, rec=rec: rec.append((recv, args[0]))
        it.vhooks["topology::EdgePoint::createBendConstraint"] = lambda it_, recv, args, rebuilt=rebuilt: (rebuilt.append(recv), True)[1]
        it.vhooks["topology::Segment::deleteStraightConstraints"] = lambda it_, recv, args: None
        it.vhooks["topology::EdgePoint::deleteBendConstraint"] = lambda it_, recv, args: None
        try:
            s = it.call(fn, P, None, None, arg_values=[0])
        except Unsupported as ex:
            raise AnalysisBroken("EdgePoint::prune outside the interpreter subset: %s" % ex)
        except AssertFail as ex:
            r.bad("prune, %d + %d constraints" % (n_in, n_out), fn.where(), "assertion fails: %s" % ex)
            continue
        n_eval += 1
        r.count()
        what = "edge A -> P -> B, %d + %d straight constraints%s%s" % (n_in, n_out, ", in-segment first" if first_is_in else "",
                                                                    ", out-segment last" if last_is_out else "")
        bad = None
        if not isinstance(s, Obj) or s.f.get("start") is not A or s.f.get("end") is not B or s.f.get("edge") is not e:
            bad = "the returned segment does not run from the old in-segment's start to the old out-segment's end on the same edge"
        elif A.f.get("outSegment") is not s or B.f.get("inSegment") is not s:
            bad = "the end points are not linked to the merged segment"
        elif e.f.get("nSegments") != 3:
            bad = "Edge::nSegments is %r after merging two of 4 segments" % (e.f.get("nSegments"),)
        elif (e.f.get("firstSegment") is not (s if first_is_in else other1)) or (e.f.get("lastSegment") is not (s if last_is_out else other2)):
            bad = "Edge::firstSegment / lastSegment do not name the merged segment in place of the segment it replaces"
        elif not (any(x is A for x in rebuilt) and any(x is B for x in rebuilt)):
            bad = "the bend constraints of both ends of the merged segment are not rebuilt"
        else:
            for c in cs_in + cs_out:
                k = sum(1 for recv, a in rec if a is c and recv is s)
                if k != 1:
                    bad = "the StraightConstraint about %s (scan position %s) of the old %s-segment is offered to the merged segment %d times" % (
                        "the pruned bend's own node" if c.f["node"] is N else "another node", c.f["pos"], "in" if c in cs_in else "out", k)
                    break
            if bad is None and any(recv is not s for recv, a in rec):
                bad = "a StraightConstraint is transferred to a segment other than the merged one"
        (r.bad if bad else r.ok)(what, fn.where(), bad or "")
    # closed paths (cluster boundaries): the list is anchored at one point; pruning that very point must keep the cycle closed
    for victim in (0, 2):
        N = default_obj(prog, "topology::Node", {"id": 1})
        e = default_obj(prog, "topology::Edge", {"nSegments": 4})
        pts = [default_obj(prog, "topology::EdgePoint", {"node": N, "rectIntersect": k, "_tag": k}) for k in range(4)]
        segs = [default_obj(prog, "topology::Segment", {"edge": e, "start": pts[k], "end": pts[(k + 1) % 4], "straightConstraints": Vec([], SC), "_tag": k})
                for k in range(4)]
        for k in range(4):
            pts[k].f["outSegment"] = segs[k]
            pts[k].f["inSegment"] = segs[(k - 1) % 4]
        e.f["firstSegment"], e.f["lastSegment"] = segs[0], segs[3]
        it = Interp(prog, Oracle([]), hooks=dict(_LOG_HOOKS))
        it.vhooks["topology::Segment::transferStraightConstraint"] = lambda it_, recv, args: None
        it.vhooks["topology::EdgePoint::createBendConstraint"] = lambda it_, recv, args: True
        it.vhooks["topology::Segment::deleteStraightConstraints"] = lambda it_, recv, args: None
        it.vhooks["topology::EdgePoint::deleteBendConstraint"] = lambda it_, recv, args: None
        what = "closed path P0 -> P1 -> P2 -> P3 -> P0 anchored at P0, pruning %s" % ("the anchor P0" if victim == 0 else "P2")
        r.count()
        try:
            it.call(fn, pts[victim], None, None, arg_values=[0])
        except Unsupported as ex:
            raise AnalysisBroken("EdgePoint::prune outside the interpreter subset (cycle): %s" % ex)
        except AssertFail as ex:
            r.bad(what, fn.where(), "assertion fails: %s" % ex)
            continue
        n_eval += 1
        bad = None
        first, last = e.f.get("firstSegment"), e.f.get("lastSegment")
        if not isinstance(first, Obj) or not isinstance(last, Obj):
            bad = "firstSegment / lastSegment lost"
        elif first.f.get("start") is not last.f.get("end"):
            bad = "the path is no longer closed: it starts at P%s and ends at P%s" % (first.f["start"].f.get("_tag"), last.f["end"].f.get("_tag"))
        else:
            seen, cur = [], first
            while cur is not None and not any(cur is x for x in seen) and len(seen) < 8:
                seen.append(cur)
                if cur is last:
                    break
                cur = cur.f["end"].f.get("outSegment")
            if len(seen) != 3 or seen[-1] is not last:
                bad = "walking from firstSegment reaches lastSegment after %d segments, expected all 3 remaining ones: part of the boundary is unreachable" % len(seen)
            elif any(x is pts[victim] for sg in seen for x in (sg.f["start"], sg.f["end"])):
                bad = "the pruned point is still on the path"
        (r.bad if bad else r.ok)(what, fn.where(), bad or "")
    r.evaluations = n_eval


def rule_prune_degenerate(chk, prog):
    """PruneDegenerate: of two coincident consecutive bend points, the one that is not a turn goes."""
    r = chk.rule("PRUNE-DEGENERATE", "PruneDegenerate::operator() interpreted on o -> p -> q over zero / non-zero segment lengths, present / absent "
                 "predecessor of o and successor of q, collinear or not in the other dimension, and both outcomes of validTurn: p is put "
                 "on the prune list exactly when it lies between two non-degenerate segments collinear with it, or it coincides with a "
                 "neighbour and -- with that neighbour left out -- is not a valid turn (first the pair (o,p), otherwise the pair (p,q)); "
                 "whether the OTHER side of the path has a further segment plays no role", floor=1)
    cands = [f for k, f in prog.by_key.items() if k.startswith("topology::PruneDegenerate::operator()(") and f.body is not None]
    if len(cands) != 1:
        raise AnalysisBroken("PruneDegenerate::operator() not found")
    fn = cands[0]
    import itertools
    n_eval, first_bad = 0, None
    EP = "topology::EdgePoint *"
    for in0, out0, o_has_in, q_has_out, coll, vt1, vt2 in itertools.product((True, False), repeat=7):
        pts = {k: default_obj(prog, "topology::EdgePoint", {"_tag": k}) for k in "zopqr"}
        z, o, p_, q, rr = (pts[k] for k in "zopqr")
        seg = lambda a, b, ln: default_obj(prog, "topology::Segment", {"start": a, "end": b, "_len": ln})
        s_zo, s_op, s_pq, s_qr = seg(z, o, 7), seg(o, p_, 0 if in0 else 5), seg(p_, q, 0 if out0 else 5), seg(q, rr, 7)
        o.f["inSegment"] = s_zo if o_has_in else None
        o.f["outSegment"] = s_op
        p_.f["inSegment"] = s_op
        p_.f["outSegment"] = s_pq
        q.f["inSegment"] = s_pq
        q.f["outSegment"] = s_qr if q_has_out else None
        lst = Vec([], EP)
        functor = Obj("topology::PruneDegenerate", {"pruneList": lst, "scanDim": 0})
        it = Interp(prog, Oracle([]), hooks=dict(_LOG_HOOKS))
        it.vhooks["topology::Segment::length"] = lambda it_, recv, args: recv.f["_len"]
        it.vhooks["topology::EdgePoint::pos"] = lambda it_, recv, args, coll=coll: 3 if coll else {"o": 1, "p": 2, "q": 4}.get(recv.f["_tag"], 9)

        def vturn(it_, recv, args, vt1=vt1, vt2=vt2, z=z, rr=rr, p_=p_):
            u, v, w = args
            if v is not p_:
                return True           # (only the asserted sanity condition about the neighbour asks this)
            return vt1 if u is z else vt2
        it.vhooks["topology::validTurn"] = vturn
        try:
            it.call(fn, functor, None, None, arg_values=[p_])
        except Unsupported as ex:
            raise AnalysisBroken("PruneDegenerate::operator() outside the interpreter subset: %s" % ex)
        except AssertFail as ex:
            first_bad = first_bad or "assertion fails (%s)" % ex
            continue
        n_eval += 1
        want = 0
        if (not in0) and (not out0) and coll:
            want += 1
        if in0 and o_has_in and not vt1:
            want += 1
        elif out0 and q_has_out and not vt2:
            want += 1
        got = sum(1 for x in lst.items if x is p_)
        if (got != want or len(lst.items) != got) and first_bad is None:
            first_bad = ("in-segment length %s, out-segment length %s, o %s a predecessor, q %s a successor, %scollinear, p %s a turn without o, "
                         "%s a turn without q: p is listed %d times, expected %d" % (
                             "0" if in0 else ">0", "0" if out0 else ">0", "has" if o_has_in else "has not", "has" if q_has_out else "has not",
                             "" if coll else "not ", "is" if vt1 else "is not", "is" if vt2 else "is not", got, want))
    r.count()
    r.evaluations = n_eval
    (r.bad if first_bad else r.ok)("PruneDegenerate over 128 configurations", fn.where(), first_bad or "")


def rule_node_identity(chk, prog):
    import json
    import os
    from ..facts import VERIF
    r = chk.rule("NODE-IDENTITY-BY-ID", "libtopology recognises `this edge ends in the centre of this node` by node ID: pointer comparisons of "
                 "topology::Node* occur only at the reviewed sites of tables/node_identity_reviewed.json -- during a resize one node is three Node "
                 "objects (two walls and a sliver) sharing an id, and an identity test by address lets a node's own edges be bent round its own "
                 "walls; the two id tests themselves (NodeEvent::createStraightConstraints, Segment::connectedToNode) must be there", floor=6)
    table = json.load(open(os.path.join(VERIF, "tables", "node_identity_reviewed.json")))["sites"]
    found = {}
    for f in prog.all_functions():
        if f.body is None or "/libtopology/" not in f.file or f.tmpl == "pattern" or "/tests/" in f.file:
            continue
        for n in f.nodes():
            if n.get("k") == "BinaryOperator" and n.get("op") in ("==", "!="):
                a, b = strip_casts(n["ch"][0]), strip_casts(n["ch"][1])
                ta, tb = str((a or {}).get("t", "")).replace("const ", ""), str((b or {}).get("t", "")).replace("const ", "")
                if "topology::Node *" in ta and "topology::Node *" in tb:
                    found.setdefault(f.q, []).append((f, n))
    for q in sorted(set(found) | set(table)):
        r.count()
        sites = found.get(q, [])
        if q not in table:
            f, n = sites[0]
            r.bad(q, f.loc(n), "`%s` compares two topology::Node by address: the walls and the sliver of a node being resized share its id but are "
                  "different objects" % norm(n)[:60])
        elif len(sites) > table[q][0]:
            f, n = sites[-1]
            r.bad(q, f.loc(n), "%d address comparisons of topology::Node in this function, %d were reviewed" % (len(sites), table[q][0]))
        else:
            r.ok(q, sites[0][0].loc(sites[0][1]) if sites else "", "reviewed: " + table[q][1][:90])
    for q in ("topology::NodeEvent::createStraightConstraints", "topology::Segment::connectedToNode"):
        fn = prog.fn(q)
        ids = [n for n in fn.nodes() if n.get("k") == "BinaryOperator" and n.get("op") in ("==", "!=") and norm(n["ch"][0]).endswith(".id") and norm(n["ch"][1]).endswith(".id")]
        r.count()
        (r.ok if len(ids) >= 2 else r.bad)(q + " (id tests)", fn.where(), "" if len(ids) >= 2 else
                                           "the test for `edge attached to the centre of this node` no longer compares node ids at both ends")


def rule_resize_copyback(chk, prog):
    """resize.cpp CopyPositions: what a resize pass writes back into the caller's rectangles."""
    from ..microai.interp import MapVal
    r = chk.rule("RESIZE-COPYBACK", "CopyPositions::operator() (end of each resize pass) interpreted for a resized node and for an ordinary one, in both "
                 "dimensions: the resized node's rectangle takes the extent its two wall nodes ACTUALLY reached ([lhs wall min, rhs wall max]) -- "
                 "not the requested target, which the walls may have been stopped short of or shifted away from to keep nodes apart -- and the "
                 "other dimension is untouched; an ordinary node is moved to its working copy's centre", floor=4)
    cands = [f for k_, f in prog.by_key.items() if k_.startswith("topology::CopyPositions::operator()(") and f.body is not None]
    if len(cands) != 1:
        raise AnalysisBroken("topology::CopyPositions::operator() not found")
    fn = cands[0]

    def rect(x0, x1, y0, y1):
        return default_obj(prog, "vpsc::Rectangle", {"minX": Fraction(x0), "maxX": Fraction(x1), "minY": Fraction(y0), "maxY": Fraction(y1), "overlap": False})
    for dim in (0, 1):
        for resized in (True, False):
            v = default_obj(prog, "topology::Node", {"id": 3, "rect": rect(0, 10, 100, 110)})
            work = default_obj(prog, "topology::Node", {"id": 3, "rect": rect(40, 50, 140, 150)})
            tn = Vec([None, None, None, work], "topology::Node *")
            lhs = default_obj(prog, "topology::Node", {"id": 3, "rect": rect(2, 3, 102, 103)})
            rhs = default_obj(prog, "topology::Node", {"id": 3, "rect": rect(16, 17, 116, 117)})
            info = default_obj(prog, "topology::ResizeInfo", {"orig": v, "targetRect": rect(1, 20, 101, 120), "lhsNode": lhs, "rhsNode": rhs})
            rm = MapVal({3: info} if resized else {8: info})
            functor = Obj("topology::CopyPositions", {"dim": dim, "tn": tn, "rm": rm})
            it = Interp(prog, Oracle([]), globals={"vpsc::Rectangle::xBorder": Box(Fraction(0)), "vpsc::Rectangle::yBorder": Box(Fraction(0))})
            inst = "%s node, %s pass" % ("resized" if resized else "ordinary", "xy"[dim])
            r.count()
            try:
                it.call(fn, functor, None, None, arg_values=[v])
            except Unsupported as e:
                raise AnalysisBroken("CopyPositions outside the interpreter subset (%s): %s" % (inst, e))
            except AssertFail as e:
                r.bad(inst, fn.where(), "assertion fails: %s" % e)
                continue
            rc = v.f["rect"].f
            got = ((rc["minX"], rc["maxX"]), (rc["minY"], rc["maxY"]))
            want = [(Fraction(0), Fraction(10)), (Fraction(100), Fraction(110))]
            if resized:
                want[dim] = (Fraction(2), Fraction(17)) if dim == 0 else (Fraction(102), Fraction(117))
            else:
                want[dim] = (Fraction(40), Fraction(50)) if dim == 0 else (Fraction(140), Fraction(150))
            bad = None
            if got != tuple(want):
                bad = "rectangle afterwards x %s y %s, expected x %s y %s" % tuple([tuple(str(a) for a in t) for t in got] + [tuple(str(a) for a in t) for t in want])
            (r.bad if bad else r.ok)(inst, fn.where(), bad or "")


def rule_resize_sliver(chk, prog):
    """resize.cpp TransformNode: the working copy of a node for one resize pass."""
    from ..microai.interp import MapVal
    r = chk.rule("RESIZE-SLIVER-WHERE-THE-NODE-IS", "TransformNode::operator() (start of each resize pass) interpreted for a resized node whose target "
                 "has a DIFFERENT centre, and for an ordinary node, in both dimensions: the working copy of a resized node is a sliver (width "
                 "1e-4) around the node's CURRENT centre in the pass dimension and unchanged in the other -- the edge ends attached to the "
                 "centre are carried to the target by the topology solver (desired position = target centre, fixed weight), which keeps "
                 "them on the right side of every node on the way; a sliver created at the target makes them jump there unchecked", floor=4)
    cands = [f for k_, f in prog.by_key.items() if k_.startswith("topology::TransformNode::operator()(") and f.body is not None]
    if len(cands) != 1:
        raise AnalysisBroken("topology::TransformNode::operator() not found")
    fn = cands[0]
    F = Fraction

    def rect(x0, x1, y0, y1):
        return default_obj(prog, "vpsc::Rectangle", {"minX": F(x0), "maxX": F(x1), "minY": F(y0), "maxY": F(y1), "overlap": False})
    for dim in (0, 1):
        for resized in (True, False):
            r.count()
            u = default_obj(prog, "topology::Node", {"id": 2, "rect": rect(0, 100, 200, 240)})
            tgt = rect(30, 150, 260, 280)
            var = default_obj(prog, "vpsc::Variable", {"id": 2, "desiredPosition": F(-1), "weight": F(-1)})
            info = default_obj(prog, "topology::ResizeInfo", {"orig": u, "targetRect": tgt})
            functor = Obj("topology::TransformNode", {"dim": dim, "targets": Vec([None, None, tgt], "vpsc::Rectangle *"),
                                                      "resizes": MapVal({2: info} if resized else {9: info}),
                                                      "vs": Vec([None, None, var], "vpsc::Variable *")})
            it = Interp(prog, Oracle([]), globals={"vpsc::Rectangle::xBorder": Box(F(0)), "vpsc::Rectangle::yBorder": Box(F(0))})
            inst = "%s node, %s pass" % ("resized" if resized else "ordinary", "xy"[dim])
            try:
                w = it.call(fn, functor, None, None, arg_values=[u])
            except Unsupported as e:
                raise AnalysisBroken("TransformNode outside the interpreter subset (%s): %s" % (inst, e))
            except AssertFail as e:
                r.bad(inst, fn.where(), "assertion fails: %s" % e)
                continue
            rc = w.f["rect"].f
            got = [(F(rc["minX"]), F(rc["maxX"])), (F(rc["minY"]), F(rc["maxY"]))]
            want = [(F(0), F(100)), (F(200), F(240))]
            bad = None
            if resized:
                c = F(50) if dim == 0 else F(220)
                lo, hi = got[dim]
                if got[1 - dim] != want[1 - dim]:
                    bad = "the other dimension of the working copy changed: %s" % (tuple(str(a) for a in got[1 - dim]),)
                elif not (lo < c < hi and hi - lo <= F(1, 100) and lo + hi == 2 * c):
                    bad = "the sliver is [%s, %s]; the node's current centre is %s (the target's is %s)" % (
                        float(lo), float(hi), c, 90 if dim == 0 else 270)
            elif got != want:
                bad = "the working copy of an ordinary node is not a copy of its rectangle"
            tc = F(90) if dim == 0 else F(270)
            if not bad and F(var.f["desiredPosition"]) != tc:
                bad = "desired position %s, expected the target's centre %s" % (var.f["desiredPosition"], tc)
            if not bad and w.f.get("var") is not var:
                bad = "the working copy does not carry the node's variable"
            if not bad and u.f["rect"].f["minX"] != F(0):
                bad = "the caller's rectangle was modified"
            (r.bad if bad else r.ok)(inst, fn.where(), bad or "")


def rule_bend_tie(chk, prog):
    """Two consecutive bends on one point (opposite corners of two touching rectangles): which one goes when their constraints tie."""
    r = chk.rule("BEND-TIE", "BendConstraint::satisfy interpreted on a path n - o - p - q - r whose bends p and q lie on the same point (zero-length "
                 "segment between them), for the constraint of either bend and either outcome of validTurn: the bend that is removed is the "
                 "one that is NOT a proper turn between the points on either side of the pair -- whichever of the two tied constraints was "
                 "picked, i.e. independent of the direction in which the edge is listed; a lone bend is removed as before; the removed bend's "
                 "node gets the replacing StraightConstraint; the same when the two bends are 1e-10 apart (moved onto each other, equal up to rounding)", floor=10)
    fn = prog.fn("topology::BendConstraint::satisfy")
    import itertools
    for own_first, p_valid, gap_len in itertools.product((True, False), (True, False), (Fraction(0), Fraction(1, 10 ** 10))):
        # path: n - o - p - q - r; p and q coincide (exactly, or up to rounding: corners that were MOVED onto each other by the solver
        # agree only to about 1e-13).  The satisfied constraint belongs to p (own_first) or to q.
        pts = {k: default_obj(prog, "topology::EdgePoint", {"_tag": k, "rectIntersect": 0, "node": default_obj(prog, "topology::Node", {"id": i_})})
               for i_, k in enumerate("nopqr")}
        n_, o, p_, q, rr = (pts[k] for k in "nopqr")
        n_.f["rectIntersect"] = rr.f["rectIntersect"] = 4            # CENTRE: the ends of the edge
        def seg(a, b, ln):
            s_ = default_obj(prog, "topology::Segment", {"start": a, "end": b, "_len": Fraction(ln)})
            a.f["outSegment"] = s_
            b.f["inSegment"] = s_
            return s_
        seg(n_, o, 5), seg(o, p_, 5), seg(p_, q, gap_len), seg(q, rr, 5)
        own = p_ if own_first else q
        twin = q if own_first else p_
        bc = default_obj(prog, "topology::BendConstraint", {"bendPoint": own, "scanDim": 0})
        pruned, straight = [], []
        it = Interp(prog, Oracle([]), hooks=dict(_LOG_HOOKS))
        it.vhooks["topology::Segment::length"] = lambda it_, recv, args: recv.f["_len"]
        it.vhooks["topology::EdgePoint::pos"] = lambda it_, recv, args: Fraction(0)
        it.vhooks["topology::BendConstraint::getEdgeID"] = lambda it_, recv, args: 0
        it.vhooks["topology::TopologyConstraint::getEdgeID"] = lambda it_, recv, args: 0
        merged = default_obj(prog, "topology::Segment", {"_len": Fraction(5)})
        it.vhooks["topology::EdgePoint::prune"] = lambda it_, recv, args, pr=pruned: (pr.append(recv), merged)[1]
        it.vhooks["topology::Segment::createStraightConstraint"] = lambda it_, recv, args, st=straight: (st.append(args[1]), True)[1]

        def vturn(it_, recv, args, p_valid=p_valid, p_=p_, q=q):
            u, v, w = args
            if v is p_:
                return p_valid
            if v is q:
                return not p_valid
            return True
        it.vhooks["topology::validTurn"] = vturn
        inst = "constraint of the %s bend, %s is the proper turn%s" % ("first" if own_first else "second", "the first" if p_valid else "the second",
                                                                         "" if gap_len == 0 else ", bends 1e-10 apart")
        r.count()
        try:
            it.call(fn, bc, None, None, arg_values=[])
        except Unsupported as e:
            raise AnalysisBroken("BendConstraint::satisfy outside the interpreter subset (%s): %s" % (inst, e))
        except AssertFail as e:
            r.bad(inst, fn.where(), "assertion fails: %s" % e)
            continue
        want = q if p_valid else p_
        bad = None
        if len(pruned) != 1:
            bad = "%d bends are pruned" % len(pruned)
        elif pruned[0] is not want:
            bad = "the bend that IS the proper turn is removed; the one that is not stays and the path cuts the corner"
        elif len(straight) != 1 or straight[0] is not want.f["node"]:
            bad = "the replacing StraightConstraint is not created for the removed bend's node"
        (r.bad if bad else r.ok)(inst, fn.where(), bad or "")
    # a lone bend (no coincident neighbour) is removed
    for k_ in (0, 1):
        pts = {k: default_obj(prog, "topology::EdgePoint", {"_tag": k, "rectIntersect": 0, "node": default_obj(prog, "topology::Node", {"id": i_})})
               for i_, k in enumerate("opq")}
        o, p_, q = (pts[k] for k in "opq")
        o.f["rectIntersect"] = q.f["rectIntersect"] = 4
        for a, b in ((o, p_), (p_, q)):
            s_ = default_obj(prog, "topology::Segment", {"start": a, "end": b, "_len": Fraction(5)})
            a.f["outSegment"] = s_
            b.f["inSegment"] = s_
        bc = default_obj(prog, "topology::BendConstraint", {"bendPoint": p_, "scanDim": k_})
        pruned = []
        it = Interp(prog, Oracle([]), hooks=dict(_LOG_HOOKS))
        it.vhooks["topology::Segment::length"] = lambda it_, recv, args: recv.f["_len"]
        it.vhooks["topology::EdgePoint::pos"] = lambda it_, recv, args: Fraction(0)
        it.vhooks["topology::BendConstraint::getEdgeID"] = lambda it_, recv, args: 0
        it.vhooks["topology::TopologyConstraint::getEdgeID"] = lambda it_, recv, args: 0
        it.vhooks["topology::EdgePoint::prune"] = lambda it_, recv, args, pr=pruned: (pr.append(recv), default_obj(prog, "topology::Segment", {}))[1]
        it.vhooks["topology::Segment::createStraightConstraint"] = lambda it_, recv, args: True
        it.vhooks["topology::validTurn"] = lambda it_, recv, args: True
        r.count()
        try:
            it.call(fn, bc, None, None, arg_values=[])
        except Unsupported as e:
            raise AnalysisBroken("BendConstraint::satisfy outside the interpreter subset (lone bend): %s" % e)
        (r.ok if len(pruned) == 1 and pruned[0] is p_ else r.bad)("lone bend, scan dimension %d" % k_, fn.where(), "" if len(pruned) == 1 and pruned[0] is p_
                                                                  else "the bend whose constraint was satisfied is not the one removed")


def rule_hidden_segments(chk, prog):
    """Which (node, open segment) pairs the scan may leave without a StraightConstraint."""
    from ..rules.guards import path_condition, atoms, entails
    r = chk.rule("HIDDEN-SEGMENT-SKIP", "NodeEvent::createStraightConstraints skips an open segment (creates no StraightConstraint between it and the "
                 "node) only when the segment is attached to the node itself, or when it lies beyond the centre of the node's left / right "
                 "scan-line neighbour, inside that neighbour's extent, AND is not attached to that neighbour -- a segment that ends in the "
                 "neighbour's centre is always `behind` it on the scan lines through the neighbour, but is free to rotate out of it and "
                 "through the node", floor=2)
    fn = prog.fn("topology::NodeEvent::createStraightConstraints")
    conts = [n for n in fn.nodes() if n.get("k") == "ContinueStmt"]
    if len(conts) < 2:
        raise AnalysisBroken("createStraightConstraints: the two skip sites were not found")
    import itertools
    from ..rules.guards import evalf
    for c in conts:
        r.count()
        pc = path_condition(fn, c, inline=False)
        ats = sorted(atoms(pc))
        own_ats = [a for a in ats if re.search(r"\.node\.id == \w+\.id\)$", a) or "rectIntersect ==" in a]
        conn = {}           # neighbour variable -> atom `seg.connectedToNode(neighbour)`
        rng = {}            # neighbour variable -> atoms that place the scan position inside the neighbour's extent
        for a in ats:
            m_ = re.match(r"^\w+\.connectedToNode\((\w+)\)$", a)
            if m_:
                conn[m_.group(1)] = a
            m_ = re.search(r"(\w+)\.rect\.get(Min|Max)D\(", a)
            if m_:
                rng.setdefault(m_.group(1), []).append(a)
        bad = None
        if len(ats) > 14:
            raise AnalysisBroken("createStraightConstraints: skip condition too large to enumerate")
        for vals in itertools.product((False, True), repeat=len(ats)):
            env = dict(zip(ats, vals))
            if not evalf(pc, env):
                continue
            if own_ats and all(env[a] for a in own_ats if "node.id" in a) and any(env[a] for a in own_ats if "node.id" in a):
                pass
            if any(env[a] for a in own_ats):
                continue                      # (the `attached to the node itself` skip; its two conjuncts are checked by the first site)
            hiding = [n_ for n_, ra in rng.items() if all(env[a] for a in ra)]
            if not hiding:
                bad = "a segment is skipped although the scan position is inside no neighbour's extent"
                break
            if not any(n_ in conn and not env[conn[n_]] for n_ in hiding):
                bad = ("a segment is skipped as hidden behind %s without the condition that it is NOT attached to that neighbour "
                       "(connectedToNode)" % " / ".join(hiding))
                break
        (r.ok if bad is None else r.bad)("skip at line %s" % c.get("l"), fn.loc(c), bad or "")


def run(chk):
    prog = chk.load()
    chk.guard(rule_alpha, chk, prog)
    chk.guard(rule_solve, chk, prog)
    chk.guard(rule_corner_tables, chk, prog)
    chk.guard(rule_prune, chk, prog)
    chk.guard(rule_prune_degenerate, chk, prog)
    chk.guard(rule_node_identity, chk, prog)
    chk.guard(rule_resize_copyback, chk, prog)
    chk.guard(rule_resize_sliver, chk, prog)
    chk.guard(rule_bend_tie, chk, prog)
    chk.guard(rule_hidden_segments, chk, prog)
    from ..rules import mirrors
    r_m = chk.rule("MIRROR", "the x / y and low / high twins of libtopology's edge points, obstacles and segments stay mirror images (tables/mirrors.json)", floor=1)
    mirrors.check(r_m, prog, ["topology::EdgePoint::", "topology::LayoutObstacle::", "topology::LayoutEdgeSegment::"])
