"""C14 -- libdialect HOLA: the clauses about node sizes and routing mode that are visible in the code's shape.

Decides:
  PADDING-ZERO-SUM  along every path of dialect::doHOLA (branches explored, per-tree loops taken once per node class) the padding
                    applied to the caller's nodes sums to zero for both node classes -- core nodes (shared with the working copy)
                    and non-root tree nodes -- as a polynomial identity in the padding parameters; width and height padding agree
  PADDING-PRIMITIVES Node::addPadding adds (dw, dh) to (w, h); Graph::padAllNodes applies it to every node; Tree::padCorrespNonRootNodes
                    excludes exactly the root
  ORTHOGONAL-ROUTING every RoutingAdapter constructed in the HOLA pipeline is given Avoid::OrthogonalRouting
  DIMENSION-WRITERS  Node::m_w / m_h are stored only by the constructors, setDims, addPadding, setBoundingBox, copyOtherGhostProperties
Not decided: overlap-freedom, routes avoiding nodes, satisfaction of the returned constraints (numerical pipeline results).
"""
import copy
from fractions import Fraction

import re
from ..astq import strip, strip_casts, calls, call_args, call_object, writes, written_field, norm, literal_value, src, single_assignment_locals
from ..cfg import CFG
from ..facts import AnalysisBroken, walk, children
from ..microai.interp import Interp, Obj, Vec, Box, Oracle, enumerate_paths, AssertFail, Thrown, Unsupported
from ..microai.poly import Poly, to_poly


class Abort(Exception):
    pass


def rule_padding(chk, prog):
    r = chk.rule("PADDING-ZERO-SUM", "abstract execution of dialect::doHOLA over the domain (sum of padding applied to core nodes, sum applied "
                 "to non-root tree nodes), both polynomials in the symbolic padding parameters: every path from entry to a return ends with "
                 "(0, 0); each padding call pads width and height by the same amount", floor=1)
    fn = prog.fn("dialect::doHOLA", sig="HolaOpts")
    results = []
    notes = {"calls": 0, "paths": 0}
    oracle = Oracle([])

    def classify(recv):
        t = recv.replace(" ", "")
        if t == "G":
            return ("C", "T")
        if t in ("core.*", "core", "Gcopy.*"):
            return ("C",)
        if "underlyingGraph()" in t:
            return ()            # the tree's private copy of its nodes
        if t in ("P.*", "P"):
            return None
        return None

    def has_interest(n):
        for x in walk(n):
            if x.get("k") == "ReturnStmt":
                return True
            if x.get("cname", "") in ("dialect::Graph::padAllNodes", "dialect::Tree::padCorrespNonRootNodes"):
                return True
        return False

    def evald(it, n, env):
        try:
            return it.ev(n, env)
        except (Unsupported, AssertFail, Thrown, KeyError, TypeError, AttributeError):
            return None

    def walk_stmts(stmts, state, env, it, fresh):
        """state: dict C,T -> Poly ; returns list of (state, env) continuing normally"""
        conts = [(state, env)]
        for st in stmts:
            nxt = []
            for (s_, e_) in conts:
                nxt += step(st, s_, e_, it, fresh)
            conts = nxt
        return conts

    def step(st, state, env, it, fresh):
        k = st.get("k")
        if k == "CompoundStmt":
            return walk_stmts(st.get("ch", []), state, env, it, fresh)
        if k == "ReturnStmt":
            results.append((dict(state), "return at line %s" % st.get("l")))
            return []
        if k == "DeclStmt":
            env = dict(env)
            for d in st.get("decls", []):
                if d.get("t", "").replace("const ", "") in ("double", "float") and d.get("init") is not None:
                    v = evald(it, d["init"], env)
                    if v is None or not isinstance(v, (int, Fraction, Poly)):
                        v = Poly.var("%s" % d["name"])
                    env[d["did"]] = Box(v)
            return [(state, env)]
        if k == "IfStmt":
            if not has_interest(st):
                return [(state, env)]
            out = []
            out += step(st["then"], dict(state), env, it, fresh) if st.get("then") is not None else [(state, env)]
            if st.get("else") is not None:
                out += step(st["else"], dict(state), env, it, fresh)
            else:
                out.append((dict(state), env))
            return out
        if k in ("ForStmt", "WhileStmt", "CXXForRangeStmt", "DoStmt"):
            if not has_interest(st):
                return [(state, env)]
            # one pass over the body: the loops of doHOLA that pad nodes range over the peeled trees, whose non-root node sets
            # are disjoint, so a per-tree padding of "non-root tree nodes" is one application to the class T
            body = st.get("body")
            return step(body, state, env, it, fresh) if body is not None else [(state, env)]
        # expression statements: look for padding calls
        for x in walk(st):
            cn = x.get("cname", "")
            if cn == "dialect::Graph::padAllNodes":
                notes["calls"] += 1
                a = [evald(it, y, env) for y in call_args(x)]
                if a[0] is None or a[1] is None:
                    raise Abort("cannot evaluate padding amounts of %s" % src(x))
                if to_poly(a[0]) != to_poly(a[1]):
                    raise Abort("padAllNodes(%r, %r) at line %s pads width and height differently" % (a[0], a[1], x.get("l")))
                cls = classify(norm(call_object(x)))
                if cls is None:
                    raise Abort("padding applied to an unclassified graph `%s` at line %s" % (norm(call_object(x)), x.get("l")))
                state = dict(state)
                for c in cls:
                    state[c] = state[c] + to_poly(a[0])
            elif cn == "dialect::Tree::padCorrespNonRootNodes":
                notes["calls"] += 1
                args = call_args(x)
                if norm(args[0]) != "G":
                    raise Abort("padCorrespNonRootNodes targets `%s`, not the caller's graph" % norm(args[0]))
                a = [evald(it, y, env) for y in args[1:3]]
                if a[0] is None or to_poly(a[0]) != to_poly(a[1]):
                    raise Abort("padCorrespNonRootNodes pads width and height differently at line %s" % x.get("l"))
                state = dict(state)
                state["T"] = state["T"] + to_poly(a[0])
        return [(state, env)]

    it = Interp(prog, oracle)
    bad = None
    try:
        ends = step(fn.body, {"C": Poly.const(0), "T": Poly.const(0)}, {}, it, [0])
        for (s_, e_) in ends:
            results.append((s_, "end of function"))
    except Abort as e:
        bad = str(e)
    notes["paths"] = len(results)
    if not bad:
        if notes["calls"] < 6:
            raise AnalysisBroken("doHOLA: only %d padding calls seen" % notes["calls"])
        for s_, where in results:
            if s_["C"] != Poly.const(0) or s_["T"] != Poly.const(0):
                bad = "on a path ending at %s the caller's nodes keep padding: core nodes %r, tree nodes %r" % (where, s_["C"], s_["T"])
                break
    r.count(notes["paths"])
    chk.extra["dohola_paths"] = notes["paths"]
    chk.sample({"rule": "PADDING-ZERO-SUM", "paths": notes["paths"], "padding_calls_seen": notes["calls"]})
    (r.bad if bad else r.ok)("dialect::doHOLA", fn.where(), bad or "%d abstract paths" % notes["paths"])


def rule_primitives(chk, prog):
    r = chk.rule("PADDING-PRIMITIVES", "Node::addPadding(dw,dh): (w,h) += (dw,dh) exactly (symbolic); Graph::padAllNodes calls addPadding(dw,dh) "
                 "on every node; Tree::padCorrespNonRootNodes ignores exactly the root id", floor=3)
    fn = prog.fn("dialect::Node::addPadding")
    node = Obj("dialect::Node", {"m_w": Poly.var("w"), "m_h": Poly.var("h"), "m_cx": Poly.var("cx"), "m_cy": Poly.var("cy")})
    it = Interp(prog, Oracle([]))
    nd = copy.deepcopy(node)
    try:
        it.call(fn, nd, None, None, arg_values=[Poly.var("dw"), Poly.var("dh")])
    except Unsupported as e:
        raise AnalysisBroken("Node::addPadding outside the interpreter subset: %s" % e)
    bad = None
    if to_poly(nd.f["m_w"]) != Poly.var("w") + Poly.var("dw") or to_poly(nd.f["m_h"]) != Poly.var("h") + Poly.var("dh"):
        bad = "addPadding gives (w,h) = (%r, %r)" % (nd.f["m_w"], nd.f["m_h"])
    if to_poly(nd.f["m_cx"]) != Poly.var("cx") or to_poly(nd.f["m_cy"]) != Poly.var("cy"):
        bad = bad or "addPadding moves the node"
    (r.bad if bad else r.ok)("dialect::Node::addPadding", fn.where(), bad or "")
    fn = prog.fn("dialect::Graph::padAllNodes")
    cs = [n for n in calls(fn) if n.get("cname") == "dialect::Node::addPadding"]
    bad = None
    if len(cs) != 1 or [norm(x) for x in call_args(cs[0])] != ["dw", "dh"]:
        bad = "does not forward (dw, dh) to Node::addPadding"
    else:
        lp = [a for a in fn.ancestors(cs[0]) if a.get("k") == "CXXForRangeStmt"]
        if not lp or norm(lp[0]["range"]) != "m_nodes":
            bad = "does not range over all nodes"
        else:
            from ..rules.guards import path_condition, atoms
            if atoms(path_condition(fn, cs[0], inline=False)):
                bad = "padding is conditional: %s" % sorted(atoms(path_condition(fn, cs[0], inline=False)))
            if any(x.get("k") in ("ContinueStmt", "BreakStmt", "ReturnStmt") for x in walk(lp[0]["body"])):
                bad = bad or "some nodes can be skipped"
    (r.bad if bad else r.ok)("dialect::Graph::padAllNodes", fn.where(), bad or "")
    fn = prog.fn("dialect::Tree::padCorrespNonRootNodes")
    cs = [n for n in calls(fn) if n.get("cname") == "dialect::Graph::padCorrespNodes"]
    bad = None
    if len(cs) != 1:
        bad = "does not delegate to Graph::padCorrespNodes"
    else:
        a = [norm(x) for x in call_args(cs[0])]
        if a[:3] != ["H", "dw", "dh"]:
            bad = "forwards (%s)" % ", ".join(a[:3])
        ign = [n for n in fn.nodes() if n.get("k") == "VarDecl" and n.get("name") == "rootIgnore"]
        it_ = norm(ign[0].get("init")) if ign else ""
        if not ign or "(m_root->id(), m_root)" not in it_.replace("->m_root", "m_root") or it_.count(", m_root)") != 1 or it_.count("CXXStdInitializerListExpr({") != 1 or "), std::pair" in it_:
            bad = bad or "the ignore set is not exactly {root}"
    (r.bad if bad else r.ok)("dialect::Tree::padCorrespNonRootNodes", fn.where(), bad or "")
    fn = prog.fn("dialect::Graph::padCorrespNodes")
    cs = [n for n in calls(fn) if n.get("cname") == "dialect::Node::addPadding"]
    bad = None
    if len(cs) != 1 or [norm(x) for x in call_args(cs[0])] != ["dw", "dh"]:
        bad = "does not forward (dw, dh) to Node::addPadding"
    r.count(4)
    (r.bad if bad else r.ok)("dialect::Graph::padCorrespNodes", fn.where(), bad or "")


def rule_orthogonal(chk, prog):
    r = chk.rule("ORTHOGONAL-ROUTING", "every dialect::RoutingAdapter constructed in libdialect's HOLA pipeline (hola.cpp, routing.cpp, "
                 "treeplacement / expansion helpers) receives Avoid::OrthogonalRouting", floor=2)
    k = 0
    for f in prog.all_functions():
        if "/libdialect/" not in f.file:
            continue
        for n in f.nodes():
            if n.get("k") in ("CXXConstructExpr", "CXXTemporaryObjectExpr") and n.get("cname") == "dialect::RoutingAdapter" and not n.get("copy"):
                k += 1
                a = [norm(x) for x in n.get("ch", [])]
                a0 = strip_casts(n["ch"][0]) if n.get("ch") else None
                if a0 is not None and a0.get("rk") == "ParmVar":
                    continue        # generic API that forwards the caller's routing type (Graph::route)
                r.count()
                if a and a[0] == "Avoid::OrthogonalRouting":
                    r.ok("%s#%d" % (f.q, k), f.loc(n))
                else:
                    r.bad("%s#%d" % (f.q, k), f.loc(n), "RoutingAdapter constructed with `%s`: routes would not be orthogonal" % (a[0] if a else "?"))
    if k == 0:
        raise AnalysisBroken("no RoutingAdapter construction found in libdialect")


DIM_WRITERS = {"dialect::Node::setDims", "dialect::Node::addPadding", "dialect::Node::setBoundingBox", "dialect::Node::copyOtherGhostProperties",
               "dialect::Node::copyGeometry", "dialect::Node::applyPlaneMap"}


def rule_dim_writers(chk, prog):
    r = chk.rule("DIMENSION-WRITERS", "dialect::Node::m_w / m_h are stored only in Node constructors, setDims, addPadding, setBoundingBox and "
                 "the ghost/copy helpers; callers of setDims / setBoundingBox in the HOLA pipeline act on helper nodes they created "
                 "themselves (reviewed list in the rule)", floor=3)
    seen = set()
    for f in prog.all_functions():
        for lhs, node, op in writes(f):
            fq, elem, mn = written_field(lhs)
            if fq in ("dialect::Node::m_w", "dialect::Node::m_h"):
                inst = "%s" % f.q
                if inst in seen:
                    continue
                seen.add(inst)
                r.count()
                if f.kind == "ctor" or f.q in DIM_WRITERS:
                    r.ok(inst, f.loc(node))
                else:
                    r.bad(inst, f.loc(node), "stores a node's width/height outside the reviewed dimension writers")
    if len(seen) < 3:
        raise AnalysisBroken("dimension writers not found")


def rule_rotation(chk, prog):
    from ..cfg import CFG
    r = chk.rule("ROTATION-CONSISTENT", "doHOLA's final rotation: every quarter turn of the planar layout passes the layout options "
                 "(Graph::rotate90cw/acw(&colaOpts): without them no overlap-removing relayout follows, and a quarter turn moves centres "
                 "without swapping widths and heights); every rotation is followed on all paths by the SepMatrix transform of the same "
                 "kind and by the matching quarterTurnsCW value (1 / 3 / 2) that rotates the trees' growth directions", floor=3)
    fn = prog.fn("dialect::doHOLA", sig="HolaOpts")
    g = CFG(fn)
    kinds = {"dialect::Graph::rotate90cw": ("dialect::SepTransform::ROTATE90CW", "1", True),
             "dialect::Graph::rotate90acw": ("dialect::SepTransform::ROTATE90ACW", "3", True),
             "dialect::Graph::rotate180": ("dialect::SepTransform::ROTATE180", "2", False)}
    k = 0
    for c in calls(fn):
        if c.get("cname") not in kinds:
            continue
        k += 1
        tr, turns, needs_opts = kinds[c["cname"]]
        r.count()
        inst = "doHOLA: %s" % c["cname"].split("::")[-1]
        bad = None
        if needs_opts:
            a = call_args(c)
            if not a or a[0].get("k") == "CXXDefaultArgExpr" or literal_value(a[0]) in ("nullptr", "0"):
                bad = "quarter turn without layout options: nodes are rotated about the origin but keep their width/height, and no " \
                      "overlap-removing relayout follows"
        trs = [t["id"] for t in calls(fn) if t.get("cname") == "dialect::SepMatrix::transform" and tr.split("::")[-1] in norm(call_args(t)[0])]
        if not bad and (not trs or g.must_follow(c["id"], trs) is not None):
            bad = "the core's separation constraints are not transformed by %s after the rotation" % tr.split("::")[-1]
        st = [node["id"] for lhs, node, op in writes(fn) if norm(lhs) == "quarterTurnsCW" and literal_value(node["ch"][1]) == turns]
        if not bad and (not st or g.must_follow(c["id"], st) is not None):
            bad = "quarterTurnsCW is not set to %s after the rotation (tree growth directions would not follow)" % turns
        (r.bad if bad else r.ok)(inst, fn.loc(c), bad or "")
    if k < 3:
        raise AnalysisBroken("doHOLA: expected the three rotation calls, found %d" % k)


def rule_tree_flip(chk, prog):
    from ..microai.interp import Interp, Obj, Vec, MapVal, Oracle, Unsupported, AssertFail, default_obj
    from ..microai.poly import Poly, to_poly
    r = chk.rule("TREE-TRANSFORMS", "Tree::flip / Tree::translate / Tree::rotate*, interpreted on a symbolic tree box: flip maps the bounds "
                 "interval [lb, ub] to [-ub, -lb] for every tree (symmetric or not), i.e. bounds always describe the transformed nodes", floor=1)
    fn = prog.fn("dialect::Tree::flip")
    for sym in (False, True):
      for gd in (0, 1):             # a vertical and a horizontal growth direction
        lb, ub = Poly.var("lb"), Poly.var("ub")
        mk = lambda i: default_obj(prog, "dialect::Node", {"m_cx": Poly.var("x%d" % i), "m_cy": Poly.var("y%d" % i), "m_ID": i})
        nodes = MapVal({1: mk(1), 2: mk(2)})
        ranks = Vec([Vec([Poly.var("l0"), Poly.var("u0")]), Vec([Poly.var("l1"), Poly.var("u1")])])
        gdv = {0: "dialect::CardinalDir::NORTH", 1: "dialect::CardinalDir::EAST"}[gd]
        t = default_obj(prog, "dialect::Tree", {"m_lb": lb, "m_ub": ub, "m_isSymmetric": sym, "m_growthDir": None,
                                                "m_nodes": nodes, "m_depth": 2, "m_boundsByRank": ranks})
        t.f["m_growthDir"] = _enum(prog, gdv)
        it = Interp(prog, Oracle([]))
        try:
            it.call(fn, t, None, None, arg_values=[])
        except (Unsupported, AssertFail) as e:
            raise AnalysisBroken("Tree::flip outside the interpreter subset: %s" % e)
        r.count()
        neg = lambda v: to_poly(Poly.var(v)) * -1
        bad = None
        if (to_poly(t.f["m_lb"]), to_poly(t.f["m_ub"])) != (neg("ub"), neg("lb")):
            bad = "bounds after flip are [%s, %s], expected [-ub, -lb]: the tree box no longer covers the flipped nodes when " \
                  "mirror-image nodes have different sizes" % (to_poly(t.f["m_lb"]), to_poly(t.f["m_ub"]))
        for k in (0, 1):
            got = tuple(to_poly(x) for x in t.f["m_boundsByRank"].items[k].items)
            if got != (neg("u%d" % k), neg("l%d" % k)):
                bad = bad or "per-rank bounds of rank %d after flip are %s, expected [-u, -l]" % (k, got)
        for i in (1, 2):
            n_ = nodes.d[i]
            got = (to_poly(n_.f["m_cx"]), to_poly(n_.f["m_cy"]))
            want = (neg("x%d" % i), to_poly(Poly.var("y%d" % i))) if gd == 0 else (to_poly(Poly.var("x%d" % i)), neg("y%d" % i))
            if got != want:
                bad = bad or "node %d is moved to %s, expected %s" % (i, got, want)
        inst = "Tree::flip (symmetric=%s, growth %s)" % (sym, gdv.split("::")[-1])
        (r.bad if bad else r.ok)(inst, fn.where(), bad or "")
        if sym:
            continue
        # translate by a symbolic vector: everything shifts by the component across the growth direction
        ft = prog.fn("dialect::Tree::translate")
        nodes = MapVal({1: mk(1), 2: mk(2)})
        ranks = Vec([Vec([Poly.var("l0"), Poly.var("u0")]), Vec([Poly.var("l1"), Poly.var("u1")])])
        t = default_obj(prog, "dialect::Tree", {"m_lb": lb, "m_ub": ub, "m_isSymmetric": False, "m_growthDir": _enum(prog, gdv),
                                                "m_nodes": nodes, "m_depth": 2, "m_boundsByRank": ranks})
        vec = default_obj(prog, "Avoid::Point", {"x": Poly.var("dx"), "y": Poly.var("dy")})
        it = Interp(prog, Oracle([]))
        try:
            it.call(ft, t, None, None, arg_values=[vec])
        except (Unsupported, AssertFail) as e:
            raise AnalysisBroken("Tree::translate outside the interpreter subset: %s" % e)
        r.count()
        d = to_poly(Poly.var("dx" if gd == 0 else "dy"))
        P_ = lambda v: to_poly(Poly.var(v))
        bad = None
        if (to_poly(t.f["m_lb"]), to_poly(t.f["m_ub"])) != (P_("lb") + d, P_("ub") + d):
            bad = "bounds after translate are [%s, %s], expected [lb + d, ub + d] with d the component across the growth direction" % (
                to_poly(t.f["m_lb"]), to_poly(t.f["m_ub"]))
        for k in (0, 1):
            got = tuple(to_poly(x) for x in t.f["m_boundsByRank"].items[k].items)
            if got != (P_("l%d" % k) + d, P_("u%d" % k) + d):
                bad = bad or "per-rank bounds of rank %d after translate are %s" % (k, got)
        for i in (1, 2):
            got = (to_poly(nodes.d[i].f["m_cx"]), to_poly(nodes.d[i].f["m_cy"]))
            if got != (P_("x%d" % i) + P_("dx"), P_("y%d" % i) + P_("dy")):
                bad = bad or "node %d is moved to %s" % (i, got)
        (r.bad if bad else r.ok)("Tree::translate (growth %s)" % gdv.split("::")[-1], ft.where(), bad or "")


def _enum(prog, q):
    for e in prog.enums.values():
        for c in e.get("enumerators", []):
            if c.get("q") == q:
                return int(c["v"])
    raise AnalysisBroken("enumerator %s not found" % q)


def rule_core_alignments(chk, prog):
    """The constraints handed back to the caller are the CORE's; after planarisation only P is laid out."""
    from ..rules.guards import path_condition, atoms
    r = chk.rule("RETURNED-ALIGNMENTS", "doHOLA copies the core's SepMatrix into the caller's graph (core->setCorrespondingConstraints(G)); from the "
                 "planarisation on only the planar graph P is laid out, and P keeps two core nodes aligned only where their connector was "
                 "routed straight.  So between `planarise()` and the copy-back the core's alignments that P does not keep are freed: a loop "
                 "over the core's edges that calls SepMatrix::free under a test of P's aligned sets; Tree::addConstraints aligns a parent "
                 "with its middle child only when the layout actually put them in line", floor=2)
    fn = prog.fn("dialect::doHOLA", sig="HolaOpts")
    g = CFG(fn)
    plan = [c for c in calls(fn) if c.get("cname") == "dialect::OrthoPlanariser::planarise"]
    back = [c for c in calls(fn) if c.get("cname") == "dialect::Graph::setCorrespondingConstraints"]
    frees = [c for c in calls(fn) if c.get("cname") == "dialect::SepMatrix::free"]
    r.count()
    bad = None
    if not plan or not back:
        raise AnalysisBroken("doHOLA: planarise / setCorrespondingConstraints not found")
    good = []
    for fcall in frees:
        lp = [a for a in fn.ancestors(fcall) if a.get("k") in ("CXXForRangeStmt", "ForStmt")]
        if not lp or "getEdgeLookup" not in norm(lp[0].get("range")) + norm(lp[0].get("init")):
            continue
        ats = " ".join(atoms(path_condition(fn, fcall, inline=True)))
        if ("areHAligned" in ats or "areVAligned" in ats) and ("count" in ats or "find" in ats):
            if g.search([g.after(plan[0]["id"])], targets=[fcall["id"]]) is not None and g.search([g.after(fcall["id"])], targets=[back[-1]["id"]]) is not None:
                good.append(fcall)
    if not good:
        bad = "no step between planarise() and the copy-back frees the core alignments that the planar graph does not keep: they are returned " \
              "to the caller although nothing maintained them"
    (r.bad if bad else r.ok)("doHOLA", fn.loc(good[0]) if good else fn.loc(back[-1]), bad or "")
    ft = prog.fn("dialect::Tree::addConstraints")
    al = [c for c in calls(ft) if c.get("cname") == "dialect::SepMatrix::alignByEquatedCoord"]
    r.count()
    bad = None
    central = []
    for c in al:
        lp = [a for a in ft.ancestors(c) if a.get("k") in ("CXXForRangeStmt", "ForStmt")]
        if lp and any("getChildren" in norm(x.get("init")) for x in walk(lp[0].get("body") or {}) if x.get("k") == "VarDecl"):
            central.append((c, lp[0]))
    if not central:
        raise AnalysisBroken("Tree::addConstraints: the parent / middle-child alignment was not found")
    c, lp = central[0]
    conts = [n for n in walk(lp["body"]) if n.get("k") == "ContinueStmt"]
    guarded = False
    for ct in conts:
        ats = " ".join(atoms(path_condition(ft, ct, inline=True)))
        if "getCentre" in ats:
            guarded = True
    if not guarded:
        bad = "the parent is aligned with its middle child whenever the number of children is odd, whether or not the symmetric layout put that " \
              "child in line with the parent"
    (r.bad if bad else r.ok)("Tree::addConstraints (central child)", ft.loc(c), bad or "")


def rule_hola_returns(chk, prog):
    """What doHOLA must still do on its way out, on every path."""
    r = chk.rule("HOLA-EPILOGUE", "doHOLA dismantles a working copy that SHARES its Node and Edge objects with the caller's graph (peeling severs tree "
                 "edges from the nodes, chains attach bend nodes): (a) every path from the peeling to a return passes restoreIncidence(G), which "
                 "makes each node of G know exactly G's edges at it -- `same nodes and edges as before`; (b) in the branch where the whole graph "
                 "is one tree, whose symmetric layout is the final result, the rank separation handed to Tree::symmetricLayout depends on the "
                 "nodes' dimensions (not on the ideal edge length alone), so that a node long in the growth direction does not overlap its "
                 "parent", floor=2)
    fn = [f for f in prog.fns("dialect::doHOLA") if len(f.params) == 3]
    if len(fn) != 1:
        raise AnalysisBroken("doHOLA(Graph &, const HolaOpts &, Logger *) not found")
    fn = fn[0]
    g = CFG(fn)
    peel = [c for c in calls(fn) if c.get("cname") == "dialect::peel"]
    rest = [c for c in calls(fn) if str(c.get("cname", "")).endswith("restoreIncidence")]
    r.count()
    if not peel:
        raise AnalysisBroken("doHOLA: the call to peel() was not found")
    w = g.must_follow(peel[0]["id"], [c["id"] for c in rest]) if rest else []
    (r.ok if w is None else r.bad)("incidence restored on every return", fn.loc(rest[0]) if rest else fn.loc(peel[0]), "" if w is None else
                                   "after peeling, doHOLA can return without putting the caller's nodes' edge records back in order%s: nodes of the "
                                   "caller's graph have lost tree edges (degree 0) and a second doHOLA on the graph aborts" % (
                                       (" (" + g.describe(w) + ")") if w else ""))
    sl = [c for c in calls(fn) if c.get("cname") == "dialect::Tree::symmetricLayout"]
    r.count()
    if not sl:
        raise AnalysisBroken("doHOLA: the tree-only branch (Tree::symmetricLayout) was not found")
    sal = single_assignment_locals(fn)
    decls = {d["did"]: d for d in fn.nodes() if d.get("k") == "VarDecl"}
    seen, work, dep = set(), [call_args(sl[0])[2]], False
    while work:
        e = work.pop()
        for x in walk(e):
            if x.get("cname") in ("dialect::Node::getDimensions", "dialect::Node::getBoundingBox", "dialect::Node::getHalfDimensions"):
                dep = True
            if x.get("k") == "DeclRefExpr" and x.get("did") in decls and x["did"] not in seen:
                seen.add(x["did"])
                d = decls[x["did"]]
                if d.get("init") is not None:
                    work.append(d["init"])
                for lhs, node, op in writes(fn):
                    l_ = strip(lhs)
                    if l_ is not None and l_.get("k") == "DeclRefExpr" and l_.get("did") == x["did"] and len(node.get("ch", [])) > 1:
                        work.append(node["ch"][1])
    (r.ok if dep else r.bad)("tree-only rank separation", fn.loc(sl[0]), "" if dep else
                             "the rank separation of the tree-only layout (`%s`) does not depend on any node's dimensions: ranks are spaced by a multiple "
                             "of the ideal edge length only, and a node that is long in the growth direction overlaps its parent / children" % norm(call_args(sl[0])[2]))


def rule_chain_directions(chk, prog):
    from ..astq import single_assignment_locals
    r = chk.rule("CHAIN-DIRECTIONS", "libdialect chains (useACAforLinks = false): (a) Chain::computePossibleBendSequences asks the SepMatrix for the direction "
                 "of each anchor edge with the same ordered node pair that its own fall-back (possibleCardinalDirections, in the catch block) "
                 "uses -- left anchor -> first node, last node -> right anchor; the reverse pair yields the opposite direction and bend "
                 "sequences for a chain leaving away from its anchor; (b) Chain::writeConfigSeq: with the locals expanded, the configuration "
                 "written for an edge after TWO consecutive bends (at the node, then on the edge) is the composition of what it writes for "
                 "a bend at the node and for a bend on the edge: (B0(d), B1(B0(d))) -- not (d, ...), which loses the bend at the node", floor=3)
    fn = prog.fn("dialect::Chain::computePossibleBendSequences")
    tries = [t for t in fn.nodes() if t.get("k") == "CXXTryStmt"]
    n = 0
    for t in tries:
        q = [c for c in walk(t.get("try") or {}) if (c.get("cname") or "").endswith("SepMatrix::getCardinalDir")]
        fb = [c for h in (t.get("handlers") or []) for c in walk(h) if (c.get("cname") or "").endswith("possibleCardinalDirections")]
        if len(q) != 1 or len(fb) != 1:
            continue
        n += 1
        r.count()
        a = [norm(x).replace(".*", "").replace(".id()", "") for x in call_args(q[0])]
        b = [norm(x).replace(".*", "") for x in call_args(fb[0])]
        (r.ok if a == b else r.bad)("anchor edge %s - %s" % tuple(b), fn.loc(q[0]), "" if a == b else
                                    "the aligned direction is looked up for (%s, %s), the fall-back considers (%s, %s)" % (a[0], a[1], b[0], b[1]))
    if n != 2:
        raise AnalysisBroken("computePossibleBendSequences: the two try / catch direction look-ups were not found")
    fn = prog.fn("dialect::Chain::writeConfigSeq")
    sal = single_assignment_locals(fn)
    pairs = []
    for c in calls(fn):
        if (c.get("cname") or "").endswith("push_back") and call_object(c) is not None:
            m = re.match(r"^std::pair<[^()]*CardinalDir,[^()]*CardinalDir>\((.*)\)$", norm(call_args(c)[0], sal))
            if not m:
                continue
            body = m.group(1)
            depth, cut = 0, None
            for i_, ch in enumerate(body):
                depth += ch in "([" 
                depth -= ch in ")]"
                if ch == "," and depth == 0:
                    cut = i_
                    break
            if cut is None:
                continue
            pairs.append((body[:cut].strip(), body[cut + 1:].strip(), c))
    plain = [p_ for p_ in pairs if p_[0] == p_[1] and re.match(r"^\w+$", p_[0])]
    if not plain:
        raise AnalysisBroken("writeConfigSeq: the `carry on in the current direction` configuration was not found")
    D = plain[0][0]
    node = [p_ for p_ in pairs if p_[0] == p_[1] and p_[0] != D]
    bent = sorted([p_ for p_ in pairs if p_[0] != p_[1]], key=lambda p_: (p_[0] != D, len(p_[1])))
    edge = [p_ for p_ in bent[:1] if p_[0] == D]          # the single bend on the edge: (d, B0(d)) -- the shortest of the bent configurations
    double = bent[1:] if edge else bent
    if len(edge) == 1 and len(double) == 0 and len({p_[0] for p_ in node}) == 1 and len(node) >= 1:
        r.count()
        r.bad("two consecutive bends", fn.loc(node[-1][2]), "no configuration is written that bends twice (node bend, then edge bend with a further direction): "
              "the second of two consecutive bends is lost")
        return
    if len(edge) < 1 or len(node) != 1 or len(double) != 1:
        raise AnalysisBroken("writeConfigSeq: the single-bend / double-bend configurations were not recognised (%d edge, %d node, %d double)" % (len(edge), len(node), len(double)))
    r.count()
    want_a = node[0][0]
    want_b = re.sub(r"\b%s\b" % re.escape(D), lambda m_: want_a, edge[0][1].replace("[0]", "[1]"))
    got_a, got_b = double[0][0], double[0][1]
    ok = (got_a, got_b) == (want_a, want_b)
    (r.ok if ok else r.bad)("two consecutive bends", fn.loc(double[0][2]), "" if ok else
                            "written (%s, %s); the composition of the node bend and the edge bend is (%s, %s)" % (got_a, got_b, want_a, want_b))


def run(chk):
    prog = chk.load()
    chk.guard(rule_hola_returns, chk, prog)
    from .c19 import rule_sibling_trees, rule_leaf_bounds
    chk.guard(rule_sibling_trees, chk, prog)       # tree nodes on top of each other are node overlaps of the HOLA result too
    chk.guard(rule_leaf_bounds, chk, prog)
    chk.guard(rule_padding, chk, prog)
    chk.guard(rule_primitives, chk, prog)
    chk.guard(rule_orthogonal, chk, prog)
    chk.guard(rule_dim_writers, chk, prog)
    chk.guard(rule_rotation, chk, prog)
    chk.guard(rule_tree_flip, chk, prog)
    chk.guard(rule_merge_join, chk, prog)
    chk.guard(rule_core_alignments, chk, prog)
    chk.guard(rule_chain_directions, chk, prog)
    from ..rules import mirrors
    r_m = chk.rule("MIRROR", "the x / y twins of dialect::Node (coordinate write-back from the solver rectangle) stay mirror images (tables/mirrors.json)", floor=1)
    mirrors.check(r_m, prog, ["dialect::Node::"])


_KEYSETS = [([1, 3, 5, 7], [2, 3, 4, 7, 9]), ([2, 3, 4, 7, 9], [1, 3, 5, 7]), ([1, 2, 3], [1, 2, 3]), ([5, 6, 7, 8], [1, 2, 6]), ([1, 2, 6], [5, 6, 7, 8]),
            ([4, 9, 12], [1, 2, 3, 12, 20, 21]), ([1, 2, 3], []), ([], [1, 2]), ([3, 10, 11, 12], [1, 2, 3])]


def rule_merge_join(chk, prog):
    """The linear-time merges over two id-ordered lookups (libdialect's idiom for `for every id in both`)."""
    from ..microai.interp import MapVal, default_obj
    r = chk.rule("MERGE-JOIN", "the tandem iterations over two id-ordered lookups, interpreted on 9 pairs of key sets (disjoint tails on either side, "
                 "gaps, equal sets, empty sets): Graph::setPosesInCorrespNodes copies the centre to the other graph's node for EXACTLY the ids "
                 "present in both; Graph::padCorrespNodes pads exactly those; Tree::addNetwork adds to the graph exactly the tree nodes whose id "
                 "the graph lacks; RoutingAdapter::addEdges gives every edge a connector and the special directions to exactly the listed ids", floor=5)

    def node(i, tag):
        return Obj("dialect::Node", {"_id": i, "_tag": tag})

    def graph(ids, tag):
        g = default_obj(prog, "dialect::Graph", {})
        g.f["m_nodes"] = MapVal({i: node(i, tag) for i in ids})
        g.f["_tag"] = tag
        return g

    def interp():
        it = Interp(prog, Oracle([]))
        it.vhooks["dialect::Graph::getNodeLookup"] = lambda it_, recv, args: MapVal(dict(recv.f["m_nodes"].d))
        return it

    def guarded(fn, thunk, what):
        try:
            return thunk()
        except Unsupported as e:
            raise AnalysisBroken("%s outside the interpreter subset: %s" % (fn.q, e))

    # 1. setPosesInCorrespNodes
    fn = prog.fn("dialect::Graph::setPosesInCorrespNodes")
    bad, n = None, 0
    for a, b in _KEYSETS:
        G, H = graph(a, "G"), graph(b, "H")
        rec = []
        it = interp()
        it.vhooks["dialect::Node::getCentre"] = lambda it_, recv, args: Obj("Avoid::Point", {"x": Fraction(100 + recv.f["_id"]), "y": Fraction(recv.f["_id"])})
        it.vhooks["dialect::Node::setCentre"] = lambda it_, recv, args, rec=rec: rec.append((recv.f["_tag"], recv.f["_id"], args[0], args[1]))
        try:
            guarded(fn, lambda: it.call(fn, G, None, None, arg_values=[H]), "")
        except AssertFail as e:
            bad = bad or "ids %s vs %s: %s" % (a, b, e)
            continue
        n += 1
        want = sorted(("H", i, Fraction(100 + i), Fraction(i)) for i in set(a) & set(b))
        if sorted(rec) != want:
            bad = bad or "this graph has ids %s, the other %s: positions are copied to %s, expected exactly the common ids %s" % (
                a, b, sorted(x[1] for x in rec), sorted(set(a) & set(b)))
    r.count()
    (r.bad if bad else r.ok)("Graph::setPosesInCorrespNodes", fn.where(), bad or "%d key-set pairs" % n)
    tot = n

    # 2. padCorrespNodes
    fn = prog.fn("dialect::Graph::padCorrespNodes")
    bad, n = None, 0
    for a, b in _KEYSETS:
        ign = a[1:2]
        G, H = graph(a, "G"), graph(b, "H")
        rec = []
        it = interp()
        it.vhooks["dialect::Graph::getNodeLookupWithIgnore"] = lambda it_, recv, args, ign=ign: MapVal({k: v for k, v in recv.f["m_nodes"].d.items() if k not in ign})
        it.vhooks["dialect::Node::addPadding"] = lambda it_, recv, args, rec=rec: rec.append((recv.f["_tag"], recv.f["_id"], args[0], args[1]))
        try:
            guarded(fn, lambda: it.call(fn, G, None, None, arg_values=[H, Fraction(3), Fraction(4), MapVal({})]), "")
        except AssertFail as e:
            bad = bad or "ids %s vs %s: %s" % (a, b, e)
            continue
        n += 1
        common = sorted((set(a) - set(ign)) & set(b))
        if sorted(rec) != [("H", i, Fraction(3), Fraction(4)) for i in common]:
            bad = bad or "this graph has ids %s (ignoring %s), the other %s: padding goes to %s, expected exactly %s" % (a, ign, b, sorted(x[1] for x in rec), common)
    r.count()
    (r.bad if bad else r.ok)("Graph::padCorrespNodes", fn.where(), bad or "%d key-set pairs" % n)
    tot += n

    # 3. Tree::addNetwork
    fn = prog.fn("dialect::Tree::addNetwork")
    bad, n = None, 0
    unrecorded_inner, unrecorded_tail = None, None
    for a, b in _KEYSETS:
        T = default_obj(prog, "dialect::Tree", {})
        T.f["m_nodes"] = MapVal({i: node(i, "T") for i in a})
        sub = graph([], "sub")
        sub.f["m_edges"] = MapVal({})
        T.f["m_graph"] = sub
        G = graph(b, "G")
        added = []
        # doHOLA hands ONE pair of lookups to the addNetwork calls of all trees and afterwards exempts every edge in it from solidification:
        # entries that earlier trees put there must survive
        prev_n, prev_e = node(9001, "earlier tree"), Obj("dialect::Edge", {"_id": 9002})
        tn, te = MapVal({9001: prev_n}), MapVal({9002: prev_e})
        it = interp()
        it.vhooks["dialect::Graph::getEdgeLookup"] = lambda it_, recv, args: MapVal({})
        it.vhooks["dialect::Graph::addNode"] = lambda it_, recv, args, added=added: added.append(args[0].f["_id"])
        try:
            guarded(fn, lambda: it.call(fn, T, None, None, arg_values=[G, tn, te]), "")
        except AssertFail as e:
            bad = bad or "ids %s vs %s: %s" % (a, b, e)
            continue
        n += 1
        want = sorted(set(a) - set(b))
        if sorted(added) != want:
            bad = bad or "tree ids %s, graph ids %s: nodes %s are added to the graph, expected exactly the tree's ids the graph lacks, %s" % (a, b, sorted(added), want)
        if tn.d.get(9001) is not prev_n or te.d.get(9002) is not prev_e:
            bad = bad or ("tree ids %s, graph ids %s: the node / edge an earlier tree recorded in the shared treeNodes / treeEdges lookups is gone after "
                          "addNetwork: only the last tree's edges stay exempt from solidification in doHOLA" % (a, b))
        unrec = sorted(set(added) - set(tn.d))
        if unrec:
            # (the caller puts the recorded nodes -- and only those -- into the tree's cluster)
            if b and min(unrec) < max(b):
                unrecorded_inner = unrecorded_inner or "tree ids %s, graph ids %s: added nodes %s are not recorded in treeNodes" % (a, b, unrec)
            else:
                unrecorded_tail = unrecorded_tail or (a, b, unrec)
    r.count()
    (r.bad if bad else r.ok)("Tree::addNetwork", fn.where(), bad or "%d key-set pairs" % n)
    tot += n
    # every added node must end up in the tree's cluster (treeNodes).  Today the loop that runs once the graph's ids are exhausted adds
    # without recording; that is harmless exactly as long as insertTreeIntoGraph calls addNetwork while the tree's box node (allocated
    # later than every tree node, hence with a larger id) is still in the graph, which keeps that loop unreachable.
    r.count()
    fi = prog.fn("dialect::TreePlacement::insertTreeIntoGraph")
    if unrecorded_inner:
        r.bad("tree nodes recorded for the cluster", fn.where(), unrecorded_inner)
    elif unrecorded_tail is None:
        r.ok("tree nodes recorded for the cluster", fn.where(), "every added node is recorded")
    else:
        g = CFG(fi)
        net = [c for c in calls(fi) if c.get("cname") == "dialect::Tree::addNetwork"]
        sever = [c for c in calls(fi) if c.get("cname") == "dialect::Graph::severAndRemoveNode"]
        if len(net) != 1:
            raise AnalysisBroken("insertTreeIntoGraph: expected one call of Tree::addNetwork")
        w = None
        for sv in sever:
            if sv["id"] in g.pos and g.search([g.after(sv["id"])], targets=[net[0]["id"]]) is not None:
                w = sv
        a_, b_, u_ = unrecorded_tail
        if w is not None:
            r.bad("tree nodes recorded for the cluster", fi.loc(w), "the tree's box node is removed from the graph before Tree::addNetwork runs; addNetwork's "
                  "loop for tree ids beyond the graph's last id adds nodes without recording them in treeNodes (e.g. tree ids %s, graph ids %s: %s), so "
                  "those nodes are left out of the tree's cluster" % (a_, b_, u_))
        else:
            r.ok("tree nodes recorded for the cluster", fi.loc(net[0]), "unrecorded additions only beyond the graph's last id; the box node is still in the "
                 "graph when addNetwork runs")

    # 4. RoutingAdapter::addEdges
    fn = prog.fn("dialect::RoutingAdapter::addEdges")
    bad, n = None, 0
    for a, b in _KEYSETS:
        ra = default_obj(prog, "dialect::RoutingAdapter", {})
        ra.f["edges"] = MapVal({})
        ra.f["edgeIdToConnRef"] = MapVal({})
        edges = MapVal({i: Obj("dialect::Edge", {"_id": i}) for i in a})
        dirs = MapVal({i: Obj("std::pair", {"first": 1, "second": 2}) for i in b})
        rec = []
        it = interp()
        it.ctor_hooks = {"Avoid::ConnRef": lambda it_, o, args, env: None}
        it.vhooks["dialect::Edge::makeLibavoidConnEnds"] = lambda it_, recv, args, rec=rec: (rec.append((recv.f["_id"], 2 if list(args[:2]) == [1, 2] else 0)),
                                                                                              Obj("std::pair", {"first": None, "second": None}))[1]
        it.vhooks["Avoid::ConnRef::setEndpoints"] = lambda it_, recv, args: None
        try:
            guarded(fn, lambda: it.call(fn, ra, None, None, arg_values=[edges, dirs]), "")
        except AssertFail as e:
            bad = bad or "ids %s vs %s: %s" % (a, b, e)
            continue
        n += 1
        got_conn = sorted(ra.f["edgeIdToConnRef"].d)
        got_edges = sorted(ra.f["edges"].d)
        special = sorted(i for i, k in rec if k == 2)
        plain = sorted(i for i, k in rec if k != 2)
        if got_conn != sorted(a) or got_edges != sorted(a):
            bad = bad or "edge ids %s, direction ids %s: connectors exist for %s, recorded edges %s -- every edge must get one" % (a, b, got_conn, got_edges)
        elif special != sorted(set(a) & set(b)) or plain != sorted(set(a) - set(b)):
            bad = bad or "edge ids %s, direction ids %s: special directions go to %s, expected exactly %s" % (a, b, special, sorted(set(a) & set(b)))
    r.count()
    (r.bad if bad else r.ok)("RoutingAdapter::addEdges", fn.where(), bad or "%d key-set pairs" % n)
    tot += n
    r.evaluations = tot
