"""C15 -- memory safety / UB / leaks: the structural clauses.

Decides (each a necessary condition, together far from sufficient):
  INIT          every user constructor must-initialises every scalar member (reviewed table for
                deliberate exceptions, keyed by class::field@constructor)
  OWN-DTOR      every member a class allocates with `new` is deleted by a function reachable from
                its destructor, or ownership is visibly handed over (reviewed table)
  DEL-GUARD     every `delete` of a router-owned object happens under
                m_currently_calling_destructors == true (else the destructor aborts)
  ERASE-ADVANCE no iterator is used after `c.erase(it)` invalidated it
  ASSERT-FALSE  unconditional COLA_ASSERT(false) sites are only in enumerated "cannot happen" arms
"""
import json
import re
import os

from ..astq import (strip, strip_casts, written_field, norm, member_of_this, writes, calls, call_args, call_object,
                    in_macro, src, literal_value)
from ..callgraph import CallGraph
from ..cfg import CFG
from ..facts import AnalysisBroken, VERIF, walk
from ..rules import init as init_rule
from ..rules.guards import path_condition, atoms, entails, show

ROUTER_OWNED = {"Avoid::ConnRef", "Avoid::ShapeRef", "Avoid::JunctionRef", "Avoid::Obstacle", "Avoid::ClusterRef"}


def load_table(name):
    p = os.path.join(VERIF, "tables", name)
    with open(p) as fh:
        return json.load(fh)


def rule_init(chk, prog, prop="C15"):
    r = chk.rule("INIT", "every user constructor must-initialises every scalar (bool/enum/pointer/int/float) member: "
                 "default member initialiser, mem-initialiser, delegation, or assignment on every CFG path of the body "
                 "(member helpers on `this` followed to depth 2); exceptions only via tables/init_reviewed.json", floor=250)
    reviewed = load_table("init_reviewed.json")["entries"]
    examined, devs = init_rule.scan(prog)
    r.count(examined)
    seen_rev = set()
    by_ctor = {}
    for d in devs:
        by_ctor.setdefault((d["cls"], d["ctor"], d["where"]), []).append(d)
    bad_keys = set()
    for d in devs:
        key = "%s::%s@%s" % (d["cls"], d["field"], d["ctor"])
        if key in reviewed:
            seen_rev.add(key)
            r.ok(key, d["where"], "reviewed: " + reviewed[key])
        else:
            bad_keys.add(key)
            r.bad(key, d["where"], "constructor leaves %s member `%s` indeterminate (no mem-initialiser, no default member "
                  "initialiser, not assigned on every path of the body)" % (d["sk"], d["field"]))
    # one confirmed instance per constructor fully initialised
    full = 0
    for f in prog.all_functions():
        if f.kind == "ctor" and f.tmpl != "pattern" and not f.d.get("defaulted"):
            if not any(d["ctor"] == f.key and d["cls"] == f.cls for d in devs):
                full += 1
                r.ok("ctor " + f.key, f.where(), "", nontrivial=bool(prog.records.get(f.cls, {}).get("fields")))
    chk.extra["init_triples_examined"] = examined
    chk.extra["init_constructors_fully_initialising"] = full
    chk.extra["init_reviewed_exceptions_matched"] = len(seen_rev)
    stale = sorted(set(reviewed) - seen_rev)
    chk.extra["init_reviewed_entries_now_initialised"] = stale
    if devs:
        chk.sample({"rule": "INIT", "triple": "%s::%s@%s" % (devs[0]["cls"], devs[0]["field"], devs[0]["ctor"]),
                    "verdict": "reviewed" if ("%s::%s@%s" % (devs[0]["cls"], devs[0]["field"], devs[0]["ctor"])) in reviewed else "deviation"})


def rule_own_dtor(chk, prog, cg):
    r = chk.rule("OWN-DTOR", "a member that its class assigns from `new` is `delete`d in a function reachable from the class's "
                 "destructor, or handed to an owner in the allocating function (tables/own_dtor_reviewed.json)", floor=30)
    reviewed = load_table("own_dtor_reviewed.json")["entries"]
    alloc = {}
    for f in prog.all_functions():
        if not f.cls or f.tmpl == "pattern":
            continue
        for i in f.d.get("inits", []):
            e = strip_casts(i.get("expr"))
            if e is not None and e.get("k") == "CXXNewExpr" and i.get("mq"):
                alloc.setdefault((f.cls, i["mq"]), []).append(f)
        for lhs, node, op in writes(f):
            if op != "=" or node.get("k") != "BinaryOperator":
                continue
            fq = member_of_this(lhs)
            if fq:
                rhs = strip_casts(node["ch"][1])
                if rhs is not None and rhs.get("k") == "CXXNewExpr":
                    alloc.setdefault((f.cls, fq), []).append(f)
    deleters = {}
    for f in prog.all_functions():
        for n in f.nodes():
            if n.get("k") == "CXXDeleteExpr":
                t = strip_casts(n["ch"][0])
                if t is not None and t.get("k") == "MemberExpr" and t.get("rk") == "Field":
                    deleters.setdefault(t["ref"], set()).add(f.key)
    for (cls, fq), fs in sorted(alloc.items()):
        name = fq
        where = fs[0].where()
        dtors = [f for f in prog.all_functions() if f.cls == cls and f.kind == "dtor"]
        # the field may be declared in a base class: use the destructor of the declaring class too
        decl_cls = fq.rsplit("::", 1)[0]
        dtors += [f for f in prog.all_functions() if f.cls == decl_cls and f.kind == "dtor" and decl_cls != cls]
        reach = set()
        for d in dtors:
            reach |= cg.reachable([d.key])
        dels = deleters.get(fq, set())
        if dels & reach:
            r.ok(name, where, "deleted in %s" % sorted(dels & reach)[0])
        elif name in reviewed:
            r.ok(name, where, "reviewed: " + reviewed[name])
        else:
            r.bad(name, where, "member is assigned from `new` in %s but no `delete` of it is reachable from the destructor of %s"
                  % (fs[0].q, cls))


def rule_del_guard(chk, prog):
    r = chk.rule("DEL-GUARD", "every `delete` of a router-owned libavoid object (ConnRef/ShapeRef/JunctionRef/Obstacle/ClusterRef) "
                 "is dominated by a store m_currently_calling_destructors = true with no later store of false", floor=4)
    flag = "Avoid::Router::m_currently_calling_destructors"
    for f in prog.all_functions():
        dels = [n for n in f.nodes() if n.get("k") == "CXXDeleteExpr" and n.get("dt", "").rstrip(" *") in ROUTER_OWNED]
        if not dels:
            continue
        g = CFG(f)
        t_stores, f_stores = [], []
        for lhs, node, op in writes(f):
            if op != "=":
                continue
            l = strip(lhs)
            if l is not None and l.get("k") == "MemberExpr" and l.get("ref") == flag:
                v = literal_value(node["ch"][1])
                (t_stores if v == "true" else f_stores).append(node["id"])
        for dn in dels:
            name = "%s: delete %s" % (f.q, src(dn["ch"][0]))
            r.count()
            w = g.search("entry", blocked=t_stores, targets=[dn["id"]])
            if w is not None:
                r.bad(name, f.loc(dn), "path %s reaches the delete without setting m_currently_calling_destructors = true "
                      "(the destructor aborts)" % g.describe(w))
                continue
            bad = None
            for fs in f_stores:
                w = g.search([g.after(fs)], blocked=t_stores, targets=[dn["id"]])
                if w is not None:
                    bad = w
                    break
            if bad is not None:
                r.bad(name, f.loc(dn), "the flag is reset to false before the delete on path %s" % g.describe(bad))
            else:
                r.ok(name, f.loc(dn))


def rule_erase_advance(chk, prog):
    r = chk.rule("ERASE-ADVANCE", "after `c.erase(it)` (result discarded) on a node-based or vector container no path uses `it` "
                 "again before it is reassigned", floor=20)
    for f in prog.all_functions():
        if f.tmpl == "pattern":
            continue
        g = None
        for n in f.nodes():
            if n.get("k") != "CXXMemberCallExpr" or "::erase(" not in n.get("callee", ""):
                continue
            if not n["callee"].startswith("std::"):
                continue
            args = call_args(n)
            if len(args) != 1:
                continue
            a = strip_casts(args[0])
            # look through the iterator -> const_iterator conversion constructor
            while a is not None and a.get("k") in ("CXXConstructExpr",) and len(a.get("ch", [])) == 1:
                a = strip_casts(a["ch"][0])
            if a is None or a.get("k") != "DeclRefExpr" or a.get("rk") not in ("Var", "ParmVar"):
                continue
            if "iterator" not in a.get("t", ""):
                continue
            did = a["did"]
            name = "%s: %s" % (f.q, src(n))
            # result used?  parent chain up to the full expression
            par = f.parent(n)
            while par is not None and par.get("k") in ("ImplicitCastExpr", "ParenExpr", "ExprWithCleanups",
                                                       "MaterializeTemporaryExpr", "CXXBindTemporaryExpr", "CXXConstructExpr"):
                par = f.parent(par)
            assigned_back = False
            if par is not None and (par.get("k") in ("BinaryOperator",) and par.get("op") == "=" or
                                    (par.get("k") == "CXXOperatorCallExpr" and par.get("op") == "=")):
                lhs = strip(par["ch"][0] if par["k"] == "BinaryOperator" else par["ch"][1])
                if lhs is not None and lhs.get("did") == did:
                    assigned_back = True
            if assigned_back:
                r.ok(name, f.loc(n), "result assigned back to the iterator")
                continue
            if g is None:
                g = CFG(f)
            # uses of the iterator after the erase: any DeclRefExpr to it that is not the target of an assignment
            assign_ids = set()
            use_ids = set()
            lhs_ids = set()
            for lhs, node, op in writes(f):
                l = strip(lhs)
                if l is not None and l.get("k") == "DeclRefExpr" and l.get("did") == did and op == "=":
                    assign_ids.add(node["id"])
                    lhs_ids.add(l["id"])
            for m in f.nodes():
                if m.get("k") == "DeclRefExpr" and m.get("did") == did and m["id"] not in lhs_ids and m["id"] != a["id"]:
                    use_ids.add(m["id"])
            # the iterator's own declaration re-initialises it (loop-local iterators)
            decl_ids = set()
            for m in f.nodes():
                if m.get("k") == "VarDecl" and m.get("did") == did:
                    decl_ids.add(-did - 1000000)
                if m.get("k") == "DeclStmt" and any(v.get("did") == did for v in m.get("decls", [])):
                    decl_ids.add(m["id"])
            if n["id"] not in g.pos:
                r.ok(name, f.loc(n), "not in CFG (lambda body)", nontrivial=False)
                continue
            # An assignment `it = ...` evaluates its right-hand side first; uses inside the RHS of an
            # assignment to `it` still count as uses, so only block at the assignment node itself.
            w = g.search([g.after(n["id"])], blocked=assign_ids | decl_ids, targets=use_ids)
            if w is not None:
                r.bad(name, f.loc(n), "iterator `%s` is used after being invalidated by erase on path %s" % (a.get("ref"), g.describe(w)))
            else:
                r.ok(name, f.loc(n))


def rule_assert_false(chk, prog):
    """Unconditional assertion failures: COLA_ASSERT(false) reachable from function entry without passing a
    branch is impossible by construction; the rule enumerates the sites and compares with the reviewed set
    (each is the default arm of an exhaustive switch / if-chain).  A new site is a new way to abort."""
    r = chk.rule("ASSERT-FALSE", "every `COLA_ASSERT(false)` site is an enumerated cannot-happen arm (tables/assert_false_sites.json, "
                 "keyed by function and ordinal); the arms over finite tables are proved unreachable by the table rules of C05/C18", floor=10)
    table = load_table("assert_false_sites.json")["entries"]
    seen = {}
    for f in prog.all_functions():
        if f.tmpl == "pattern":
            continue
        k = 0
        for n in f.nodes():
            if n.get("k") == "ConditionalOperator" and n.get("mac") in ("COLA_ASSERT", "assert"):
                c = strip_casts(n["ch"][0])
                if c is not None and literal_value(c) in ("false", "0"):
                    k += 1
                    seen.setdefault(f.q, []).append(f.loc(n))
    for q, locs in sorted(seen.items()):
        allowed = table.get(q, 0)
        if len(locs) <= allowed:
            r.ok(q, locs[0], "%d site(s), %d enumerated" % (len(locs), allowed))
        else:
            r.bad(q, locs[-1], "%d unconditional assertion-failure site(s), only %d enumerated as cannot-happen arms" % (len(locs), allowed))
    r.count(sum(len(v) for v in seen.values()))


def rule_dtor_drain(chk, prog):
    """Destructors that detach everything still attached: `while (!c.empty()) { ... *c.begin() ... }`."""
    from ..astq import norm
    table = load_table("drain_loops.json")["entries"]
    r = chk.rule("DTOR-DRAIN", "every destructor listed in tables/drain_loops.json still drains its member container with a loop "
                 "`while (!c.empty())` (detaching / deleting the first element each time); in no destructor is such a drain reduced to "
                 "`if (!c.empty())` (which would leave all but one element attached to a dead object); a destructor that removes itself "
                 "from the router's queued actions does so on every path", floor=3)
    seen = {}
    for f in prog.all_functions():
        if f.kind != "dtor":
            continue
        for n in f.nodes():
            if n.get("k") in ("WhileStmt", "IfStmt") and n.get("cond") is not None:
                c = norm(n["cond"])
                m = None
                if c.startswith("!") and c.endswith(".empty()"):
                    m = c[1:-len(".empty()")]
                elif c.endswith(".empty() == false)") and c.startswith("("):
                    m = c[1:-len(".empty() == false)")]
                if m is None:
                    continue
                body = n.get("body") if n["k"] == "WhileStmt" else n.get("then")
                uses_begin = body is not None and any((x.get("cname", "").endswith("::begin") or x.get("cname", "").endswith("::front"))
                                                      and norm(call_object(x)) == m for x in walk(body) if x.get("k") == "CXXMemberCallExpr")
                if not uses_begin:
                    continue
                key = "%s: %s" % (f.q, m)
                seen[key] = (n["k"], f, n)
    for key, (kind, f, n) in sorted(seen.items()):
        r.count()
        if kind == "IfStmt":
            r.bad(key, f.loc(n), "the destructor handles only the first element of `%s` (if instead of while): the remaining elements keep "
                  "pointers to the destroyed object" % key.split(": ")[1])
        else:
            r.ok(key, f.loc(n))
    for key, why in sorted(table.items()):
        if key not in seen:
            q = key.split(": ")[0]
            fs = prog.fns(q)
            r.bad(key, fs[0].where() if fs else "?", "the destructor no longer drains `%s` (%s)" % (key.split(": ")[1], why))
    # self-removal from the queued actions must be unconditional
    for f in prog.all_functions():
        if f.kind != "dtor":
            continue
        cs = [n for n in calls(f) if n.get("cname") == "Avoid::Router::removeObjectFromQueuedActions"]
        if not cs:
            continue
        g = CFG(f)
        r.count()
        w = g.exit_reachable_avoiding([c["id"] for c in cs])
        if w is not None:
            r.bad("%s: removeObjectFromQueuedActions" % f.q, f.loc(cs[0]), "the destructor can finish without removing the object from the router's "
                  "queued actions (%s): a queued action keeps a dangling pointer" % g.describe(w))
        else:
            r.ok("%s: removeObjectFromQueuedActions" % f.q, f.loc(cs[0]))


def rule_local_escape(chk, prog):
    r = chk.rule("LOCAL-ADDR-ESCAPE", "no function stores the address of one of its automatic variables (`member = &local`, `global = &local`, "
                 "`member.push_back(&local)`) into an object that outlives the variable, unless the store is undone on every path before "
                 "the variable dies (reviewed: none needed today); functions with address-of-local expressions are counted as examined", floor=10)
    n_fun = 0
    for f in prog.all_functions():
        if f.tmpl == "pattern" or f.body is None or "/tests/" in f.file:
            continue
        locs = {n["did"] for n in f.nodes() if n.get("k") == "VarDecl" and not n.get("static") and not str(n.get("t", "")).rstrip().endswith("&")}
        if not locs:
            continue

        def addr_of_local(e):
            e = strip_casts(e)
            if e is not None and e.get("k") == "UnaryOperator" and e.get("op") == "&":
                t = strip_casts(e["ch"][0])
                if t is not None and t.get("k") == "DeclRefExpr" and t.get("rk") == "Var" and t.get("did") in locs:
                    return t
            return None
        seen_addr = False
        for n in f.nodes():
            if n.get("k") == "UnaryOperator" and n.get("op") == "&" and addr_of_local(n) is not None:
                seen_addr = True
                break
        if not seen_addr:
            continue
        n_fun += 1
        r.count()
        bad = None
        for lhs, node, op in writes(f):
            if op != "=":
                continue
            t = addr_of_local(node["ch"][1])
            if t is None:
                continue
            tgt = strip_casts(lhs)
            fq = written_field(lhs)[0]
            is_global = tgt.get("k") == "DeclRefExpr" and str(tgt.get("ref")) in prog.vars
            through_this = fq and (tgt.get("k") == "MemberExpr" and (not tgt.get("ch") or strip_casts(tgt["ch"][0]).get("k") == "CXXThisExpr"))
            if is_global or through_this:
                bad = (node, "`%s`: the address of the automatic variable `%s` is stored in %s, which outlives it" % (
                    norm(node), t.get("ref"), "a global" if is_global else "a member of *this"))
                break
        if not bad:
            for c in calls(f):
                if c.get("k") == "CXXMemberCallExpr" and c.get("cname", "").startswith("std::") and c["cname"].split("::")[-1] in ("push_back", "insert", "emplace_back"):
                    o = call_object(c)
                    o = strip_casts(o) if o is not None else None
                    if o is not None and o.get("k") == "MemberExpr" and o.get("rk") == "Field" and (not o.get("ch") or strip_casts(o["ch"][0]).get("k") == "CXXThisExpr"):
                        for a in call_args(c):
                            t = addr_of_local(a)
                            if t is not None:
                                bad = (c, "`%s`: the address of the automatic variable `%s` is put into a member container" % (norm(c)[:80], t.get("ref")))
        if bad:
            r.bad(f.q, f.loc(bad[0]), bad[1] + " (dangling pointer after the scope ends)")
        else:
            r.ok(f.q, f.where())
    if n_fun == 0:
        raise AnalysisBroken("LOCAL-ADDR-ESCAPE examined no function")


def rule_buffer_fit(chk, prog):
    from fractions import Fraction
    from ..microai.interp import Interp, Obj, Vec, Oracle, AssertFail, Unsupported, Thrown, default_obj, UNINIT
    r = chk.rule("BUFFER-FIT", "topology::Edge::getRoute interpreted on abstract edges (open paths with 1-3 segments, cycles with 3-4 "
                 "segments): the arrays of the returned Route are written exactly within their bounds -- every one of the n entries, "
                 "nothing beyond (ForEach visits nSegments+1 edge points, on a cycle too)", floor=4)
    fn = prog.fn("topology::Edge::getRoute")
    hooks = {"topology::EdgePoint::posX": lambda it, n, env: it.ev(call_object(n), env).f["_x"],
             "topology::EdgePoint::posY": lambda it, n, env: it.ev(call_object(n), env).f["_y"]}

    def mk(npts, cyc):
        pts = [default_obj(prog, "topology::EdgePoint", {"_x": Fraction(i), "_y": Fraction(10 * i)}) for i in range(npts)]
        seq = pts + [pts[0]] if cyc else pts
        e = default_obj(prog, "topology::Edge", {})
        segs = []
        for i in range(len(seq) - 1):
            sg = default_obj(prog, "topology::Segment", {"start": seq[i], "end": seq[i + 1], "edge": e})
            seq[i].f["outSegment"] = sg
            seq[i + 1].f["inSegment"] = sg
            segs.append(sg)
        e.f["firstSegment"], e.f["lastSegment"], e.f["nSegments"] = segs[0], segs[-1], len(segs)
        return e, len(seq)
    for npts, cyc in ((2, False), (3, False), (4, False), (3, True), (4, True)):
        e, visited = mk(npts, cyc)
        it = Interp(prog, Oracle([]), hooks=hooks)
        r.count()
        inst = "%s edge with %d segments" % ("cyclic" if cyc else "open", e.f["nSegments"])
        try:
            rt = it.call(fn, e, None, None, arg_values=[])
        except AssertFail as ex:
            r.bad(inst, fn.where(), "the route arrays are written out of bounds (%s): a heap overflow in the compiled library" % ex)
            continue
        except (Unsupported, Thrown) as ex:
            raise AnalysisBroken("Edge::getRoute outside the interpreter subset: %s" % ex)
        xs, ys = rt.f["xs"].items, rt.f["ys"].items
        if rt.f["n"] != len(xs) or len(xs) != len(ys):
            r.bad(inst, fn.where(), "Route::n = %s but the arrays hold %d / %d entries" % (rt.f["n"], len(xs), len(ys)))
        elif any(v is UNINIT for v in xs + ys):
            r.bad(inst, fn.where(), "%d of the %d route entries are never written (indeterminate coordinates)" % (sum(v is UNINIT for v in xs), len(xs)))
        elif len(xs) != visited:
            r.bad(inst, fn.where(), "the route has %d points for %d visited edge points" % (len(xs), visited))
        else:
            r.ok(inst, fn.where())


def rule_action_identity(chk, prog):
    from ..microai.interp import Interp, Obj, Oracle, AssertFail, Unsupported, Thrown, default_obj
    r = chk.rule("ACTION-IDENTITY", "Avoid::ActionInfo::operator== interpreted on all pairs of queued actions over 3 action types x 2 objects x "
                 "firstMove in {false, true}: two entries denote the same queued action exactly when type and object agree -- the lookups "
                 "Router::moveShape / deleteShape / addShape build (always with firstMove = false) must find an entry queued with "
                 "firstMove = true, otherwise the obstacle is queued twice and processed (or deleted) twice", floor=1)
    fn = prog.fn("Avoid::ActionInfo::operator==")
    objs = [Obj("Avoid::ShapeRef", {"_n": 0}), Obj("Avoid::ShapeRef", {"_n": 1})]
    cfgs = [(t, o, fm) for t in (0, 1, 2) for o in (0, 1) for fm in (False, True)]
    n = 0
    bad = None
    for a in cfgs:
        for b in cfgs:
            A = default_obj(prog, "Avoid::ActionInfo", {"type": a[0], "objPtr": objs[a[1]], "firstMove": a[2]})
            B = default_obj(prog, "Avoid::ActionInfo", {"type": b[0], "objPtr": objs[b[1]], "firstMove": b[2]})
            it = Interp(prog, Oracle([]))
            try:
                got = it.call(fn, A, None, None, arg_values=[B])
            except (Unsupported, AssertFail, Thrown) as e:
                raise AnalysisBroken("ActionInfo::operator== outside the interpreter subset: %s" % e)
            n += 1
            want = a[0] == b[0] and a[1] == b[1]
            if bool(got) != want:
                bad = bad or "actions (type %d, object %d, firstMove %s) and (type %d, object %d, firstMove %s) compare %s" % (a + b + ("equal" if got else "different",))
    r.count(n)
    (r.bad if bad else r.ok)("ActionInfo::operator==", fn.where(), bad or "%d pairs" % n)


class _DeadFields(dict):
    """Field store of an object whose destructor has already run: any read is a use after free."""
    def _dead(self, *a):
        from ..microai.interp import AssertFail
        raise AssertFail("reads a member of an object that may already be destroyed")
    __getitem__ = get = __contains__ = _dead


def rule_dead_pin_actions(chk, prog):
    """~ShapeConnectionPin queues a ConnectionPinChange action whose objPtr is the dying pin: that pointer is a name, not an object."""
    from ..microai.interp import Interp, Obj, Oracle, AssertFail, Unsupported, Thrown, default_obj
    r = chk.rule("DEAD-PIN-ACTIONS", "a ConnectionPinChange action may outlive its pin (ShapeConnectionPin::~ShapeConnectionPin queues one for the pin "
                 "being destroyed, and the action list is sorted and searched at the next transaction): ActionInfo::operator< and operator== "
                 "interpreted on two such actions whose pins are already destroyed -- they order / compare the ADDRESSES and never read the "
                 "pins; and no function of libavoid casts ActionInfo::objPtr back to a ShapeConnectionPin (as obstacle() / conn() do for "
                 "the other action kinds, whose objects are alive while queued)", floor=3)
    pin_type = 7
    en = [e for e in prog.enums.get("Avoid::ActionType", {}).get("items", [])] if hasattr(prog, "enums") else []
    for e in en:
        if e.get("name") == "ConnectionPinChange":
            pin_type = int(e.get("value", pin_type))
    for opname in ("operator<", "operator=="):
        fn = prog.fn("Avoid::ActionInfo::" + opname)
        dead = [Obj("Avoid::ShapeConnectionPin", _DeadFields()), Obj("Avoid::ShapeConnectionPin", _DeadFields())]
        A = default_obj(prog, "Avoid::ActionInfo", {"type": pin_type, "objPtr": dead[0], "firstMove": False})
        B = default_obj(prog, "Avoid::ActionInfo", {"type": pin_type, "objPtr": dead[1], "firstMove": False})
        it = Interp(prog, Oracle([]))
        r.count()
        bad = None
        try:
            it.call(fn, A, None, None, arg_values=[B])
        except AssertFail as e:
            bad = "%s %s" % (opname, e)
        except Unsupported as e:
            if "relational comparison of pointers" not in str(e):
                raise AnalysisBroken("ActionInfo::%s outside the interpreter subset: %s" % (opname, e))
        (r.bad if bad else r.ok)("ActionInfo::%s on two actions of destroyed pins" % opname, fn.where(), bad or "addresses only")
    casts, control = [], 0
    for f in prog.all_functions():
        if not f.body or "/libavoid/" not in f.file:
            continue
        for n in f.nodes():
            if n.get("k") in ("CXXStaticCastExpr", "CStyleCastExpr", "CXXReinterpretCastExpr", "CXXDynamicCastExpr", "CXXFunctionalCastExpr") and any(
                    x.get("k") == "MemberExpr" and x.get("ref") == "Avoid::ActionInfo::objPtr" for x in walk(n)):
                if "ShapeConnectionPin" in str(n.get("t", "")):
                    casts.append((f, n))
                else:
                    control += 1
    if control < 2:
        raise AnalysisBroken("the casts of ActionInfo::objPtr in obstacle() / conn() were not recognised (%d): matcher out of date" % control)
    r.count()
    (r.ok if not casts else r.bad)("objPtr is never turned back into a pin", casts[0][0].loc(casts[0][1]) if casts else prog.fn("Avoid::ActionInfo::operator<").where(),
                                   "%d casts to the other object kinds (obstacle(), conn()) recognised" % control if not casts else
                                   "%s casts the object of a queued action to ShapeConnectionPin*: for a ConnectionPinChange queued by "
                                   "~ShapeConnectionPin that pin is already destroyed" % casts[0][0].q)


def rule_set_keys_frozen(chk, prog):
    """std::set<ShapeConnectionPin*, CmpConnPinPtr> is ordered by the pins' members: changing them in place corrupts the tree."""
    r = chk.rule("SET-KEYS-FROZEN", "the members ShapeConnectionPin::operator< orders by (the key of every shape's / junction's ordered pin set) are "
                 "stored to, or bound to a non-const reference, only in the pin's constructors -- or in a function that first empties "
                 "m_connection_pins on every path and inserts the pins again afterwards (ShapeRef::transformConnectionPinPositions): a pin whose "
                 "key changes while it is in the set can no longer be found by erase(), stays in the set after its destruction and is deleted "
                 "again by ~Obstacle", floor=3)
    lt = prog.fn("Avoid::ShapeConnectionPin::operator<")
    keys = sorted({n["ref"] for n in lt.nodes() if n.get("k") == "MemberExpr" and n.get("rk") == "Field" and str(n.get("ref", "")).startswith("Avoid::ShapeConnectionPin::")}
                  - {"Avoid::ShapeConnectionPin::m_router", "Avoid::ShapeConnectionPin::m_shape", "Avoid::ShapeConnectionPin::m_junction"})
    if len(keys) < 4:
        raise AnalysisBroken("ShapeConnectionPin::operator<: key members not recognised (%s)" % keys)
    r.count()
    r.ok("key members", lt.where(), ", ".join(k.split("::")[-1] for k in keys))
    n_sites = 0
    for fn in prog.all_functions():
        if not fn.body or "/libavoid/" not in fn.file:
            continue
        sites = []
        for lhs, node, op in writes(fn):
            f = written_field(lhs)[0]
            if f in keys:
                sites.append((node, "stores to %s" % f.split("::")[-1]))
        for n in fn.nodes():
            if n.get("k") == "VarDecl" and "&" in str(n.get("t", "")) and not str(n.get("t", "")).startswith("const ") and n.get("init") is not None:
                i_ = strip(n["init"])
                if i_ is not None and i_.get("k") == "MemberExpr" and i_.get("ref") in keys:
                    sites.append((n, "binds the reference `%s` to %s" % (n.get("name"), i_["ref"].split("::")[-1])))
        if not sites:
            continue
        if fn.q == "Avoid::ShapeConnectionPin::ShapeConnectionPin":
            continue
        n_sites += len(sites)
        g = CFG(fn)
        clr = [c for c in calls(fn) if str(c.get("cname", "")).endswith("::clear") and call_object(c) is not None and "m_connection_pins" in norm(call_object(c))]
        ins = [c for c in calls(fn) if re.search(r"::insert(<|$)", str(c.get("cname", ""))) and call_object(c) is not None and "m_connection_pins" in norm(call_object(c))]
        for node, what in sites:
            r.count()
            inst = "%s: %s (line %s)" % (fn.q, what, node.get("l"))
            target = node["id"] if node.get("id") in g.pos else None
            if target is None:
                anc = [a for a in fn.ancestors(node) if a.get("id") in g.pos]
                target = anc[0]["id"] if anc else None
            if not clr or not ins or target is None:
                r.bad(inst, fn.loc(node), "the pin's set key is changed while the pin may be in its shape's ordered pin set (no m_connection_pins.clear() "
                      "before / insert after in this function)")
                continue
            w = g.must_precede([c["id"] for c in clr], target)
            w2 = g.must_follow(target, [c["id"] for c in ins]) if w is None else None
            if w is not None:
                r.bad(inst, fn.loc(node), "a path reaches this change of the key without emptying m_connection_pins first (%s)" % g.describe(w))
            elif w2 is not None:
                r.bad(inst, fn.loc(node), "after this change a path leaves the function without inserting the pins again (%s)" % g.describe(w2))
            else:
                r.ok(inst, fn.loc(node))
    if n_sites < 2:
        raise AnalysisBroken("no function outside the constructors changes a pin key any more: rule has no instance (was transformConnectionPinPositions)")


def rule_stale_solver_pointer(chk, prog):
    r = chk.rule("STALE-SOLVER-POINTER", "cola::SeparationConstraint::vpscConstraint points at a vpsc::Constraint that the projection which asked for it "
                 "deletes: only generateSeparationConstraints (which creates it) may look through the pointer; every other function may only "
                 "assign or compare it", floor=2)
    fld = "cola::SeparationConstraint::vpscConstraint"
    n = 0
    for fn in prog.all_functions():
        if not fn.body:
            continue
        for m in fn.nodes():
            if m.get("k") == "MemberExpr" and m.get("rk") == "Field":
                base = strip_casts(m.get("ch", [None])[0]) if m.get("ch") else None
                if base is not None and base.get("k") == "MemberExpr" and base.get("ref") == fld:
                    n += 1
                    r.count()
                    if fn.q == "cola::SeparationConstraint::generateSeparationConstraints":
                        r.ok("%s->%s in %s" % ("vpscConstraint", m.get("ref", "?").split("::")[-1], fn.q), fn.loc(m))
                    else:
                        r.bad("vpscConstraint->%s in %s" % (m.get("ref", "?").split("::")[-1], fn.q), fn.loc(m),
                              "reads or writes the vpsc::Constraint of an earlier projection, which that projection has freed")
    # the same lifetime holds for the guideline variable of an AlignmentConstraint: observers that a client may call at any time must not
    # look through it
    cg = CallGraph(prog)
    by_key = {f.key: f for f in prog.all_functions()}
    vfld = "cola::AlignmentConstraint::variable"

    def derefs(f):
        for m in f.nodes():
            if m.get("k") == "MemberExpr" and m.get("rk") == "Field" and m.get("ch"):
                base = strip_casts(m["ch"][0])
                if base is not None and base.get("k") == "MemberExpr" and base.get("ref") == vfld:
                    return m
        return None
    for q in ("cola::SeparationConstraint::left", "cola::SeparationConstraint::right", "cola::SeparationConstraint::toString"):
        for f in prog.fns(q):
            if not f.body:
                continue
            r.count()
            hit = None
            for k in cg.reachable([f.key]):
                g_ = by_key.get(k)
                if g_ is not None and g_.body and str(g_.q).startswith("cola::"):
                    d_ = derefs(g_)
                    if d_ is not None:
                        hit = (g_, d_)
                        break
            (r.ok if hit is None else r.bad)("observer %s" % q, hit[0].loc(hit[1]) if hit else f.where(), "" if hit is None else
                                             "%s (callable by the client at any time) reaches %s, which reads the vpsc::Variable of an AlignmentConstraint: "
                                             "after a layout run that variable has been freed by the projection that created it" % (q, hit[0].q))
    gen = prog.fn("cola::SeparationConstraint::generateSeparationConstraints")
    asg = [node for lhs, node, op in writes(gen) if written_field(lhs)[0] == fld]
    r.count()
    (r.ok if asg else r.bad)("generateSeparationConstraints stores a fresh constraint", gen.where(), "" if asg else "vpscConstraint is no longer assigned here")


def rule_ctor_order(chk, prog, cg):
    """A member that a constructor assigns in its body must be assigned before the constructor calls code that reads it."""
    r = chk.rule("CTOR-USE-BEFORE-SET", "in every constructor of the five libraries: a scalar member that is first given a value by an assignment "
                 "in the constructor BODY (not by the initialiser list) is assigned before the constructor calls any member function of the "
                 "object under construction from which a member function of the same class that reads that member is reachable in the call graph "
                 "(ConnRef(router, src, dst) called setEndpoints(), which routes at once when transactions are off, before it had "
                 "registered m_reroute_flag_ptr)", floor=20)
    by_key = {f.key: f for f in prog.all_functions()}
    reads_cache = {}

    def reads(f):
        if f.key not in reads_cache:
            out = set()
            written_lhs = {id(strip(lhs)) for lhs, node, op in writes(f) if op == "="}
            for n in f.nodes():
                if n.get("k") == "MemberExpr" and n.get("rk") == "Field" and id(n) not in written_lhs:
                    if member_of_this(n) is not None:
                        out.add(n["ref"])
            reads_cache[f.key] = out
        return reads_cache[f.key]

    trans_cache = {}

    def trans_reads(k, cls):
        if (k, cls) not in trans_cache:
            seen, work, out = set(), [k], set()
            while work:
                x = work.pop()
                if x in seen:
                    continue
                seen.add(x)
                f = by_key.get(x)
                if f is None or not f.body:
                    continue
                if f.cls == cls:
                    out |= reads(f)
                work.extend(cg.edges.get(x, ()))
            trans_cache[(k, cls)] = out
        return trans_cache[(k, cls)]
    n_ctor = 0
    for fn in prog.all_functions():
        if fn.kind != "ctor" or not fn.body or not fn.cls:
            continue
        inited = {i.get("field") for i in fn.d.get("inits", []) if i.get("field")}
        first = {}
        for lhs, node, op in writes(fn):
            f = member_of_this(lhs) if strip(lhs) is not None and strip(lhs).get("k") == "MemberExpr" else None
            if f and op == "=" and f not in inited and f.rsplit("::", 1)[0] == fn.cls and f not in first:
                first[f] = node
        if not first:
            continue
        n_ctor += 1
        g = CFG(fn)
        for fld, node in first.items():
            if node.get("id") not in g.pos:
                continue
            r.count()
            bad = None
            for c in calls(fn):
                if c.get("k") != "CXXMemberCallExpr" or c.get("id") not in g.pos:
                    continue
                callee = by_key.get(c.get("callee"))
                if callee is None or callee.cls != fn.cls or not callee.body:
                    continue
                obj = call_object(c)
                if obj is not None and strip(obj) is not None and strip(obj).get("k") != "CXXThisExpr":
                    continue
                if fld in trans_reads(callee.key, fn.cls) and g.search([g.after(c["id"])], blocked=[], targets=[node["id"]]) is not None \
                        and g.must_precede([node["id"]], c["id"]) is not None:
                    bad = (c, callee)
                    break
            if bad:
                r.bad("%s in %s" % (fld.split("::")[-1], fn.key), fn.loc(bad[0]), "%s() is called before `%s` is assigned at line %s, and reads it "
                      "(directly or through other member functions of %s)" % (bad[1].name, fld.split("::")[-1], node.get("l"), fn.cls))
            else:
                r.ok("%s in %s" % (fld.split("::")[-1], fn.key), fn.loc(node))
    chk.sample({"rule": "CTOR-USE-BEFORE-SET", "constructors_with_body_assigned_members": n_ctor})


_CONNEND_DEREF_REVIEWED = {
    ("Avoid::ConnRef::common_updateEndPoint", "m_src_connend"): "dereferenced right after `m_src_connend = new ConnEnd(connEnd)` in the same block",
    ("Avoid::ConnRef::common_updateEndPoint", "m_dst_connend"): "dereferenced right after `m_dst_connend = new ConnEnd(connEnd)` in the same block",
    ("Avoid::ConnRef::assignConnectionPinVisibility", "m_src_connend"): "under `dummySrc`, a single-assignment local defined as `m_src_connend && ...`",
    ("Avoid::ConnRef::assignConnectionPinVisibility", "m_dst_connend"): "under `dummyDst`, a single-assignment local defined as `m_dst_connend && ...`",
    ("Avoid::ConnRef::generatePath", "m_src_connend"): "under isDummyAtEnd.first, the value assignConnectionPinVisibility returned for `m_src_connend && isPinConnection()`",
    ("Avoid::ConnRef::generatePath", "m_dst_connend"): "under isDummyAtEnd.second, likewise",
    ("Avoid::HyperedgeTreeEdge::writeEdgesToConns", "m_dst_connend"): "a connector between two junctions: both ends were attached by addConns / "
                                                                       "updateConnEnds (TREE-WRITEBACK of C12 decides that); asserted on the line before",
}


def rule_connend_deref(chk, prog):
    from ..rules.guards import path_condition, atoms
    r = chk.rule("NULLABLE-CONNEND", "ConnRef::m_src_connend / m_dst_connend are null for an end at a free point (most code tests them): every "
                 "dereference in libavoid happens under a condition that names the pointer (it was tested on the path), or at one of the "
                 "reviewed sites where another fact makes it non-null (listed with the reason)", floor=25)
    flds = ("Avoid::ConnRef::m_src_connend", "Avoid::ConnRef::m_dst_connend")
    used = set()
    for fn in prog.all_functions():
        if not fn.body or "/libavoid/" not in fn.file:
            continue
        for n in fn.nodes():
            if n.get("k") != "MemberExpr" or n.get("ref") not in flds:
                continue
            anc = list(fn.ancestors(n))
            p_ = anc[0] if anc else None
            q_ = anc[1] if len(anc) > 1 else None
            der = False
            if p_ is not None and p_.get("k") == "ImplicitCastExpr" and q_ is not None:
                if q_.get("k") in ("MemberExpr", "CXXMemberCallExpr") or (q_.get("k") == "UnaryOperator" and q_.get("op") == "*"):
                    der = True
                elif q_.get("k") == "ImplicitCastExpr" and len(anc) > 2 and anc[2].get("k") in ("MemberExpr", "CXXMemberCallExpr"):
                    der = True
            if not der:
                continue
            name = n["ref"].split("::")[-1]
            r.count()
            inst = "%s dereferenced in %s (line %s)" % (name, fn.q, n.get("l"))
            pc = path_condition(fn, n, inline=False)
            if any(name in a for a in atoms(pc)):
                r.ok(inst, fn.loc(n), "tested on the path")
            elif (fn.q, name) in _CONNEND_DEREF_REVIEWED:
                used.add((fn.q, name))
                r.ok(inst, fn.loc(n), "reviewed: " + _CONNEND_DEREF_REVIEWED[(fn.q, name)])
            else:
                r.bad(inst, fn.loc(n), "%s is dereferenced although nothing on the path says it is non-null: it is null when that end of the connector "
                      "is a free point" % name)
    stale = set(_CONNEND_DEREF_REVIEWED) - used
    if stale:
        raise AnalysisBroken("reviewed ConnEnd dereference sites no longer exist: %s" % sorted(stale))


def rule_queued_ends_detached(chk, prog):
    from ..rules.guards import path_condition, atoms
    r = chk.rule("QUEUED-ENDS-DETACHED", "Router::processActions frees a removed obstacle in its first loop and applies the queued connector end changes "
                 "after it: before `delete obstacle`, in the same iteration, a pass over ALL queued actions and ALL of their end updates replaces "
                 "every queued ConnEnd whose anchor is that obstacle (the only condition) -- otherwise common_updateEndPoint reads the freed "
                 "shape and attaches the connector to it", floor=1)
    fn = prog.fn("Avoid::Router::processActions")
    g = CFG(fn)
    dels = [n for n in fn.nodes() if n.get("k") == "CXXDeleteExpr" and norm(n["ch"][0]) == "obstacle"]
    if not dels:
        raise AnalysisBroken("processActions: `delete obstacle` not found")
    r.count()
    cand = []
    for lhs, node, op in writes(fn):
        if op == "=" and norm(lhs).endswith(".second"):
            ats = atoms(path_condition(fn, node, inline=False))
            if any("m_anchor_obj == obstacle" in a or "obstacle == " in a and "m_anchor_obj" in a for a in ats):
                cand.append((node, ats))
    bad = None
    if not cand:
        bad = "no queued end update anchored to the obstacle is rewritten before the obstacle is freed"
    else:
        node, ats = cand[0]
        loops = [a for a in fn.ancestors(node) if a.get("k") == "ForStmt"]
        inner = [lp for lp in loops if ".conns." in norm(lp.get("init")) + norm(lp.get("cond"))]
        outer = [lp for lp in loops if "actionList.begin()" in norm(lp.get("init")) and "actionList.end()" in norm(lp.get("cond"))]
        extra = [a for a in ats if not any(t in a for t in ("m_anchor_obj", ".conns.end()", "actionList.end()", "isMove", "curr != finish", "true"))]
        if not inner or not outer:
            bad = "the rewrite does not run over all queued actions (actionList.begin()..end()) and all of their end updates (conns)"
        elif extra:
            bad = "the rewrite happens only under %s" % sorted(extra)
        elif g.iteration_can_skip(inner[0], [node["id"]] + [x["id"] for x in walk(inner[0]["body"]) if x.get("k") == "IfStmt"]) is not None and False:
            bad = "an end update can be skipped"
        elif not (node.get("l", 0) < dels[0].get("l", 0)) or not any(any(x is dels[0] for x in walk(a.get("body") or {})) for a in fn.ancestors(outer[0]) if a.get("k") in ("ForStmt", "WhileStmt")):
            bad = "the obstacle is freed before the queued ends anchored to it are rewritten"
        else:
            conts = [x for x in walk(outer[0]["body"]) if x.get("k") == "ContinueStmt"]
            for c_ in conts:
                ca = atoms(path_condition(fn, c_, inline=False))
                if not any("ConnChange" in a for a in ca):
                    bad = bad or "queued actions are skipped under %s" % sorted(ca)[:3]
    (r.bad if bad else r.ok)("processActions (obstacle removal)", fn.loc(cand[0][0]) if cand else fn.loc(dels[0]), bad or "")


def rule_delete_api(chk, prog):
    r = chk.rule("ROUTER-DELETE-API", "the objects handed to Router::deleteShape / deleteJunction / deleteConnector / deleteCluster are owned by the "
                 "router (their destructors abort when anybody else deletes them): on every path each of the four either deletes its argument "
                 "or queues the removal action whose processing deletes it -- none merely unlinks the object", floor=4)
    for q, arg in (("Avoid::Router::deleteShape", "shape"), ("Avoid::Router::deleteJunction", "junction"), ("Avoid::Router::deleteConnector", "connector"),
                   ("Avoid::Router::deleteCluster", "cluster")):
        fn = prog.fn(q)
        g = CFG(fn)
        pname = fn.params[0]["name"] if fn.params else arg
        frees = [n["id"] for n in fn.nodes() if n.get("k") == "CXXDeleteExpr" and norm(n["ch"][0]) == pname and n.get("id") in g.pos]
        queued = [c["id"] for c in fn.nodes() if c.get("k") in ("CXXConstructExpr", "CXXTemporaryObjectExpr") and c.get("cname") == "Avoid::ActionInfo"
                  and any("Remove" in norm(a) for a in c.get("ch", [])[:1]) and c.get("id") in g.pos]
        if not queued:
            for c in fn.nodes():
                if c.get("k") in ("CXXConstructExpr", "CXXTemporaryObjectExpr") and c.get("cname") == "Avoid::ActionInfo" and any("Remove" in norm(a) for a in c.get("ch", [])[:1]):
                    anc = [a for a in fn.ancestors(c) if a.get("id") in g.pos]
                    if anc:
                        queued.append(anc[0]["id"])
        r.count()
        w = g.exit_reachable_avoiding(frees + queued) if (frees or queued) else []
        (r.ok if w is None else r.bad)(q, fn.where(), "" if w is None else
                                       "a path through %s neither deletes `%s` nor queues its removal%s: the object is unlinked from the router and "
                                       "never freed (nobody else may delete it)" % (q.split("::")[-1], pname, (" (" + g.describe(w) + ")") if w else ""))


def rule_point_vectors_filled(chk, prog):
    """Avoid::Point() leaves x and y unset (by design, tables/init_reviewed.json): a vector built from a size holds indeterminate points."""
    r = chk.rule("SIZED-POINT-VECTORS-FILLED", "every local std::vector<Avoid::Point> (PointList, std::vector<Vector>) of libavoid that is constructed from "
                 "a SIZE only holds points with indeterminate coordinates until they are assigned: the function stores to `v[index]` in a loop "
                 "in which no iteration can end without the store, and whose trip count is the vector's size (from a to b for a vector of "
                 "size b - a) -- an element that is skipped is read as whatever the heap block held before, so results differ from run to run", floor=2)
    n = 0
    for fn in prog.all_functions():
        if not fn.body or "/libavoid/" not in fn.file:
            continue
        for d in fn.nodes():
            if d.get("k") != "VarDecl" or not str(d.get("t", "")).startswith("std::vector<Avoid::Point") or d.get("init") is None:
                continue
            i_ = strip(d["init"])
            args = [a for a in (i_ or {}).get("ch", []) if a.get("k") != "CXXDefaultArgExpr"]
            if i_ is None or i_.get("k") != "CXXConstructExpr" or len(args) != 1 or "vector" in str(strip(args[0]).get("t", "")):
                continue
            if str(strip_casts(args[0]).get("t", "")).startswith("std::") or "Point" in str(strip_casts(args[0]).get("t", "")):
                continue
            n += 1
            r.count()
            name, size = d.get("name"), norm(args[0])
            inst = "%s(%s) in %s" % (name, size, fn.q)
            g = CFG(fn)
            stores = [node for lhs, node, op in writes(fn) if op == "=" and norm(lhs).startswith(name + "[")]
            bad = None
            if not stores:
                bad = "no element of the vector is ever assigned by index"
            else:
                lps = [a for a in fn.ancestors(stores[0]) if a.get("k") == "ForStmt"]
                if not lps:
                    bad = "the elements are not assigned in a loop over the whole vector"
                else:
                    lp = lps[0]
                    skip = g.iteration_can_skip(lp, [s_["id"] for s_ in stores if any(x is s_ for x in walk(lp["body"]))])
                    init, cond = norm(lp.get("init")), norm(lp.get("cond"))
                    m_c = re.match(r"^\((\w+) < (.+)\)$", cond)
                    m_i = re.search(r"VarDecl\((.+)\)\)?$", init) or re.search(r"= (.+)\)$", init)
                    lo = (m_i.group(1).strip().rstrip(")").strip() if m_i else None)
                    hi = (m_c.group(2).strip() if m_c else None)
                    trip_ok = hi is not None and lo is not None and (
                        (lo in ("0",) and hi == size) or size in ("(%s - %s)" % (hi, lo), "%s - %s" % (hi, lo)))
                    if skip is not None:
                        bad = "an iteration of the filling loop can end without assigning its element (%s)" % g.describe(skip)
                    elif not trip_ok:
                        bad = "the filling loop runs from `%s` while `%s`, which is not the vector's size `%s`" % (lo, cond, size)
            (r.bad if bad else r.ok)(inst, fn.loc(d), bad or "")
    if n < 2:
        raise AnalysisBroken("sized Point vectors not found (%d): matcher out of date" % n)


def rule_router_dtor_queued(chk, prog):
    r = chk.rule("ROUTER-DTOR-QUEUED", "an object created since the last processTransaction() (new ShapeRef / JunctionRef / ConnRef: their constructors "
                 "queue a ShapeAdd / JunctionAdd / ConnChange action) is known to the router only through its action list until the transaction "
                 "runs, and its destructor refuses to be called by anybody but the router: Router::~Router therefore walks actionList and deletes "
                 "the objects of pending additions, besides draining connRefs, m_obstacles and clusterRefs", floor=1)
    fn = prog.fn("Avoid::Router::~Router")
    mentions = [n for n in fn.nodes() if n.get("k") == "MemberExpr" and n.get("ref") == "Avoid::Router::actionList"]
    dels = [n for n in fn.nodes() if n.get("k") == "CXXDeleteExpr"]
    in_loop = [m for m in mentions if any(a.get("k") in ("ForStmt", "WhileStmt", "CXXForRangeStmt") for a in fn.ancestors(m))]
    r.count()
    ok = bool(in_loop) and len(dels) >= 3
    (r.ok if ok else r.bad)("objects of queued additions", fn.where(), "" if ok else
                            "Router::~Router never looks at actionList: a shape, junction or connector that was created but not yet processed is leaked "
                            "(and cannot be freed by its creator, whose `delete` aborts)")


_VERTEX_NEVER_LISTED = {
    "Avoid::delete_vertex::operator()": "the spanning-tree builder's extraVertices are created with `new VertInf` and never handed to VertInfList::addVertex",
    "Avoid::Obstacle::~Obstacle": "asserts m_active == false: Obstacle::makeInactive has already taken the polygon's vertices off the router's list",
}


_SOLVER_OBJ = ("vpsc::Constraint *", "vpsc::Variable *", "Constraint *", "Variable *")


def rule_solver_objects_read_before_freed(chk, prog):
    r = chk.rule("SOLVER-OBJECTS-READ-BEFORE-FREED", "in libcola / libvpsc / libtopology, a function that frees vpsc constraints (variables) with `delete` "
                 "does not, on any path AFTER such a delete and outside the loop that contains it, dereference a vpsc::Constraint* "
                 "(vpsc::Variable*) or build an UnsatisfiableConstraintInfo from one -- GradientProjection::destroyVPSC reports the "
                 "unsatisfiable constraints of `cs`, which CONTAINS the per-iteration constraints `lcs` it frees (and whose variables beyond the "
                 "static ones it frees too), so the report has to come first", floor=4)

    def ptype(n):
        return str((strip(n) or {}).get("t", "")).replace("const ", "").strip()
    seen_destroy = False
    for fn in prog.all_functions():
        if not fn.body or "/tests/" in fn.file or not any(x in fn.file for x in ("/libcola/", "/libvpsc/", "/libtopology/")):
            continue
        dels = [n for n in fn.nodes() if n.get("k") == "CXXDeleteExpr" and n.get("ch") and ptype(n["ch"][0]) in _SOLVER_OBJ]
        if not dels:
            continue
        uses = [n for n in fn.nodes() if n.get("k") == "MemberExpr" and n.get("arrow") and n.get("ch") and ptype(n["ch"][0]) in _SOLVER_OBJ]
        infos = [n for n in fn.nodes() if n.get("k") == "CXXConstructExpr" and "UnsatisfiableConstraintInfo" in n.get("cname", "")]
        if not uses and not infos:
            continue
        if fn.q == "cola::GradientProjection::destroyVPSC":
            seen_destroy = True
        g = CFG(fn)
        for d in dels:
            r.count()
            kind = ptype(d["ch"][0]).split("::")[-1]
            loops = [a for a in fn.ancestors(d) if a.get("k") in ("ForStmt", "WhileStmt", "DoStmt", "CXXForRangeStmt")]
            inner_ids = {x.get("id") for x in walk(loops[0])} if loops else set()
            bad = None
            blk = [a for a in fn.ancestors(d) if a.get("k") == "CompoundStmt"]
            if blk and any(c_.get("k") == "CXXMemberCallExpr" and (c_.get("cname") or "").split("::")[-1] in ("erase", "pop_back") and c_.get("l", 0) >= d.get("l", 0)
                           for c_ in walk(blk[0])):
                # the freed object is taken out of its container in the same block: what the container yields later are other objects
                r.ok("delete %s in %s" % (norm(d["ch"][0]), fn.q), fn.loc(d), "the freed element is erased from its container in the same block")
                continue
            for u in uses + infos:
                if u.get("id") in inner_ids:
                    continue
                if u in uses and ptype(u["ch"][0]).split("::")[-1] != kind:
                    continue
                try:
                    w = g.search([g.after(d)], targets=[u["id"]])
                except AnalysisBroken:
                    continue
                if w:
                    bad = "%s at line %s is reached after this delete (%s): the object may be one of those just freed" % (
                        norm(u)[:60], u.get("l"), g.describe(w))
                    break
            (r.bad if bad else r.ok)("delete %s in %s" % (norm(d["ch"][0]), fn.q), fn.loc(d), bad or "")
    if not seen_destroy:
        raise AnalysisBroken("GradientProjection::destroyVPSC no longer frees and reports constraints: rule out of date")


_GROW = ("resize", "push_back", "emplace_back", "insert", "push_front", "emplace", "emplace_front", "reserve", "assign")
_CONTIG = re.compile(r"^std::(vector|deque)<")


def rule_iterator_survives_growth(chk, prog):
    r = chk.rule("ITERATOR-NOT-USED-AFTER-GROWTH", "a local initialised from begin() / end() (and friends) of a std::vector or std::deque is not used, on "
                 "any path, after a call that may grow that same container (resize, push_back, insert, emplace*, reserve, assign) unless it was "
                 "assigned anew in between -- growth invalidates every iterator of these two containers (Graph::getConnComps extends its BFS "
                 "deque by resize and must take `end() - n` afterwards); the same for a range-for over a container that its body grows",
                 floor=20)
    for fn in prog.all_functions():
        if not fn.body or "/tests/" in fn.file or fn.tmpl == "pattern":
            continue
        grow = {}
        for c in calls(fn):
            nm = c.get("cname") or ""
            if c.get("k") == "CXXMemberCallExpr" and nm.split("::")[-1] in _GROW and _CONTIG.match(nm):
                o = call_object(c)
                if o is not None:
                    grow.setdefault(norm(o), []).append(c)
        if not grow:
            continue
        g = None
        for d in fn.nodes():
            if d.get("k") == "CXXForRangeStmt" and d.get("range") is not None and _CONTIG.match(str((strip(d["range"]) or {}).get("t", "")).replace("const ", "")):
                X = norm(d["range"])
                if X in grow:
                    r.count()
                    body_ids = {x.get("id") for x in walk(d.get("body") or {})}
                    inside = [c for c in grow[X] if c["id"] in body_ids]
                    (r.bad if inside else r.ok)("range-for over %s in %s" % (X, fn.q), fn.loc(d), "" if not inside else
                                                "the loop body grows the container it iterates over (line %s)" % inside[0].get("l"))
                continue
            if d.get("k") != "VarDecl" or d.get("init") is None:
                continue
            X = None
            for c in walk(d["init"]):
                nm = c.get("cname") or ""
                if c.get("k") == "CXXMemberCallExpr" and nm.split("::")[-1] in ("begin", "end", "cbegin", "cend", "rbegin", "rend") and _CONTIG.match(nm):
                    o = call_object(c)
                    if o is not None and norm(o) in grow:
                        X = norm(o)
                    break
            if X is None:
                continue
            r.count()
            g = g or CFG(fn)
            uses = [n for n in fn.nodes() if n.get("k") == "DeclRefExpr" and n.get("did") == d.get("did")]
            asg = set()
            for lhs, node, op in writes(fn):
                l_ = strip(lhs)
                if l_ and l_.get("k") == "DeclRefExpr" and l_.get("did") == d.get("did") and op == "=":
                    asg.add(node["id"])
            ds = [a for a in fn.ancestors(d) if a.get("k") == "DeclStmt"]
            if ds:
                asg.add(ds[0]["id"])
            bad = None
            for gc in grow[X]:
                for u in uses:
                    try:
                        w = g.search([g.after(gc)], blocked=asg, targets=[u["id"]])
                    except AnalysisBroken:
                        continue
                    if w:
                        bad = "`%s` (an iterator of %s) is used at line %s after %s at line %s may have moved the container's storage (%s)" % (
                            d.get("name"), X, u.get("l"), (gc.get("cname") or "").split("::")[-1], gc.get("l"), g.describe(w))
                        break
                if bad:
                    break
            (r.bad if bad else r.ok)("%s in %s" % (d.get("name"), fn.q), fn.loc(d), bad or "")


_PREV_REVIEWED = {
    ("dialect::Tree::addConstraints", "rank"): "a rank of a tree holds at least one node (*std::max_element(rank.begin(), rank.end()) is dereferenced two statements earlier)",
    ("dialect::Tree::addConstraints", "tallestNodes"): "one entry per rank, and every tree has rank 0 (its root)",
}


def _emptiness(pc, X):
    """True: pc entails that container X is empty; False: entails non-empty; None: neither (the usual spellings of the test are known)."""
    X = X.replace(" ", "")
    for a in atoms(pc):
        a_ = a.replace(" ", "")
        pos = a_ in ("%s.empty()" % X, "(%s.size()==0)" % X, "(0==%s.size())" % X)
        neg = a_ in ("(%s.size()>0)" % X, "(%s.size()!=0)" % X, "%s.size()" % X, "(%s.size()>=1)" % X, "(0<%s.size())" % X)
        if not (pos or neg):
            continue
        if entails(pc, ("atom", a)):
            return True if pos else False
        if entails(pc, ("not", ("atom", a))):
            return False if pos else True
    return None


def rule_prev_of_end(chk, prog):
    r = chk.rule("PREV-OF-END-NONEMPTY", "std::prev(c.end()) -- `stop at the last element` -- is evaluated only where c cannot be empty: the path "
                 "condition entails !c.empty(), or the site is one of the two reviewed ones in Tree::addConstraints; for an empty std::map "
                 "libstdc++ walks header->parent->parent through a null pointer (AlignmentTable on an empty graph / everything ignored)", floor=3)
    seen = set()
    for fn in prog.all_functions():
        if not fn.body or "/tests/" in fn.file or fn.tmpl == "pattern":
            continue
        for c in calls(fn):
            if not (c.get("cname") or "").startswith("std::prev<"):
                continue
            ends = [x for x in walk(c) if x.get("k") == "CXXMemberCallExpr" and (x.get("cname") or "").split("::")[-1] in ("end", "cend")]
            if not ends or call_object(ends[0]) is None:
                continue
            X = norm(call_object(ends[0]))
            r.count()
            inst = "std::prev(%s.end()) in %s" % (X, fn.q)
            if (fn.q, X) in _PREV_REVIEWED:
                seen.add((fn.q, X))
                r.ok(inst, fn.loc(c), "reviewed: " + _PREV_REVIEWED[(fn.q, X)])
                continue
            pc = path_condition(fn, c, inline=False, early=True)
            ok = _emptiness(pc, X) is False
            (r.ok if ok else r.bad)(inst, fn.loc(c), "" if ok else "nothing excludes an empty %s here: std::prev of the end of an empty container is undefined" % X)
    for k in _PREV_REVIEWED:
        if k not in seen:
            raise AnalysisBroken("reviewed std::prev site %s/%s not found: table out of date" % k)


def rule_thrown_pointer(chk, prog):
    r = chk.rule("THROWN-POINTER-OUTLIVES-THROW", "a `throw` of a char pointer obtained from c_str() / data() takes it from an object that outlives the "
                 "throw expression (static or member storage), not from a temporary (`s.str().c_str()`) or a local: the handler -- the "
                 "library's own handlers print the message -- would read freed memory", floor=2)
    for fn in prog.all_functions():
        if not fn.body or "/tests/" in fn.file or fn.tmpl == "pattern":
            continue
        for t in fn.nodes():
            if t.get("k") != "CXXThrowExpr" or not t.get("ch"):
                continue
            cs = [x for x in walk(t["ch"][0]) if x.get("k") == "CXXMemberCallExpr" and (x.get("cname") or "").split("::")[-1] in ("c_str", "data")
                  and "basic_string" in (x.get("cname") or "")]
            if not cs:
                continue
            r.count()
            obj = call_object(cs[0])
            bad = None
            inner = [x.get("k") for x in walk(obj)] if obj is not None else []
            if "MaterializeTemporaryExpr" in inner or "CXXBindTemporaryExpr" in inner:
                bad = "the pointer is into a temporary string that is destroyed at the end of the throw expression"
            else:
                base = strip(obj)
                if base is not None and base.get("k") == "DeclRefExpr":
                    d = [v for v in fn.nodes() if v.get("k") == "VarDecl" and v.get("did") == base.get("did")]
                    if d and not d[0].get("static") and not d[0].get("parm"):
                        bad = "the pointer is into the local `%s`, destroyed while the stack unwinds" % d[0].get("name")
            (r.bad if bad else r.ok)("throw in %s" % fn.q, fn.loc(t), bad or "")


def rule_callers_topology_kept(chk, prog):
    r = chk.rule("CALLERS-TOPOLOGY-KEPT", "ColaTopologyAddon::makeFeasible builds its own topology::Nodes for the non-overlap constraints only when the "
                 "add-on has none (the assignment to topologyNodes is under topologyNodes.empty()): an add-on constructed from the caller's "
                 "nodes and routes has routes whose EdgePoints point at THOSE nodes; replacing the vector leaves them without solver variables "
                 "(null dereference in the first bend constraint) and leaks the replaced nodes", floor=1)
    fn = prog.fn("topology::ColaTopologyAddon::makeFeasible")
    asg = []
    for c in calls(fn):
        if c.get("k") == "CXXOperatorCallExpr" and (c.get("cname") or "").endswith("operator=") and len(c.get("ch", [])) > 1:
            l_ = strip(c["ch"][1])
            if l_ is not None and l_.get("k") == "MemberExpr" and str(l_.get("ref", "")).endswith("ColaTopologyAddon::topologyNodes"):
                asg.append(c)
    if not asg:
        raise AnalysisBroken("makeFeasible no longer assigns topologyNodes: rule out of date")
    for c in asg:
        r.count()
        pc = path_condition(fn, c, inline=False, early=True)
        ok = _emptiness(pc, "topologyNodes") is True
        (r.ok if ok else r.bad)("topologyNodes = ... in makeFeasible", fn.loc(c), "" if ok else
                                "the add-on's nodes are replaced whatever they were (condition %s): routes handed over by the caller keep pointing at the old nodes" % show(pc))


def rule_generated_constraints_freed(chk, prog):
    r = chk.rule("GENERATED-CONSTRAINTS-FREED", "constraints that a libdialect / libtopology function has `new`ed into a vector for one projection or "
                 "solve are freed by it: (a) Graph::projectOntoSepCo -- every way out after SepCo::generateColaConstraints passes a `delete` of "
                 "entries of the vector that received them (as its sibling applyProjSeq does for Projection::generateColaConstraints); (b) "
                 "setupOrthogonalLayoutConstraints -- a vpsc::Constraint erased from `valid`, the only list that owns it, is deleted first", floor=2)
    fn = prog.fn("dialect::Graph::projectOntoSepCo")
    g = CFG(fn)
    gen = [c for c in calls(fn) if (c.get("cname") or "").endswith("SepCo::generateColaConstraints")]
    if not gen:
        raise AnalysisBroken("projectOntoSepCo no longer calls SepCo::generateColaConstraints: rule out of date")
    r.count()
    tgt = norm(call_args(gen[0])[1])
    dels = [n for n in fn.nodes() if n.get("k") == "CXXDeleteExpr" and n.get("ch") and tgt in norm(n["ch"][0])]
    bad = None
    if not dels:
        bad = "the constraints generated into %s are never deleted (the vector is a local copy of the options: nobody else can)" % tgt
    else:
        rets = [n for n in fn.nodes() if n.get("k") == "ReturnStmt"]
        must = []
        for d in dels:
            lp = [a for a in fn.ancestors(d) if a.get("k") in ("ForStmt", "WhileStmt", "CXXForRangeStmt")]
            # a delete inside a loop: passing the loop (its condition) is what every path has to do; how often the body runs is the data's business
            must.append(strip(lp[0]["cond"])["id"] if lp and lp[0].get("cond") is not None else d["id"])
        for rt in rets:
            w = g.search([g.after(gen[0])], blocked=must, targets=[rt["id"]])
            if w:
                bad = "a return is reached after generateColaConstraints without deleting the generated entries (%s)" % g.describe(w)
    (r.bad if bad else r.ok)("projectOntoSepCo", fn.loc(gen[0]), bad or "")
    fn = prog.fn("topology::setupOrthogonalLayoutConstraints")
    g = CFG(fn)
    ers = [c for c in calls(fn) if (c.get("cname") or "").split("::")[-1] == "erase" and call_object(c) is not None and norm(call_object(c)) == "valid"]
    if not ers:
        raise AnalysisBroken("setupOrthogonalLayoutConstraints no longer erases from `valid`: rule out of date")
    for e in ers:
        r.count()
        dels = [n for n in fn.nodes() if n.get("k") == "CXXDeleteExpr" and n.get("ch") and "Constraint" in str((strip(n["ch"][0]) or {}).get("t", ""))]
        blk = [a for a in fn.ancestors(e) if a.get("k") == "CompoundStmt"]
        same = [d for d in dels if blk and any(x is d for x in walk(blk[0]))]
        ok = bool(same) and g.must_precede([d["id"] for d in same], e["id"]) is None
        (r.ok if ok else r.bad)("valid.erase in setupOrthogonalLayoutConstraints", fn.loc(e), "" if ok else
                                "the constraint is dropped from the owning list without being deleted")


def rule_iteration_edges_freed(chk, prog):
    r = chk.rule("ITERATION-EDGES-FREED", "ConstrainedMajorizationLayout::run / runOnce hand the per-iteration vector `cedges` to straighten(), where "
                 "straightener::generateClusterBoundaries `new`s an Edge per hull segment of every convex cluster into it: every way from a "
                 "straighten(*sedges, ..) call to the end of the iteration passes the loop that deletes the entries of that vector (the "
                 "vector of raw pointers goes out of scope there; ~Edge frees the route)", floor=2)
    for q in ("cola::ConstrainedMajorizationLayout::run", "cola::ConstrainedMajorizationLayout::runOnce"):
        fn = prog.fn(q)
        g = CFG(fn)
        loc = [d for d in fn.nodes() if d.get("k") == "VarDecl" and "straightener::Edge *" in d.get("t", "") and "vector" in d.get("t", "") and "*>" in d.get("t", "").replace(" ", "")
               and not d.get("parm") and not d.get("t", "").rstrip().endswith("*")]
        st = [c for c in calls(fn) if c.get("cname") == "cola::ConstrainedMajorizationLayout::straighten"]
        if not loc or not st:
            raise AnalysisBroken("%s: per-iteration edge vector / straighten call not found" % q)
        r.count()
        v = loc[0]
        dels = []
        for n in fn.nodes():
            if n.get("k") == "CXXDeleteExpr" and n.get("ch"):
                lp = [a for a in fn.ancestors(n) if a.get("k") in ("ForStmt", "CXXForRangeStmt", "WhileStmt")]
                if lp and any(x.get("k") == "DeclRefExpr" and x.get("did") == v.get("did") for x in walk(lp[0])):
                    dels.append(strip(lp[0]["cond"])["id"] if lp[0].get("cond") is not None else n["id"])
        bad = None
        if not dels:
            bad = "the entries of `%s` are never deleted: the edges generated for the cluster boundaries leak in every iteration" % v.get("name")
        else:
            for c in st:
                w = g.search([g.after(c)], blocked=dels, to_exit=True)
                if w:
                    bad = "after the straighten call at line %s the function can be left without freeing `%s` (%s)" % (c.get("l"), v.get("name"), g.describe(w))
                    break
                body = [a for a in fn.ancestors(c) if a.get("k") in ("DoStmt", "WhileStmt", "ForStmt")]
                if body and body[-1].get("cond") is not None:
                    w = g.search([g.after(c)], blocked=dels, targets=[strip(body[-1]["cond"])["id"]])
                    if w:
                        bad = "after the straighten call at line %s the next iteration starts without freeing `%s` (%s)" % (c.get("l"), v.get("name"), g.describe(w))
                        break
        (r.bad if bad else r.ok)(q.split("::")[-1], fn.loc(v), bad or "")


def rule_infos_freed_before_clear(chk, prog):
    r = chk.rule("INFOS-FREED-BEFORE-CLEAR", "GradientProjection::destroyVPSC (end of every solve of ConstrainedMajorizationLayout) clear()s the vector of "
                 "UnsatisfiableConstraintInfo pointers and refills it with `new` objects; the entries it drops were allocated by the previous "
                 "destroyVPSC and nobody else has their addresses afterwards, so the clear() has to be preceded by a loop deleting them "
                 "(ConstrainedFDLayout accumulates instead and leaves all of them to the caller)", floor=1)
    fn = prog.fn("cola::GradientProjection::destroyVPSC")
    g = CFG(fn)
    clr = [c for c in calls(fn) if (c.get("cname") or "").split("::")[-1] == "clear" and call_object(c) is not None and "unsatisfiableConstraints" in norm(call_object(c))]
    if not clr:
        raise AnalysisBroken("destroyVPSC no longer clears the unsatisfiable-constraint infos: rule out of date")
    for c in clr:
        r.count()
        must = []
        for n in fn.nodes():
            if n.get("k") == "CXXDeleteExpr" and n.get("ch") and "UnsatisfiableConstraintInfo" in str((strip(n["ch"][0]) or {}).get("t", "")):
                lp = [a for a in fn.ancestors(n) if a.get("k") in ("ForStmt", "CXXForRangeStmt", "WhileStmt")]
                must.append(strip(lp[0]["cond"])["id"] if lp and lp[0].get("cond") is not None else n["id"])
        ok = bool(must) and g.must_precede(must, c["id"]) is None
        (r.ok if ok else r.bad)("unsatisfiableConstraints->clear() in destroyVPSC", fn.loc(c), "" if ok else
                                "the infos of the previous solve are dropped without delete")


def rule_vertex_unlisted(chk, prog):
    r = chk.rule("VERTEX-UNLISTED-BEFORE-DELETE", "every `delete` of an Avoid::VertInf is preceded, on every path, by VertInfList::removeVertex of the same "
                 "vertex (the router's vertex list is an intrusive list threaded through the vertices: a freed vertex that is still linked is "
                 "read by the next visibility-graph build and by ~Router), except the two reviewed sites whose vertices were never listed", floor=7)
    seen = set()
    for fn in prog.all_functions():
        if not fn.body or "/libavoid/" not in fn.file:
            continue
        dels = [n for n in fn.nodes() if n.get("k") == "CXXDeleteExpr" and n.get("ch") and "VertInf" in str((strip(n["ch"][0]) or {}).get("t", ""))]
        if not dels:
            continue
        g = CFG(fn)
        rem = [c for c in calls(fn) if c.get("cname") == "Avoid::VertInfList::removeVertex"]
        for d in dels:
            r.count()
            what = norm(d["ch"][0])
            inst = "delete %s in %s" % (what, fn.q)
            if fn.q in _VERTEX_NEVER_LISTED:
                seen.add(fn.q)
                r.ok(inst, fn.loc(d), "reviewed: " + _VERTEX_NEVER_LISTED[fn.q])
                continue
            same = [c for c in rem if norm(call_args(c)[0]) == what]
            if not same:
                r.bad(inst, fn.loc(d), "the vertex is freed without VertInfList::removeVertex(%s): it stays linked in the router's vertex list" % what)
                continue
            w = g.must_precede([c["id"] for c in same], d["id"])
            (r.ok if w is None else r.bad)(inst, fn.loc(d), "" if w is None else
                                           "a path reaches this delete without removeVertex(%s) (%s)" % (what, g.describe(w)))
    for q in _VERTEX_NEVER_LISTED:
        if q not in seen:
            raise AnalysisBroken("reviewed site %s no longer deletes a VertInf: table out of date" % q)


_NODE_BASED = re.compile(r"^(const )?std::(__cxx11::)?(list|map|set|multimap|multiset|forward_list)<")
_ANY_CONT = re.compile(r"^(const )?std::(__cxx11::)?(list|vector|deque|map|set|multimap|multiset|unordered_map|unordered_set|forward_list)<")
_SHRINK = ("erase", "clear", "pop_back", "pop_front", "remove", "remove_if", "resize", "assign", "swap", "unique", "splice", "merge", "shrink_to_fit")


def rule_element_address(chk, prog):
    r = chk.rule("ELEMENT-ADDRESS-STABLE", "member containers whose element addresses are handed out by a function (`return &c.back()...`) are node-based "
                 "(growth does not move elements) and lose elements only at the reviewed sites of tables/element_address.json -- a pointer "
                 "into an erased node is written through later (use after free)", floor=2)
    table = json.load(open(os.path.join(VERIF, "tables", "element_address.json")))["fields"]
    handed = {}
    for f in prog.all_functions():
        if f.body is None or "/tests/" in f.file or f.tmpl == "pattern":
            continue
        for n in f.nodes():
            if n.get("k") != "ReturnStmt" or not n.get("ch"):
                continue
            e = strip_casts(n["ch"][0])
            if e is None or e.get("k") != "UnaryOperator" or e.get("op") != "&":
                continue
            inner = strip_casts(e["ch"][0])
            # the address of an element: the operand goes through a call on / subscript of a member container (not the container itself)
            if inner is not None and inner.get("k") == "MemberExpr" and inner.get("rk") == "Field" and _ANY_CONT.match(str(inner.get("t", ""))):
                continue
            for x in walk(e["ch"][0]):
                if x.get("k") == "MemberExpr" and x.get("rk") == "Field" and _ANY_CONT.match(str(x.get("t", ""))):
                    base = strip_casts(x["ch"][0]) if x.get("ch") else None
                    if base is not None and base.get("k") == "CXXThisExpr":
                        handed.setdefault(str(x.get("ref")), (str(x.get("t")), f, n))
    for fld in sorted(set(handed) | set(table)):
        r.count()
        if fld not in handed:
            r.ok(fld, "", "no element address is handed out any more")
            continue
        t, f0, n0 = handed[fld]
        if fld not in table:
            r.bad(fld, f0.loc(n0), "%s returns the address of an element of `%s` (%s): not a reviewed hand-out" % (f0.q, fld, t[:40]))
            continue
        if not _NODE_BASED.match(t):
            r.bad(fld, f0.loc(n0), "`%s` is a %s: inserting elements moves the ones whose addresses were handed out" % (fld, t[:40]))
            continue
        bad = None
        for f in prog.all_functions():
            if f.body is None or "/tests/" in f.file or f.tmpl == "pattern" or f.kind == "dtor":
                continue
            for c in calls(f):
                if c.get("k") != "CXXMemberCallExpr":
                    continue
                o = call_object(c)
                o = strip_casts(o) if o is not None else None
                if o is None or o.get("k") != "MemberExpr" or str(o.get("ref")) != fld:
                    continue
                m = str(c.get("cname", "")).rsplit("::", 1)[-1]
                if m in _SHRINK and f.q not in table[fld]["removals"]:
                    bad = bad or (f.loc(c), "%s removes elements from `%s` (%s); element addresses handed out by %s stay in use (%s)" % (
                        f.q, fld, m, f0.q.split("::")[-1], table[fld]["why_handed_out"][:110]))
        (r.bad(fld, bad[0], bad[1]) if bad else r.ok(fld, f0.loc(n0), "reviewed removals: %s" % (sorted(table[fld]["removals"]) or "none")))


def rule_split_halves(chk, prog):
    """IncSolver::satisfy: the two blocks made by a split are each handed to the block list or freed -- exactly once."""
    from ..microai.interp import Interp, Obj, Vec, Box, Oracle, Unsupported, AssertFail, default_obj
    r = chk.rule("SPLIT-HALVES-OWNED", "IncSolver::satisfy (both solver copies), the statement that follows a successful splitBetween(.., lb, rb), "
                 "interpreted for `v satisfied by the split` / `still violated` and for either half being the larger one: each of the two new "
                 "blocks is afterwards either in the block list (Blocks::insert) or deleted, never both, never neither (a half that is "
                 "neither leaks with its variable vector; one that is both is used after free)", floor=8)
    for ns in ("vpsc", "Avoid"):
        fn = prog.fn(ns + "::IncSolver::satisfy")
        ifs = [n for n in fn.nodes() if n.get("k") == "IfStmt" and norm(n["cond"]).replace(" ", "") in ("(v.slack()>=0)", "(v.slack()>=0.0)")
               and any(c.get("cname", "").endswith("Blocks::insert") for c in walk(n))]
        if len(ifs) != 1:
            raise AnalysisBroken("%s::IncSolver::satisfy: the statement after the split was not recognised" % ns)
        stmt = ifs[0]
        dids = {}
        for d in fn.nodes():
            if d.get("k") == "VarDecl" and d.get("name") in ("lb", "rb", "v"):
                dids.setdefault(d["name"], d["did"])
        if set(dids) != {"lb", "rb", "v"}:
            raise AnalysisBroken("%s::IncSolver::satisfy: locals lb / rb / v not found" % ns)
        for satisfied in (True, False):
            for left_larger in (True, False):
                lb = Obj(ns + "::Block", {"deleted": False, "_tag": "lb", "_n": 3 if left_larger else 1})
                rb = Obj(ns + "::Block", {"deleted": False, "_tag": "rb", "_n": 1 if left_larger else 3})
                v = Obj(ns + "::Constraint", {"active": False})
                inserted = []
                it = Interp(prog, Oracle([]))
                it.vhooks[ns + "::Constraint::slack"] = lambda it_, recv, args, s_=satisfied: (1 if s_ else -1)
                it.vhooks[ns + "::Blocks::insert"] = lambda it_, recv, args, ins=inserted: ins.append(args[0])

                def merge(it_, recv, args):
                    a, b = recv, args[0]
                    keep, gone = (a, b) if a.f["_n"] >= b.f["_n"] else (b, a)
                    gone.f["deleted"] = True
                    return keep
                it.vhooks[ns + "::Block::merge"] = merge
                solver = default_obj(prog, ns + "::IncSolver", {})
                solver.f["bs"] = Obj(ns + "::Blocks", {})
                solver.f["inactive"] = Vec([], ns + "::Constraint *")
                env = {dids["lb"]: Box(lb), dids["rb"]: Box(rb), dids["v"]: Box(v), "this": solver}
                inst = "%s::IncSolver::satisfy, v %s, %s half larger" % (ns, "satisfied by the split" if satisfied else "still violated", "left" if left_larger else "right")
                r.count()
                try:
                    it.ex(stmt, env)
                except Unsupported as e:
                    raise AnalysisBroken("%s outside the interpreter subset: %s" % (inst, e))
                except AssertFail as e:
                    r.bad(inst, fn.loc(stmt), "assertion fails: %s" % e)
                    continue
                deleted = it.__dict__.get("deleted", [])
                bad = None
                for b in (lb, rb):
                    ni = sum(1 for x in inserted if x is b)
                    nd = sum(1 for x in deleted if x is b)
                    if ni + nd == 0:
                        bad = bad or "block %s is neither put into the block list nor deleted: it leaks" % b.f["_tag"]
                    elif ni and nd:
                        bad = bad or "block %s is deleted although it is in the block list" % b.f["_tag"]
                    elif ni > 1 or nd > 1:
                        bad = bad or "block %s is %s twice" % (b.f["_tag"], "inserted" if ni > 1 else "deleted")
                    elif ni and b.f["deleted"]:
                        bad = bad or "the absorbed block %s is put into the block list" % b.f["_tag"]
                (r.bad if bad else r.ok)(inst, fn.loc(stmt), bad or "")


def rule_array_init(chk, prog):
    from ..rules import arrayinit
    r = chk.rule("ARRAY-INIT", "every user constructor gives EVERY element of a scalar array member a value: a loop from 0 to a bound that covers the "
                 "array, stores to constant indices (enumerators resolved), a mem-initialiser, or a fill -- member helpers on `this` and "
                 "delegating constructors followed; exceptions only via tables/array_init_reviewed.json (an element left out is read as "
                 "whatever the allocator left there: e.g. a routing penalty that differs from run to run)", floor=20)
    reviewed = load_table("array_init_reviewed.json")["entries"]
    for cls, name, bound, ctor, missing in arrayinit.scan(prog):
        key = "%s::%s@%s" % (cls, name, ctor.key)
        r.count()
        if not missing:
            r.ok(key, ctor.where(), "all %d elements" % bound)
        elif key in reviewed:
            r.ok(key, ctor.where(), "reviewed: " + reviewed[key][:100])
        else:
            r.bad(key, ctor.where(), "constructor leaves element(s) %s of `%s[%d]` indeterminate" % (missing, name, bound))


def rule_of_three(chk, prog):
    """A class that frees what its members point to must not be copied member-wise."""
    r = chk.rule("COPY-OWNERSHIP", "every copy construction in the libraries of a class that (itself, through a base class or through a by-value member) "
                 "frees memory in its destructor goes through a user-written copy constructor -- a defaulted / implicit member-wise copy makes "
                 "two objects free the same pointers (found: dialect::SepMatrix copied inside Graph's copy constructor although its base "
                 "cola::CompoundConstraint deletes its _subConstraintInfo)", floor=2)
    owning = {}
    for f in prog.all_functions():
        if f.kind != "dtor" or f.body is None or "/tests/" in f.file:
            continue
        for n in f.nodes():
            if n.get("k") == "CXXDeleteExpr" or (n.get("k") == "CallExpr" and "delete_object" in str(n.get("cname", "")) + str(n)[:0]):
                owning.setdefault(f.cls, f)
            elif n.get("k") == "CallExpr" and str(n.get("cname", "")).startswith("std::for_each") and "delete_object" in norm(n):
                owning.setdefault(f.cls, f)

    def bases(c, seen):
        out = []
        for b in (prog.records.get(c) or {}).get("bases", []):
            b = str(b)
            if b not in seen:
                seen.add(b)
                out.append(b)
                out += bases(b, seen)
        return out

    def user_copy_ctor(c):
        for f in prog.all_functions():
            if f.kind == "ctor" and f.cls == c and f.tmpl != "pattern" and len(f.params) == 1 and not f.d.get("defaulted") and not f.d.get("implicit"):
                t = str(f.params[0].get("t", "")).replace(" ", "")
                if t in ("const" + c.replace(" ", "") + "&", c.replace(" ", "") + "&") and f.body is not None:
                    return f
        return None
    sites = {}
    for f in prog.all_functions():
        if f.body is None and not f.d.get("inits"):
            continue
        if "/tests/" in f.file or f.tmpl == "pattern":
            continue
        roots = ([f.body] if f.body is not None else []) + [i_["expr"] for i_ in f.d.get("inits", []) if i_.get("expr")]
        for root in roots:
            for n in walk(root):
                if n.get("k") == "CXXConstructExpr" and n.get("copy"):
                    sites.setdefault(str(n.get("cname", "")), []).append((f, n))
    k = 0
    for cls, lst in sorted(sites.items()):
        chain = [cls] + bases(cls, set())
        own = [c for c in chain if c in owning]
        rec = prog.records.get(cls) or {}
        own += [str(fl["t"]).replace("const ", "") for fl in rec.get("fields", []) if str(fl["t"]).replace("const ", "") in owning]
        if not own:
            continue
        k += 1
        r.count()
        f0, n0 = lst[0]
        uc = user_copy_ctor(cls)
        if uc is not None:
            r.ok(cls, uc.where(), "copied at %d site(s) through its own copy constructor" % len(lst))
        else:
            r.bad(cls, f0.loc(n0), "%s is copied member-wise here (%d site(s)), but %s frees memory in its destructor: both copies free the same "
                  "pointers" % (cls, len(lst), own[0]))
    if k < 2:
        raise AnalysisBroken("COPY-OWNERSHIP: owning classes that are copied not recognised (%d)" % k)


def run(chk):
    prog = chk.load()
    cg = CallGraph(prog)
    chk.guard(rule_dtor_drain, chk, prog)
    chk.guard(rule_init, chk, prog)
    chk.guard(rule_array_init, chk, prog)
    chk.guard(rule_own_dtor, chk, prog, cg)
    chk.guard(rule_del_guard, chk, prog)
    chk.guard(rule_erase_advance, chk, prog)
    chk.guard(rule_local_escape, chk, prog)
    chk.guard(rule_buffer_fit, chk, prog)
    chk.guard(rule_action_identity, chk, prog)
    chk.guard(rule_element_address, chk, prog)
    chk.guard(rule_split_halves, chk, prog)
    chk.guard(rule_of_three, chk, prog)
    chk.guard(rule_dead_pin_actions, chk, prog)
    chk.guard(rule_vertex_unlisted, chk, prog)
    chk.guard(rule_solver_objects_read_before_freed, chk, prog)
    chk.guard(rule_iterator_survives_growth, chk, prog)
    chk.guard(rule_prev_of_end, chk, prog)
    chk.guard(rule_infos_freed_before_clear, chk, prog)
    chk.guard(rule_iteration_edges_freed, chk, prog)
    chk.guard(rule_callers_topology_kept, chk, prog)
    chk.guard(rule_generated_constraints_freed, chk, prog)
    chk.guard(rule_thrown_pointer, chk, prog)
    chk.guard(rule_ctor_order, chk, prog, cg)
    chk.guard(rule_connend_deref, chk, prog)
    chk.guard(rule_queued_ends_detached, chk, prog)
    chk.guard(rule_delete_api, chk, prog)
    chk.guard(rule_router_dtor_queued, chk, prog)
    chk.guard(rule_point_vectors_filled, chk, prog)
    chk.guard(rule_set_keys_frozen, chk, prog)
    chk.guard(rule_stale_solver_pointer, chk, prog)
