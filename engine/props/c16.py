"""C16 -- libavoid geometry predicates agree with exact arithmetic.

For each predicate the repository function's *decision tree* is extracted by symbolic interpretation of its
syntax tree (coordinates are polynomial symbols; every branch on coordinates becomes the sign of an integer
polynomial).  The tree is then compared, on every coordinate tuple of an integer grid, with an independent
exact reference definition written here.  The grid determines which sign classes are realisable (all
degenerate configurations occur on it) and evaluates the reference; repository code is never evaluated on
concrete coordinates.

Also decided: the default tolerances are the literal 0.0; only + - * / and comparisons reach a decision (any
other operation makes the interpreter stop with exit 2).
"""
import numpy as np
from fractions import Fraction

from ..astq import literal_value
from ..facts import AnalysisBroken
from ..microai.interp import Obj, Vec, Box, Unsupported, PathLimit
from ..microai.poly import Poly
from ..microai import geom
from ..microai.geom import (sym_point, orient, same_pt, on_open_segment, on_closed_segment, proper_crossing,
                            DONT_CARE, interpret_tree, compare_tree)


def names(*pts):
    out = []
    for p in pts:
        out += [p + ".x", p + ".y"]
    return out


def sym_polygon(prefix, n):
    return Obj("Avoid::Polygon", {"_id": 0, "ps": Vec([sym_point("%s%d" % (prefix, i)) for i in range(n)], "Avoid::Point"),
                                  "ts": Vec([], "char")})


def poly_region(env, pts, q):
    """0 outside, 1 strictly inside, 2 on the boundary of the closed polygon pts (even-odd rule, exact)."""
    n = len(pts)
    boundary = np.zeros(len(env[q + ".x"]), dtype=bool)
    crossings = np.zeros(len(env[q + ".x"]), dtype=np.int64)
    qx, qy = env[q + ".x"], env[q + ".y"]
    for i in range(n):
        p1, p2 = pts[i], pts[(i + 1) % n]
        boundary |= on_closed_segment(env, p1, p2, q)
        x1, y1, x2, y2 = env[p1 + ".x"], env[p1 + ".y"], env[p2 + ".x"], env[p2 + ".y"]
        straddle = (y1 > qy) != (y2 > qy)
        dy = y2 - y1
        t = (x2 - x1) * (qy - y1) + (x1 - qx) * dy
        crossings += (straddle & (np.sign(t) * np.sign(dy) > 0)).astype(np.int64)
    inside = (crossings % 2) == 1
    return np.where(boundary, 2, np.where(inside, 1, 0))


def segments_touch(env, a, b, c, d):
    """closed segments ab and cd share at least one point"""
    o1, o2 = orient(env, a, b, c), orient(env, a, b, d)
    o3, o4 = orient(env, c, d, a), orient(env, c, d, b)
    general = (o1 * o2 < 0) & (o3 * o4 < 0)
    return (general | on_closed_segment(env, a, b, c) | on_closed_segment(env, a, b, d)
            | on_closed_segment(env, c, d, a) | on_closed_segment(env, c, d, b))


def simple_polygon(env, pts):
    n = len(pts)
    ok = np.ones(len(env[pts[0] + ".x"]), dtype=bool)
    for i in range(n):
        for j in range(i + 1, n):
            ok &= ~same_pt(env, pts[i], pts[j])
    # adjacent edges must not fold back onto each other
    for i in range(n):
        a, b, c = pts[i], pts[(i + 1) % n], pts[(i + 2) % n]
        ok &= ~(on_closed_segment(env, a, b, c) | on_closed_segment(env, b, c, a))
    if n == 3:
        ok &= orient(env, pts[0], pts[1], pts[2]) != 0
    for i in range(n):
        for j in range(i + 1, n):
            if j == i or (j + 1) % n == i or (i + 1) % n == j:
                continue
            ok &= ~segments_touch(env, pts[i], pts[(i + 1) % n], pts[j], pts[(j + 1) % n])
    return ok


def convex_lib_winding(env, pts):
    """strictly convex with the winding libavoid shapes use: every turn has vecDir > 0"""
    n = len(pts)
    ok = np.ones(len(env[pts[0] + ".x"]), dtype=bool)
    for i in range(n):
        ok &= orient(env, pts[i], pts[(i + 1) % n], pts[(i + 2) % n]) > 0
    return ok


def subjects(prog, tier):
    S = []
    s4 = 5 if tier == "thorough" else 4    # grid side for 4-point predicates
    s3 = 6 if tier == "thorough" else 5

    def add(name, fn, args, varnames, side, spec, post=None, omap=None, this=None):
        S.append(dict(name=name, fn=fn, args=args, vars=varnames, side=side, spec=spec, post=post, omap=omap))

    a, b, c, d = (sym_point(x) for x in "abcd")
    add("vecDir(a,b,c)", prog.fn("Avoid::vecDir"), [a, b, c], names("a", "b", "c"), s3 + 1,
        lambda e: orient(e, "a", "b", "c"))
    add("segmentIntersect(a,b,c,d)", prog.fn("Avoid::segmentIntersect"), [a, b, c, d], names("a", "b", "c", "d"), s4,
        lambda e: proper_crossing(e, "a", "b", "c", "d").astype(np.int64))
    add("pointOnLine(a,b,c)", prog.fn("Avoid::pointOnLine"), [a, b, c], names("a", "b", "c"), s3 + 1,
        lambda e: on_open_segment(e, "a", "b", "c").astype(np.int64))
    add("inBetween(a,b,c) | collinear", prog.fn("Avoid::inBetween"), [a, b, c], names("a", "b", "c"), s3 + 1,
        lambda e: np.where(orient(e, "a", "b", "c") == 0, on_open_segment(e, "a", "b", "c").astype(np.int64), DONT_CARE))
    add("colinear(a,b,c)", prog.fn("Avoid::colinear"), [a, b, c], names("a", "b", "c"), s3 + 1,
        lambda e: (orient(e, "a", "b", "c") == 0).astype(np.int64))
    a0, a1, a2 = sym_point("a0"), sym_point("a1"), sym_point("a2")
    for ign in (False, True):
        def spec_ivr(e, ign=ign):
            r = orient(e, "b", "a0", "a1")
            s = orient(e, "b", "a1", "a2")
            convex = orient(e, "a0", "a1", "a2") > 0
            if ign:
                cv = ((r <= 0) & ~(s < 0)) | (~(r < 0) & (s <= 0))
                cc = np.zeros_like(cv)
            else:
                cv = (r <= 0) | (s <= 0)
                cc = (r <= 0) & (s <= 0)
            return np.where(convex, cv, cc).astype(np.int64)
        add("inValidRegion(IgnoreRegions=%s)" % ign, prog.fn("Avoid::inValidRegion"), [ign, a0, a1, a2, b],
            names("a0", "a1", "a2", "b"), s4, spec_ivr)
    c1, c2, c3, p = sym_point("c1"), sym_point("c2"), sym_point("c3"), sym_point("p")

    def spec_corner(e):
        s123 = orient(e, "c1", "c2", "c3")
        s12p = orient(e, "c1", "c2", "p")
        s23p = orient(e, "c2", "c3", "p")
        ccw = np.where((s12p >= 0) & (s23p >= 0), 1, -1)
        cw = np.where((s12p <= 0) & (s23p <= 0), -1, 1)
        return np.where(s123 == 1, ccw, np.where(s123 == -1, cw, s12p)).astype(np.int64)
    add("cornerSide(c1,c2,c3,p)", prog.fn("Avoid::cornerSide"), [c1, c2, c3, p], names("c1", "c2", "c3", "p"), s4, spec_corner)

    e1, e2, s1, s2 = sym_point("e1"), sym_point("e2"), sym_point("s1"), sym_point("s2")
    for seen in (False, True):
        def spec_ssi(e, seen=seen):
            x = proper_crossing(e, "e1", "e2", "s1", "s2")
            t1 = (same_pt(e, "s2", "e1") | on_open_segment(e, "s1", "s2", "e1")) & (orient(e, "s1", "s2", "e2") != 0)
            t2 = (same_pt(e, "s2", "e2") | on_open_segment(e, "s1", "s2", "e2")) & (orient(e, "s1", "s2", "e1") != 0)
            # a corner of the shape strictly inside the edge, the edge not running along this side (added with repair 5c1a400: the side-level
            # reference used to mirror the code and so could not see that a line through two corners was missed; the shape-level
            # meaning is decided by rule SHAPE-BLOCKING)
            t3 = on_open_segment(e, "e1", "e2", "s2") & (orient(e, "e1", "e2", "s1") != 0)
            t = ~x & (t1 | t2 | t3)
            ret = x | (t & seen)
            seen_out = np.where(x, seen, np.where(t, True, seen))
            return ret.astype(np.int64) * 2 + seen_out.astype(np.int64)
        add("segmentShapeIntersect(seenIntersectionAtEndpoint=%s)" % seen, prog.fn("Avoid::segmentShapeIntersect"),
            [e1, e2, s1, s2, Box(seen)], names("e1", "e2", "s1", "s2"), s4, spec_ssi,
            post=lambda rv, args: int(bool(rv)) * 2 + int(bool(args[4].get())))

    def spec_sip(e):
        touch = segments_touch(e, "a", "b", "c", "d")
        rx, ry = e["b.x"] - e["a.x"], e["b.y"] - e["a.y"]
        sx, sy = e["d.x"] - e["c.x"], e["d.y"] - e["c.y"]
        par = (rx * sy - ry * sx) == 0
        # DONT_INTERSECT 0, DO_INTERSECT 1, PARALLEL 3
        return np.where(~touch, 0, np.where(par, 3, 1)).astype(np.int64)
    add("segmentIntersectPoint classification", prog.fn("Avoid::segmentIntersectPoint"), [a, b, c, d, Box(), Box()],
        names("a", "b", "c", "d"), s4, spec_sip)

    # libvpsc/linesegment.h
    def vec(nm):
        return Obj("vpsc::linesegment::Vector", {"x_": Poly.var(nm + ".x"), "y_": Poly.var(nm + ".y")})
    ls = prog.fn("vpsc::linesegment::LineSegment::Intersect")
    seg0 = Obj("vpsc::linesegment::LineSegment", {"begin_": vec("a"), "end_": vec("b")})
    seg1 = Obj("vpsc::linesegment::LineSegment", {"begin_": vec("c"), "end_": vec("d")})

    def spec_ls(e):
        rx, ry = e["b.x"] - e["a.x"], e["b.y"] - e["a.y"]
        sx, sy = e["d.x"] - e["c.x"], e["d.y"] - e["c.y"]
        den = rx * sy - ry * sx
        # parallel lines (either segment may be degenerate): coincident iff c and d - rather, the two carrier
        # lines are the same, which for the library's formula means both numerators vanish
        na = sx * (e["a.y"] - e["c.y"]) - sy * (e["a.x"] - e["c.x"])
        nb = rx * (e["a.y"] - e["c.y"]) - ry * (e["a.x"] - e["c.x"])
        coincident = (na == 0) & (nb == 0)
        sd = np.sign(den)
        inter = (na * sd >= 0) & (na * sd <= den * sd) & (nb * sd >= 0) & (nb * sd <= den * sd)
        # PARALLEL 0, COINCIDENT 1, NOT_INTERSECTING 2, INTERSECTING 3
        return np.where(den == 0, np.where(coincident, 1, 0), np.where(inter, 3, 2)).astype(np.int64)
    S.append(dict(name="linesegment::LineSegment::Intersect classification", fn=ls, args=[seg1, Box(vec("out"))],
                  this=seg0, vars=names("a", "b", "c", "d"), side=s4, spec=spec_ls, post=None, omap=None))

    # polygons
    for n in (3, 4):
        pts = ["P%d" % i for i in range(n)]
        side = {3: (4 if tier == "quick" else 5), 4: (3 if tier == "quick" else 4)}[n]
        for cb in (True, False):
            def spec_inpoly(e, pts=pts, cb=cb):
                reg = poly_region(e, pts, "q")
                want = (reg >= 1) if cb else (reg == 1)
                return np.where(convex_lib_winding(e, pts), want.astype(np.int64), DONT_CARE)
            add("inPoly(n=%d, countBorder=%s) | convex" % (n, cb), prog.fn("Avoid::inPoly"),
                [sym_polygon("P", n), sym_point("q"), cb], names(*(pts + ["q"])), side, spec_inpoly)

        if n == 4 and tier == "quick":
            continue    # 5005 paths, ~70 s: thorough tier only

        def spec_inpolygen(e, pts=pts):
            reg = poly_region(e, pts, "q")
            return np.where(simple_polygon(e, pts), (reg >= 1).astype(np.int64), DONT_CARE)
        add("inPolyGen(n=%d) | simple polygon" % n, prog.fn("Avoid::inPolyGen"),
            [sym_polygon("P", n), sym_point("q")], names(*(pts + ["q"])), side, spec_inpolygen)
    return S


def run_subjects(chk, prog, tier, rule_id="TABLE=EXACT", only=None, floor=14):
    """Decision-table comparison for the geometry predicates (all, or those whose name starts with one of `only`)."""
    r = chk.rule(rule_id, "the decision tree extracted from the function (symbolic interpretation, sign atoms over integer "
                 "polynomials of the coordinates) partitions the integer grid and agrees with the exact reference definition on "
                 "every realisable sign class, degenerate configurations included" +
                 ("" if only is None else " -- shared with C16, subjects: " + ", ".join(only)), floor=floor)
    total_rows = total_real = total_grid = 0
    for s in subjects(prog, tier):
        if only is not None and not any(s["name"].startswith(o) for o in only):
            continue
        fn = s["fn"]
        try:
            rows = interpret_tree(prog, fn, s["args"], lattice=True, post=s["post"], this=s.get("this"),
                                  grid=(s["vars"], s["side"]))
        except (Unsupported, PathLimit) as e:
            raise AnalysisBroken("%s is outside the interpreter's subset: %s" % (s["name"], e))
        res = compare_tree(rows, s["vars"], s["side"], s["spec"], outcome_map=s["omap"])
        total_rows += res.rows
        total_real += res.realisable
        total_grid += res.grid
        r.count(res.realisable)
        if res.mismatches:
            m = res.mismatches[0]
            r.bad(s["name"], fn.where(), "on the sign class %s (witness %s, %d grid tuples) the function %s but exact arithmetic gives %s"
                  % (m["atoms"], m["witness"], m["tuples"], m["outcome"], m["expected"]))
        else:
            r.ok(s["name"], fn.where(), "%d paths, %d realisable, grid %d" % (res.rows, res.realisable, res.grid))
        for smp in res.samples[:1]:
            chk.sample({"rule": rule_id, "subject": s["name"], "class": smp})
    return total_rows, total_real, total_grid


def rule_intersection_point(chk, prog):
    """The coordinates returned with DO_INTERSECT lie on both supporting lines -- as an identity of rational functions."""
    from ..microai.poly import num_den, r_sub, r_mul, to_poly
    r = chk.rule("INTERSECTION-POINT", "segmentIntersectPoint / rayIntersectPoint, symbolic end points: on every path that reports an "
                 "intersection the returned (x, y) satisfies cross(a2 - a1, P - a1) = 0 and cross(b2 - b1, P - b1) = 0 identically (the "
                 "point is the intersection of the two supporting lines; rounding aside)", floor=2)
    a, b, c, d = (sym_point(n) for n in "abcd")
    for q in ("Avoid::segmentIntersectPoint", "Avoid::rayIntersectPoint"):
        fn = prog.fn(q)
        try:
            rows = interpret_tree(prog, fn, [a, b, c, d, Box(), Box()], lattice=True,
                                  post=lambda rv, args: (rv, args[4].get(), args[5].get()), grid=(names("a", "b", "c", "d"), 3))
        except (Unsupported, PathLimit) as e:
            raise AnalysisBroken("%s is outside the interpreter's subset: %s" % (q, e))
        n_hit = 0
        bad = None
        V = lambda nm: Poly.var(nm)
        for val, descr, out in rows:
            if out[0] != "ret" or out[1][0] != 1:
                continue
            n_hit += 1
            x, y = out[1][1], out[1][2]
            for (p1, p2) in (("a", "b"), ("c", "d")):
                ux, uy = r_sub(V(p2 + ".x"), V(p1 + ".x")), r_sub(V(p2 + ".y"), V(p1 + ".y"))
                cr = r_sub(r_mul(ux, r_sub(y, V(p1 + ".y"))), r_mul(uy, r_sub(x, V(p1 + ".x"))))
                num, den = num_den(cr)
                if to_poly(num) != to_poly(Fraction(0)):
                    bad = bad or "a path returns the point (%s, %s), which is not on the line through %s and %s (residual %s)" % (x, y, p1, p2, num)
        r.count(max(1, n_hit))
        if n_hit == 0:
            bad = bad or "no path reports an intersection"
        (r.bad if bad else r.ok)(q.split("::")[-1], fn.where(), bad or "%d intersecting paths" % n_hit)


def rule_shape_blocking(chk, prog, only=None):
    """Composition of segmentShapeIntersect over the sides of one convex shape, as firstBlocker / newBlockingShape scan them."""
    from ..microai.interp import Interp, Oracle, default_obj
    r = chk.rule("SHAPE-BLOCKING", "segmentShapeIntersect composed over all sides of a convex polygon with one `seen` flag per shape (the scan of "
                 "EdgeInf::firstBlocker and Router::newBlockingShape; scan started at every side), interpreted for every segment between "
                 "lattice points that has no end point strictly inside the polygon: the scan reports `blocked` exactly when the segment "
                 "contains a point strictly inside the polygon -- lines through two corners, through a corner and a side, along a side, "
                 "touching one corner and ending on the boundary included (square, triangle and pentagon on a 7 x 7 lattice)", floor=3)
    fn = prog.fn("Avoid::segmentShapeIntersect")
    polys = {"square": [(2, 2), (4, 2), (4, 4), (2, 4)], "triangle": [(1, 1), (5, 1), (3, 5)], "pentagon": [(2, 1), (4, 1), (5, 3), (3, 5), (1, 3)]}
    if only:
        polys = {k_: v_ for k_, v_ in polys.items() if k_ in only}
        r.floor = len(polys)

    def pt(x, y):
        return default_obj(prog, "Avoid::Point", {"x": Fraction(x), "y": Fraction(y), "id": 0, "vn": 8})

    def cross(o, a, b):
        return (a[0] - o[0]) * (b[1] - o[1]) - (a[1] - o[1]) * (b[0] - o[0])

    def strictly_inside(poly, p):
        sg = [cross(poly[i], poly[(i + 1) % len(poly)], p) for i in range(len(poly))]
        return all(x > 0 for x in sg) or all(x < 0 for x in sg)

    def enters(poly, a, b):
        """Does the closed segment ab contain a point strictly inside the convex polygon?  Clip the parameter interval against every side."""
        orient = 1 if cross(poly[0], poly[1], poly[2]) > 0 else -1
        lo, hi = Fraction(0), Fraction(1)
        for i in range(len(poly)):
            p, q = poly[i], poly[(i + 1) % len(poly)]
            fa, fb = orient * cross(p, q, a), orient * cross(p, q, b)       # > 0 strictly on the inner side
            if fa <= 0 and fb <= 0:
                return False
            if fa <= 0 or fb <= 0:
                t = Fraction(fa, fa - fb)
                if fa <= 0:
                    lo = max(lo, t)
                else:
                    hi = min(hi, t)
        return lo < hi
    lattice = [(x, y) for x in range(7) for y in range(7)]
    for name, poly in polys.items():
        bad, n = None, 0
        it = Interp(prog, Oracle([]), max_steps=50000000)
        P = {p_: pt(*p_) for p_ in set(lattice) | set(poly)}
        for a in lattice:
            if strictly_inside(poly, a):
                continue
            for b in lattice:
                if b <= a or strictly_inside(poly, b):
                    continue
                want = enters(poly, a, b)
                for start in range(len(poly)):
                    seen = Box(False)
                    got = False
                    for k in range(len(poly)):
                        s1, s2 = poly[(start + k) % len(poly)], poly[(start + k + 1) % len(poly)]
                        try:
                            if it.call(fn, None, None, None, arg_values=[P[a], P[b], P[s1], P[s2], seen]):
                                got = True
                                break
                        except Unsupported as e:
                            raise AnalysisBroken("segmentShapeIntersect outside the interpreter subset: %s" % e)
                    n += 1
                    if bool(got) != want and bad is None:
                        bad = "segment %s-%s, scan started at side %d: reported %s, the segment %s the interior" % (
                            a, b, start, "blocked" if got else "not blocked", "passes through" if want else "does not enter")
        r.count()
        r.evaluations = getattr(r, "evaluations", 0) + n
        (r.bad if bad else r.ok)(name, fn.where(), bad or "%d (segment, start side) scans" % n)


def rule_rect_winding(chk, prog):
    """Avoid::Rectangle's constructors feed inPoly (which needs one fixed winding): the winding must not depend on how the corners are given."""
    from ..microai.interp import Interp, Oracle, default_obj
    r = chk.rule("RECT-WINDING", "Avoid::Rectangle(corner, corner) interpreted for the two corners given in all four ways (either diagonal, either "
                 "order) and Rectangle(centre, width, height): the four vertices are the four corners of the same box and the signed area has "
                 "the same sign every time -- inPoly decides by `point is on the same side of every edge` and answers `outside` for every "
                 "point of a rectangle wound the other way round", floor=5)
    cands = [f for f in prog.all_functions() if f.kind == "ctor" and f.cls == "Avoid::Rectangle" and f.body is not None and f.tmpl != "pattern"]
    two = [f for f in cands if len(f.params) == 2]
    three = [f for f in cands if len(f.params) == 3]
    if len(two) != 1 or len(three) != 1:
        raise AnalysisBroken("Avoid::Rectangle constructors not found")

    def pt(x, y):
        return default_obj(prog, "Avoid::Point", {"x": Fraction(x), "y": Fraction(y), "id": 0, "vn": 8})

    def build(fn, args):
        it = Interp(prog, Oracle([]))
        o = default_obj(prog, "Avoid::Rectangle", {})
        o.f["ps"] = Vec([pt(0, 0) for _ in range(4)], "Avoid::Point")
        it.ctor_hooks = {"Avoid::Polygon": lambda it_, ob, a_, env: None}
        try:
            it.call(fn, o, None, None, arg_values=args)
        except Unsupported as e:
            raise AnalysisBroken("Rectangle constructor outside the interpreter subset: %s" % e)
        vs = [(p_.f["x"], p_.f["y"]) for p_ in o.f["ps"].items]
        area2 = sum(vs[i][0] * vs[(i + 1) % 4][1] - vs[(i + 1) % 4][0] * vs[i][1] for i in range(4))
        return vs, area2
    box = (1, 2, 7, 5)       # xMin, yMin, xMax, yMax
    corners = {(1, 2), (7, 2), (7, 5), (1, 5)}
    ref = None
    cases = [("Rectangle(centre, w, h)", three[0], [pt(4, Fraction(7, 2)), Fraction(6), Fraction(3)]),
             ("corners (xMin,yMin),(xMax,yMax)", two[0], [pt(1, 2), pt(7, 5)]), ("corners (xMax,yMax),(xMin,yMin)", two[0], [pt(7, 5), pt(1, 2)]),
             ("corners (xMin,yMax),(xMax,yMin)", two[0], [pt(1, 5), pt(7, 2)]), ("corners (xMax,yMin),(xMin,yMax)", two[0], [pt(7, 2), pt(1, 5)])]
    for name, fn, args in cases:
        vs, a2 = build(fn, args)
        r.count()
        bad = None
        if set(vs) != corners:
            bad = "vertices %s are not the four corners of the box" % [(str(a), str(b)) for a, b in vs]
        elif a2 == 0:
            bad = "degenerate polygon"
        elif ref is None:
            ref = 1 if a2 > 0 else -1
        elif (1 if a2 > 0 else -1) != ref:
            bad = "the rectangle is wound the other way round than Rectangle(centre, w, h) builds it: inPoly reports every point as outside"
        (r.bad if bad else r.ok)(name, fn.where(), bad or "")


def run(chk):
    prog = chk.load(None)
    tier = chk.tier
    r0 = chk.rule("TOL-ZERO", "the default tolerance arguments of vecDir / pointOnLine / colinear are the literal 0.0", floor=3)
    for fq, pname in (("Avoid::vecDir", "maybeZero"), ("Avoid::pointOnLine", "tolerance"), ("Avoid::colinear", "tolerance")):
        fn = prog.fn(fq)
        par = [p for p in fn.params if p["name"] == pname]
        if not par:
            raise AnalysisBroken("%s has no parameter %s" % (fq, pname))
        # the default argument is recorded on the declaration the definition sees; look at any call that uses it
        dv = None
        if par[0].get("defarg"):
            dv = literal_value(par[0]["defarg"])
        else:
            for f in prog.all_functions():
                for n in f.nodes():
                    if n.get("callee") == fn.key:
                        for a in n.get("ch", []):
                            if a.get("k") == "CXXDefaultArgExpr" and a.get("expr"):
                                dv = literal_value(a["expr"])
                    if dv is not None:
                        break
                if dv is not None:
                    break
        if dv is None:
            raise AnalysisBroken("default value of %s::%s not found" % (fq, pname))
        if Fraction(dv) == 0:
            r0.ok(fq, fn.where(), "default %s" % dv)
        else:
            r0.bad(fq, fn.where(), "default tolerance `%s` is %s, not 0.0" % (pname, dv))

    total_rows, total_real, total_grid = run_subjects(chk, prog, tier)
    chk.guard(rule_intersection_point, chk, prog)
    chk.guard(rule_rect_winding, chk, prog)
    chk.guard(rule_shape_blocking, chk, prog, None if tier == "thorough" else ("square", "triangle"))
    chk.extra["decision_tree_paths"] = total_rows
    chk.extra["realisable_sign_classes"] = total_real
    chk.extra["grid_tuples_classified"] = total_grid
    chk.assumptions.append("inputs are integer-valued (the property's domain): a tolerance t with |t|<1 is folded into the sign atom")
    chk.assumptions.append("reference definitions in engine/props/c16.py are the oracle; grid side per subject is recorded in the rule output")


